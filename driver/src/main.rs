// griddle-facts: a rustc_private fact extractor.
//
// Used as RUSTC_WORKSPACE_WRAPPER under `cargo +nightly check`.  For the crate
// named by $VERIF_CRATE (lib target) it dumps, after analysis, one JSON document
// with the type-checked program: ADTs, impls, constants, and for every function
// body its MIR (locals, statements, terminators with resolved callees, spans with
// macro back-traces).  Nothing is executed; nothing is decided here — the rule
// engine in /verif/analysis reads the dump.
#![feature(rustc_private)]
#![allow(rustc::internal)]

extern crate rustc_abi;
extern crate rustc_data_structures;
extern crate rustc_driver;
extern crate rustc_hir;
extern crate rustc_interface;
extern crate rustc_middle;
extern crate rustc_session;
extern crate rustc_span;

use rustc_data_structures::fx::FxHashMap;
use rustc_driver::Compilation;
use rustc_hir::def::DefKind;
use rustc_hir::def_id::{DefId, LocalDefId};
use rustc_interface::interface;
use rustc_middle::mir::{self, *};
use rustc_middle::ty::print::with_no_trimmed_paths;
use rustc_middle::ty::{self, GenericArgKind, GenericArgsRef, Instance, Ty, TyCtxt, TypingEnv};
use rustc_span::{ExpnKind, Span};
use std::fmt::Write as _;

// ---------------------------------------------------------------------------
// a very small JSON value
// ---------------------------------------------------------------------------
#[derive(Clone)]
enum J {
    Null,
    B(bool),
    I(i128),
    S(String),
    A(Vec<J>),
    O(Vec<(&'static str, J)>),
}

fn s<T: Into<String>>(x: T) -> J {
    J::S(x.into())
}

impl J {
    fn write(&self, out: &mut String) {
        match self {
            J::Null => out.push_str("null"),
            J::B(b) => out.push_str(if *b { "true" } else { "false" }),
            J::I(i) => {
                let _ = write!(out, "{}", i);
            }
            J::S(st) => {
                out.push('"');
                for c in st.chars() {
                    match c {
                        '"' => out.push_str("\\\""),
                        '\\' => out.push_str("\\\\"),
                        '\n' => out.push_str("\\n"),
                        '\r' => out.push_str("\\r"),
                        '\t' => out.push_str("\\t"),
                        c if (c as u32) < 0x20 => {
                            let _ = write!(out, "\\u{:04x}", c as u32);
                        }
                        c => out.push(c),
                    }
                }
                out.push('"');
            }
            J::A(v) => {
                out.push('[');
                for (i, x) in v.iter().enumerate() {
                    if i > 0 {
                        out.push(',');
                    }
                    x.write(out);
                }
                out.push(']');
            }
            J::O(v) => {
                out.push('{');
                for (i, (k, x)) in v.iter().enumerate() {
                    if i > 0 {
                        out.push(',');
                    }
                    out.push('"');
                    out.push_str(k);
                    out.push_str("\":");
                    x.write(out);
                }
                out.push('}');
            }
        }
    }
}

// ---------------------------------------------------------------------------
// extraction context
// ---------------------------------------------------------------------------
struct Cx<'tcx> {
    tcx: TyCtxt<'tcx>,
    krate: String,
    tys: FxHashMap<Ty<'tcx>, usize>,
    ty_table: Vec<J>,
}

impl<'tcx> Cx<'tcx> {
    fn path(&self, did: DefId) -> String {
        let p = with_no_trimmed_paths!(self.tcx.def_path_str(did));
        if did.is_local() {
            format!("{}::{}", self.krate, p)
        } else {
            p
        }
    }

    fn path_with_args(&self, did: DefId, args: GenericArgsRef<'tcx>) -> String {
        let p = with_no_trimmed_paths!(self.tcx.def_path_str_with_args(did, args));
        if did.is_local() {
            format!("{}::{}", self.krate, p)
        } else {
            p
        }
    }

    /// stable key that does not depend on pretty printing: crate + def-path data
    fn dpath(&self, did: DefId) -> String {
        format!(
            "{}{}",
            self.tcx.crate_name(did.krate),
            self.tcx.def_path(did).to_string_no_crate_verbose()
        )
    }

    fn ty(&mut self, t: Ty<'tcx>) -> J {
        J::I(self.ty_id(t) as i128)
    }

    fn ty_id(&mut self, t: Ty<'tcx>) -> usize {
        if let Some(&i) = self.tys.get(&t) {
            return i;
        }
        // reserve the slot first (types are finite trees, no cycles, but keeps ids stable)
        let id = self.ty_table.len();
        self.ty_table.push(J::Null);
        self.tys.insert(t, id);
        let st = with_no_trimmed_paths!(format!("{}", t));
        let mut o: Vec<(&'static str, J)> = vec![("s", s(st))];
        o.push(("has_param", J::B(has_param(t))));
        match *t.kind() {
            ty::Adt(def, args) => {
                o.push(("k", s("adt")));
                o.push(("adt", s(self.path(def.did()))));
                let a: Vec<J> = args.iter().filter_map(|g| g.as_type()).map(|x| self.ty(x)).collect();
                o.push(("args", J::A(a)));
            }
            ty::Ref(_, inner, m) => {
                o.push(("k", s("ref")));
                o.push(("mut", J::B(m.is_mut())));
                let i = self.ty(inner);
                o.push(("inner", i));
            }
            ty::RawPtr(inner, m) => {
                o.push(("k", s("ptr")));
                o.push(("mut", J::B(m.is_mut())));
                let i = self.ty(inner);
                o.push(("inner", i));
            }
            ty::Param(p) => {
                o.push(("k", s("param")));
                o.push(("name", s(p.name.as_str())));
            }
            ty::Closure(did, args) => {
                o.push(("k", s("closure")));
                o.push(("def", s(self.dpath(did))));
                let ups: Vec<J> = args.as_closure().upvar_tys().iter().map(|x| self.ty(x)).collect();
                o.push(("upvars", J::A(ups)));
            }
            ty::FnDef(did, args) => {
                o.push(("k", s("fndef")));
                o.push(("def", s(self.path(did))));
                let a: Vec<J> = args.iter().filter_map(|g| g.as_type()).map(|x| self.ty(x)).collect();
                o.push(("args", J::A(a)));
            }
            ty::Tuple(elems) => {
                o.push(("k", s("tuple")));
                let a: Vec<J> = elems.iter().map(|x| self.ty(x)).collect();
                o.push(("elems", J::A(a)));
            }
            ty::Alias(..) => {
                o.push(("k", s("alias")));
            }
            ty::Bool => o.push(("k", s("bool"))),
            ty::Int(_) | ty::Uint(_) => o.push(("k", s("int"))),
            ty::Slice(inner) => {
                o.push(("k", s("slice")));
                let i = self.ty(inner);
                o.push(("inner", i));
            }
            ty::Array(inner, _) => {
                o.push(("k", s("array")));
                let i = self.ty(inner);
                o.push(("inner", i));
            }
            ty::FnPtr(..) => o.push(("k", s("fnptr"))),
            ty::Dynamic(..) => o.push(("k", s("dyn"))),
            ty::Never => o.push(("k", s("never"))),
            _ => o.push(("k", s("other"))),
        }
        self.ty_table[id] = J::O(o);
        id
    }

    fn span(&self, sp: Span) -> J {
        let sm = self.tcx.sess.source_map();
        let mut macros = Vec::new();
        for ex in sp.macro_backtrace() {
            match ex.kind {
                ExpnKind::Macro(_, name) => macros.push(s(name.as_str())),
                ExpnKind::Desugaring(d) => macros.push(s(format!("desugar:{:?}", d))),
                ExpnKind::AstPass(p) => macros.push(s(format!("astpass:{:?}", p))),
                ExpnKind::Root => {}
            }
        }
        // outermost call site: where the user wrote the code
        let outer = sp.source_callsite();
        let lo = sm.lookup_char_pos(outer.lo());
        let hi = sm.lookup_char_pos(outer.hi());
        let file = format!("{}", lo.file.name.prefer_local_unconditionally());
        J::O(vec![
            ("file", s(file)),
            ("line", J::I(lo.line as i128)),
            ("col", J::I(lo.col.0 as i128 + 1)),
            ("eline", J::I(hi.line as i128)),
            ("exp", J::B(sp.from_expansion())),
            ("macros", J::A(macros)),
        ])
    }
}

fn has_param<'tcx>(t: Ty<'tcx>) -> bool {
    use rustc_middle::ty::TypeVisitableExt;
    t.has_non_region_param()
}

// ---------------------------------------------------------------------------
// MIR body dump
// ---------------------------------------------------------------------------
struct BodyCx<'a, 'tcx> {
    cx: &'a mut Cx<'tcx>,
    body: &'a Body<'tcx>,
    def_id: DefId,
}

impl<'a, 'tcx> BodyCx<'a, 'tcx> {
    fn place(&mut self, p: &Place<'tcx>) -> J {
        let tcx = self.cx.tcx;
        let mut pty = mir::PlaceTy::from_ty(self.body.local_decls[p.local].ty);
        let mut proj = Vec::new();
        for elem in p.projection.iter() {
            let base_ty = pty.ty;
            let j = match elem {
                ProjectionElem::Deref => {
                    let is_raw = matches!(base_ty.kind(), ty::RawPtr(..));
                    J::O(vec![("k", s("deref")), ("raw", J::B(is_raw))])
                }
                ProjectionElem::Field(f, fty) => {
                    let mut o = vec![("k", s("field")), ("i", J::I(f.as_usize() as i128))];
                    if let ty::Adt(def, _) = base_ty.kind() {
                        o.push(("adt", s(self.cx.path(def.did()))));
                        let vidx = pty.variant_index.unwrap_or(rustc_abi::FIRST_VARIANT);
                        if def.is_enum() || def.is_struct() || def.is_union() {
                            if let Some(v) = def.variants().get(vidx) {
                                if let Some(fd) = v.fields.get(f) {
                                    o.push(("name", s(fd.name.as_str())));
                                }
                                o.push(("variant", s(v.name.as_str())));
                            }
                        }
                    } else if let ty::Closure(did, _) = base_ty.kind() {
                        o.push(("closure", s(self.cx.dpath(*did))));
                    } else if let ty::Tuple(_) = base_ty.kind() {
                        o.push(("tuple", J::B(true)));
                    }
                    let t = self.cx.ty(fty);
                    o.push(("ty", t));
                    J::O(o)
                }
                ProjectionElem::Downcast(name, vidx) => J::O(vec![
                    ("k", s("downcast")),
                    ("variant", name.map(|n| s(n.as_str())).unwrap_or(J::Null)),
                    ("vidx", J::I(vidx.as_usize() as i128)),
                ]),
                ProjectionElem::Index(l) => J::O(vec![("k", s("index")), ("local", J::I(l.as_usize() as i128))]),
                ProjectionElem::ConstantIndex { .. } => J::O(vec![("k", s("constindex"))]),
                ProjectionElem::Subslice { .. } => J::O(vec![("k", s("subslice"))]),
                ProjectionElem::OpaqueCast(_) => J::O(vec![("k", s("opaquecast"))]),
                ProjectionElem::UnwrapUnsafeBinder(_) => J::O(vec![("k", s("unwrapbinder"))]),
            };
            proj.push(j);
            pty = pty.projection_ty(tcx, elem);
        }
        let t = self.cx.ty(pty.ty);
        J::O(vec![
            ("local", J::I(p.local.as_usize() as i128)),
            ("proj", J::A(proj)),
            ("ty", t),
        ])
    }

    fn constant(&mut self, c: &ConstOperand<'tcx>) -> J {
        let tcx = self.cx.tcx;
        let cty = c.const_.ty();
        let mut o: Vec<(&'static str, J)> = vec![("k", s("const"))];
        let t = self.cx.ty(cty);
        o.push(("ty", t));
        let txt = with_no_trimmed_paths!(format!("{}", c.const_));
        o.push(("text", s(txt)));
        if c.span.from_expansion() {
            // a literal produced by a macro (cfg!(debug_assertions) becomes `true`/`false`): keep where it came from
            let sp = self.cx.span(c.span);
            o.push(("span", sp));
        }
        if let ty::FnDef(did, args) = cty.kind() {
            o.push(("fn", s(self.cx.path(*did))));
            o.push(("fn_args", s(self.cx.path_with_args(*did, args))));
        }
        // try to evaluate scalars (bool / ints / usize), including named constants like `R`
        let env = TypingEnv::post_analysis(tcx, self.def_id);
        if cty.is_integral() || cty.is_bool() || cty.is_char() {
            if let Some(si) = c.const_.try_eval_scalar_int(tcx, env) {
                let size = si.size();
                let v: i128 = if cty.is_signed() {
                    si.to_int(size)
                } else {
                    si.to_uint(size) as i128
                };
                o.push(("val", J::I(v)));
            }
        }
        match c.const_ {
            mir::Const::Unevaluated(uv, _) => {
                o.push(("uneval", s(self.cx.path(uv.def))));
            }
            _ => {}
        }
        J::O(o)
    }

    fn operand(&mut self, op: &Operand<'tcx>) -> J {
        match op {
            Operand::Copy(p) => {
                let pj = self.place(p);
                J::O(vec![("k", s("copy")), ("place", pj)])
            }
            Operand::Move(p) => {
                let pj = self.place(p);
                J::O(vec![("k", s("move")), ("place", pj)])
            }
            Operand::Constant(c) => self.constant(c),
            Operand::RuntimeChecks(rc) => J::O(vec![("k", s("runtime_checks")), ("which", s(format!("{:?}", rc)))]),
        }
    }

    fn rvalue(&mut self, rv: &Rvalue<'tcx>) -> J {
        match rv {
            Rvalue::Use(op, _) => {
                let o = self.operand(op);
                J::O(vec![("k", s("use")), ("op", o)])
            }
            Rvalue::Repeat(op, _) => {
                let o = self.operand(op);
                J::O(vec![("k", s("repeat")), ("op", o)])
            }
            Rvalue::Ref(_, bk, p) => {
                let pj = self.place(p);
                let m = matches!(bk, BorrowKind::Mut { .. });
                J::O(vec![("k", s("ref")), ("mut", J::B(m)), ("place", pj)])
            }
            Rvalue::ThreadLocalRef(d) => J::O(vec![("k", s("tls")), ("def", s(self.cx.path(*d)))]),
            Rvalue::RawPtr(k, p) => {
                let pj = self.place(p);
                J::O(vec![("k", s("rawptr")), ("mut", J::B(matches!(k, RawPtrKind::Mut))), ("place", pj)])
            }
            Rvalue::Cast(kind, op, t) => {
                let o = self.operand(op);
                let tj = self.cx.ty(*t);
                J::O(vec![("k", s("cast")), ("cast", s(format!("{:?}", kind))), ("op", o), ("ty", tj)])
            }
            Rvalue::BinaryOp(bop, ab) => {
                let a = self.operand(&ab.0);
                let b = self.operand(&ab.1);
                J::O(vec![("k", s("binop")), ("op", s(format!("{:?}", bop))), ("a", a), ("b", b)])
            }
            Rvalue::UnaryOp(uop, op) => {
                let a = self.operand(op);
                J::O(vec![("k", s("unop")), ("op", s(format!("{:?}", uop))), ("a", a)])
            }
            Rvalue::Discriminant(p) => {
                let pj = self.place(p);
                J::O(vec![("k", s("discr")), ("place", pj)])
            }
            Rvalue::Aggregate(kind, ops) => {
                let opsj: Vec<J> = ops.iter().map(|o| self.operand(o)).collect();
                let mut o: Vec<(&'static str, J)> = vec![("k", s("aggregate"))];
                match &**kind {
                    AggregateKind::Array(_) => o.push(("agg", s("array"))),
                    AggregateKind::Tuple => o.push(("agg", s("tuple"))),
                    AggregateKind::Adt(did, vidx, _args, _, active) => {
                        o.push(("agg", s("adt")));
                        o.push(("adt", s(self.cx.path(*did))));
                        let def = self.cx.tcx.adt_def(*did);
                        let v = def.variant(*vidx);
                        o.push(("variant", s(v.name.as_str())));
                        o.push(("vidx", J::I(vidx.as_usize() as i128)));
                        let names: Vec<J> = v.fields.iter().map(|f| s(f.name.as_str())).collect();
                        o.push(("fields", J::A(names)));
                        if let Some(a) = active {
                            o.push(("active", J::I(a.as_usize() as i128)));
                        }
                    }
                    AggregateKind::Closure(did, _) => {
                        o.push(("agg", s("closure")));
                        o.push(("def", s(self.cx.dpath(*did))));
                    }
                    AggregateKind::Coroutine(did, _) | AggregateKind::CoroutineClosure(did, _) => {
                        o.push(("agg", s("coroutine")));
                        o.push(("def", s(self.cx.dpath(*did))));
                    }
                    AggregateKind::RawPtr(..) => o.push(("agg", s("rawptr"))),
                }
                o.push(("ops", J::A(opsj)));
                J::O(o)
            }
            Rvalue::CopyForDeref(p) => {
                let pj = self.place(p);
                J::O(vec![("k", s("copy_for_deref")), ("place", pj)])
            }
            Rvalue::WrapUnsafeBinder(op, _) => {
                let o = self.operand(op);
                J::O(vec![("k", s("wrap_binder")), ("op", o)])
            }
        }
    }

    fn statement(&mut self, st: &Statement<'tcx>) -> Option<J> {
        let sp = self.cx.span(st.source_info.span);
        match &st.kind {
            StatementKind::Assign(b) => {
                let (p, rv) = &**b;
                let pj = self.place(p);
                let rj = self.rvalue(rv);
                Some(J::O(vec![("k", s("assign")), ("place", pj), ("rv", rj), ("span", sp)]))
            }
            StatementKind::SetDiscriminant { place, variant_index } => {
                let pj = self.place(place);
                Some(J::O(vec![
                    ("k", s("set_discr")),
                    ("place", pj),
                    ("vidx", J::I(variant_index.as_usize() as i128)),
                    ("span", sp),
                ]))
            }
            StatementKind::Intrinsic(i) => {
                let txt = format!("{:?}", i);
                Some(J::O(vec![("k", s("intrinsic")), ("text", s(txt)), ("span", sp)]))
            }
            StatementKind::StorageLive(_)
            | StatementKind::StorageDead(_)
            | StatementKind::Nop
            | StatementKind::FakeRead(..)
            | StatementKind::PlaceMention(..)
            | StatementKind::AscribeUserType(..)
            | StatementKind::Coverage(..)
            | StatementKind::ConstEvalCounter
            | StatementKind::BackwardIncompatibleDropHint { .. } => None,
        }
    }

    fn unwind(&self, u: &UnwindAction) -> J {
        match u {
            UnwindAction::Continue => s("continue"),
            UnwindAction::Unreachable => s("unreachable"),
            UnwindAction::Terminate(_) => s("terminate"),
            UnwindAction::Cleanup(bb) => J::I(bb.as_usize() as i128),
        }
    }

    fn terminator(&mut self, t: &Terminator<'tcx>) -> J {
        let tcx = self.cx.tcx;
        let sp = self.cx.span(t.source_info.span);
        let mut o: Vec<(&'static str, J)> = Vec::new();
        match &t.kind {
            TerminatorKind::Goto { target } => {
                o.push(("k", s("goto")));
                o.push(("target", J::I(target.as_usize() as i128)));
            }
            TerminatorKind::SwitchInt { discr, targets } => {
                o.push(("k", s("switch")));
                let d = self.operand(discr);
                o.push(("discr", d));
                let mut ts = Vec::new();
                for (v, bb) in targets.iter() {
                    ts.push(J::A(vec![J::I(v as i128), J::I(bb.as_usize() as i128)]));
                }
                o.push(("targets", J::A(ts)));
                o.push(("otherwise", J::I(targets.otherwise().as_usize() as i128)));
            }
            TerminatorKind::UnwindResume => o.push(("k", s("resume"))),
            TerminatorKind::UnwindTerminate(_) => o.push(("k", s("terminate"))),
            TerminatorKind::Return => o.push(("k", s("return"))),
            TerminatorKind::Unreachable => o.push(("k", s("unreachable"))),
            TerminatorKind::Drop { place, target, unwind, .. } => {
                o.push(("k", s("drop")));
                let pj = self.place(place);
                o.push(("place", pj));
                o.push(("target", J::I(target.as_usize() as i128)));
                o.push(("unwind", self.unwind(unwind)));
            }
            TerminatorKind::Call { func, args, .. }
            | TerminatorKind::TailCall { func, args, .. } => {
                let (destination, target, unwind) = match &t.kind {
                    TerminatorKind::Call { destination, target, unwind, .. } => (Some(destination), *target, Some(unwind)),
                    _ => (None, None, None),
                };
                o.push(("k", s("call")));
                let fj = self.operand(func);
                o.push(("func", fj));
                let fty = func.ty(self.body, tcx);
                if let ty::FnDef(did, gargs) = *fty.kind() {
                    o.push(("callee", s(self.cx.path(did))));
                    o.push(("callee_args", s(self.cx.path_with_args(did, gargs))));
                    o.push(("callee_dpath", s(self.cx.dpath(did))));
                    let targs: Vec<J> = gargs
                        .iter()
                        .filter_map(|g| match g.kind() {
                            GenericArgKind::Type(t) => Some(t),
                            _ => None,
                        })
                        .map(|x| self.cx.ty(x))
                        .collect();
                    o.push(("targs", J::A(targs)));
                    let dk = tcx.def_kind(did);
                    if matches!(dk, DefKind::Fn | DefKind::AssocFn) {
                        let sig = tcx.fn_sig(did).skip_binder();
                        o.push(("unsafe", J::B(sig.safety().is_unsafe())));
                    }
                    if let Some(tr) = tcx.trait_of_assoc(did) {
                        o.push(("trait", s(self.cx.path(tr))));
                    }
                    o.push(("local", J::B(did.is_local())));
                    o.push(("intrinsic", J::B(tcx.intrinsic(did).is_some())));
                    let env = TypingEnv::post_analysis(tcx, self.def_id);
                    match Instance::try_resolve(tcx, env, did, gargs) {
                        Ok(Some(inst)) => {
                            let rd = inst.def_id();
                            let kind = format!("{:?}", inst.def);
                            let kind = kind.split('(').next().unwrap_or("").to_string();
                            o.push((
                                "resolved",
                                J::O(vec![
                                    ("path", s(self.cx.path(rd))),
                                    ("dpath", s(self.cx.dpath(rd))),
                                    ("kind", s(kind)),
                                    ("local", J::B(rd.is_local())),
                                ]),
                            ));
                        }
                        _ => o.push(("resolved", J::Null)),
                    }
                } else {
                    o.push(("callee", J::Null));
                    o.push(("resolved", J::Null));
                    let fj = self.cx.ty(fty);
                    o.push(("func_ty", fj));
                }
                let aj: Vec<J> = args.iter().map(|a| self.operand(&a.node)).collect();
                o.push(("args", J::A(aj)));
                if let Some(d) = destination {
                    let dj = self.place(d);
                    o.push(("dest", dj));
                }
                o.push(("target", target.map(|b| J::I(b.as_usize() as i128)).unwrap_or(J::Null)));
                if let Some(u) = unwind {
                    o.push(("unwind", self.unwind(u)));
                }
            }
            TerminatorKind::Assert { cond, expected, msg, target, unwind } => {
                o.push(("k", s("assert")));
                let c = self.operand(cond);
                o.push(("cond", c));
                o.push(("expected", J::B(*expected)));
                let (kind, extra): (&str, Vec<J>) = match &**msg {
                    AssertKind::Overflow(op, a, b) => {
                        let aj = self.operand(a);
                        let bj = self.operand(b);
                        ("overflow", vec![s(format!("{:?}", op)), aj, bj])
                    }
                    AssertKind::OverflowNeg(_) => ("overflow_neg", vec![]),
                    AssertKind::DivisionByZero(_) => ("div_zero", vec![]),
                    AssertKind::RemainderByZero(_) => ("rem_zero", vec![]),
                    AssertKind::BoundsCheck { .. } => ("bounds", vec![]),
                    AssertKind::MisalignedPointerDereference { .. } => ("misaligned", vec![]),
                    AssertKind::NullPointerDereference => ("nullptr", vec![]),
                    _ => ("other", vec![]),
                };
                o.push(("msg", s(kind)));
                o.push(("msg_ops", J::A(extra)));
                o.push(("target", J::I(target.as_usize() as i128)));
                o.push(("unwind", self.unwind(unwind)));
            }
            TerminatorKind::FalseEdge { real_target, .. } => {
                o.push(("k", s("goto")));
                o.push(("target", J::I(real_target.as_usize() as i128)));
            }
            TerminatorKind::FalseUnwind { real_target, .. } => {
                o.push(("k", s("goto")));
                o.push(("target", J::I(real_target.as_usize() as i128)));
            }
            TerminatorKind::Yield { .. } => o.push(("k", s("yield"))),
            TerminatorKind::CoroutineDrop => o.push(("k", s("coroutine_drop"))),
            TerminatorKind::InlineAsm { .. } => o.push(("k", s("asm"))),
        }
        o.push(("span", sp));
        J::O(o)
    }
}

fn dump_body<'tcx>(cx: &mut Cx<'tcx>, ldid: LocalDefId) -> J {
    let tcx = cx.tcx;
    let did = ldid.to_def_id();
    let body: &Body<'tcx> = tcx.optimized_mir(did);
    let kind = tcx.def_kind(did);
    let mut o: Vec<(&'static str, J)> = Vec::new();
    o.push(("path", s(cx.path(did))));
    o.push(("dpath", s(cx.dpath(did))));
    o.push(("kind", s(format!("{:?}", kind))));
    o.push(("name", s(tcx.opt_item_name(did).map(|n| n.to_string()).unwrap_or_default())));
    o.push(("span", cx.span(tcx.def_span(did))));
    let parent = tcx.parent(did);
    o.push(("parent", s(cx.dpath(parent))));
    o.push(("parent_kind", s(format!("{:?}", tcx.def_kind(parent)))));
    if matches!(kind, DefKind::Fn | DefKind::AssocFn) {
        let sig = tcx.fn_sig(did).skip_binder();
        o.push(("unsafe", J::B(sig.safety().is_unsafe())));
        let vis = tcx.visibility(did);
        o.push(("vis", s(if vis.is_public() { "pub".to_string() } else { format!("{:?}", vis) })));
        let ev = tcx.effective_visibilities(());
        o.push(("exported", J::B(ev.is_exported(ldid))));
        o.push(("reachable", J::B(ev.is_reachable(ldid))));
        let sigs = with_no_trimmed_paths!(format!("{}", sig));
        o.push(("sig", s(sigs)));
    }
    if let DefKind::AssocFn = kind {
        if let Some(impl_did) = tcx.impl_of_assoc(did) {
            o.push(("impl", s(cx.dpath(impl_did))));
            let self_ty = tcx.type_of(impl_did).instantiate_identity().skip_norm_wip();
            let tj = cx.ty(self_ty);
            o.push(("self_ty", tj));
            if let Some(tr) = tcx.impl_opt_trait_ref(impl_did) {
                let tr = tr.instantiate_identity().skip_norm_wip();
                o.push(("trait", s(cx.path(tr.def_id))));
                let trs = with_no_trimmed_paths!(format!("{}", tr));
                o.push(("trait_ref", s(trs)));
            }
        }
        if let Some(tr) = tcx.trait_of_assoc(did) {
            o.push(("in_trait", s(cx.path(tr))));
        }
    }
    // generics
    let generics = tcx.generics_of(did);
    let mut gs = Vec::new();
    let mut g = Some(generics);
    while let Some(gg) = g {
        for p in &gg.own_params {
            gs.push(s(p.name.as_str()));
        }
        g = gg.parent.map(|p| tcx.generics_of(p));
    }
    o.push(("generics", J::A(gs)));

    o.push(("arg_count", J::I(body.arg_count as i128)));
    let mut locals = Vec::new();
    for (_l, decl) in body.local_decls.iter_enumerated() {
        let tj = cx.ty(decl.ty);
        locals.push(J::O(vec![("ty", tj), ("mut", J::B(decl.mutability.is_mut()))]));
    }
    o.push(("locals", J::A(locals)));
    // user variable names
    let mut names = Vec::new();
    {
        let mut bcx = BodyCx { cx, body, def_id: did };
        for vdi in &body.var_debug_info {
            if let VarDebugInfoContents::Place(p) = &vdi.value {
                let pj = bcx.place(p);
                names.push(J::O(vec![("name", s(vdi.name.as_str())), ("place", pj)]));
            }
        }
    }
    o.push(("vars", J::A(names)));
    let mut blocks = Vec::new();
    {
        let mut bcx = BodyCx { cx, body, def_id: did };
        for (_bb, data) in body.basic_blocks.iter_enumerated() {
            let mut stmts = Vec::new();
            for st in &data.statements {
                if let Some(j) = bcx.statement(st) {
                    stmts.push(j);
                }
            }
            let term = bcx.terminator(data.terminator());
            blocks.push(J::O(vec![("cleanup", J::B(data.is_cleanup)), ("stmts", J::A(stmts)), ("term", term)]));
        }
    }
    o.push(("blocks", J::A(blocks)));
    J::O(o)
}

fn dump_adts<'tcx>(cx: &mut Cx<'tcx>) -> J {
    let tcx = cx.tcx;
    let mut out = Vec::new();
    for ldid in tcx.hir_crate_items(()).definitions() {
        let did = ldid.to_def_id();
        let kind = tcx.def_kind(did);
        if !matches!(kind, DefKind::Struct | DefKind::Enum | DefKind::Union) {
            continue;
        }
        let def = tcx.adt_def(did);
        let mut variants = Vec::new();
        for v in def.variants() {
            let mut fields = Vec::new();
            for f in &v.fields {
                let fty = tcx.type_of(f.did).instantiate_identity().skip_norm_wip();
                let tj = cx.ty(fty);
                let vis = f.vis;
                fields.push(J::O(vec![
                    ("name", s(f.name.as_str())),
                    ("ty", tj),
                    ("pub", J::B(vis.is_public())),
                ]));
            }
            variants.push(J::O(vec![("name", s(v.name.as_str())), ("fields", J::A(fields))]));
        }
        let ev = tcx.effective_visibilities(());
        let generics: Vec<J> = tcx.generics_of(did).own_params.iter().map(|p| s(p.name.as_str())).collect();
        out.push(J::O(vec![
            ("path", s(cx.path(did))),
            ("dpath", s(cx.dpath(did))),
            ("kind", s(format!("{:?}", kind))),
            ("exported", J::B(ev.is_exported(ldid))),
            ("vis_pub", J::B(tcx.visibility(did).is_public())),
            ("generics", J::A(generics)),
            ("variants", J::A(variants)),
            ("span", cx.span(tcx.def_span(did))),
        ]));
    }
    J::A(out)
}

fn dump_impls<'tcx>(cx: &mut Cx<'tcx>) -> J {
    let tcx = cx.tcx;
    let mut out = Vec::new();
    for ldid in tcx.hir_crate_items(()).definitions() {
        let did = ldid.to_def_id();
        if !matches!(tcx.def_kind(did), DefKind::Impl { .. }) {
            continue;
        }
        let self_ty = tcx.type_of(did).instantiate_identity().skip_norm_wip();
        let tj = cx.ty(self_ty);
        let mut o: Vec<(&'static str, J)> = vec![("dpath", s(cx.dpath(did))), ("self_ty", tj)];
        if let Some(tr) = tcx.impl_opt_trait_ref(did) {
            let tr = tr.instantiate_identity().skip_norm_wip();
            o.push(("trait", s(cx.path(tr.def_id))));
            let trs = with_no_trimmed_paths!(format!("{}", tr));
            o.push(("trait_ref", s(trs)));
            let header = tcx.impl_trait_header(did);
            o.push(("unsafe", J::B(header.safety.is_unsafe())));
            o.push(("polarity", s(format!("{:?}", header.polarity))));
        }
        let preds = tcx.predicates_of(did);
        let mut ps = Vec::new();
        for (p, _) in preds.predicates {
            let t = with_no_trimmed_paths!(format!("{}", p));
            ps.push(s(t));
        }
        o.push(("predicates", J::A(ps)));
        let items: Vec<J> = tcx
            .associated_items(did)
            .in_definition_order()
            .map(|it| s(cx.dpath(it.def_id)))
            .collect();
        o.push(("items", J::A(items)));
        o.push(("span", cx.span(tcx.def_span(did))));
        out.push(J::O(o));
    }
    J::A(out)
}

fn dump_consts<'tcx>(cx: &mut Cx<'tcx>) -> J {
    let tcx = cx.tcx;
    let mut out = Vec::new();
    for ldid in tcx.hir_crate_items(()).definitions() {
        let did = ldid.to_def_id();
        let kind = tcx.def_kind(did);
        if !matches!(kind, DefKind::Const { .. } | DefKind::Static { .. }) {
            continue;
        }
        let t = tcx.type_of(did).instantiate_identity().skip_norm_wip();
        let mut o: Vec<(&'static str, J)> = vec![
            ("path", s(cx.path(did))),
            ("kind", s(format!("{:?}", kind))),
            ("ty", s(with_no_trimmed_paths!(format!("{}", t)))),
            ("span", cx.span(tcx.def_span(did))),
        ];
        if let DefKind::Static { mutability, .. } = kind {
            o.push(("static_mut", J::B(mutability.is_mut())));
        }
        if matches!(kind, DefKind::Const { .. }) && t.is_integral() && tcx.generics_of(did).is_empty() {
            if let Ok(v) = tcx.const_eval_poly(did) {
                if let Some(si) = v.try_to_scalar_int() {
                    let size = si.size();
                    let val: i128 = if t.is_signed() { si.to_int(size) } else { si.to_uint(size) as i128 };
                    o.push(("val", J::I(val)));
                }
            }
        }
        out.push(J::O(o));
    }
    J::A(out)
}

// ---------------------------------------------------------------------------
// driver glue
// ---------------------------------------------------------------------------
struct Cb {
    out: String,
}

impl rustc_driver::Callbacks for Cb {
    fn config(&mut self, _config: &mut interface::Config) {}

    fn after_analysis<'tcx>(&mut self, _compiler: &interface::Compiler, tcx: TyCtxt<'tcx>) -> Compilation {
        let krate = tcx.crate_name(rustc_hir::def_id::LOCAL_CRATE).to_string();
        let mut cx = Cx { tcx, krate: krate.clone(), tys: FxHashMap::default(), ty_table: Vec::new() };
        let adts = dump_adts(&mut cx);
        let impls = dump_impls(&mut cx);
        let consts = dump_consts(&mut cx);
        let mut bodies = Vec::new();
        let mut keys: Vec<LocalDefId> = tcx.mir_keys(()).iter().copied().collect();
        keys.sort_by_key(|k| tcx.def_path(k.to_def_id()).to_string_no_crate_verbose());
        for ldid in keys {
            let kind = tcx.def_kind(ldid.to_def_id());
            if !matches!(kind, DefKind::Fn | DefKind::AssocFn | DefKind::Closure) {
                continue;
            }
            bodies.push(dump_body(&mut cx, ldid));
        }
        let sess = tcx.sess;
        let cfgs: Vec<J> = {
            let mut v: Vec<String> = sess
                .config
                .iter()
                .map(|(k, val)| match val {
                    Some(val) => format!("{}={}", k, val),
                    None => k.to_string(),
                })
                .filter(|c| c.starts_with("feature") || c == "debug_assertions" || c == "overflow_checks" || c == "test")
                .collect();
            v.sort();
            v.into_iter().map(s).collect()
        };
        let doc = J::O(vec![
            ("crate", s(krate)),
            ("cfg", J::A(cfgs)),
            ("debug_assertions", J::B(sess.opts.debug_assertions)),
            ("overflow_checks", J::B(sess.overflow_checks())),
            ("types", J::A(std::mem::take(&mut cx.ty_table))),
            ("adts", adts),
            ("impls", impls),
            ("consts", consts),
            ("bodies", J::A(bodies)),
        ]);
        let mut out = String::with_capacity(1 << 24);
        doc.write(&mut out);
        std::fs::write(&self.out, out).expect("write fact file");
        Compilation::Continue
    }
}

struct Passthrough;
impl rustc_driver::Callbacks for Passthrough {}

fn main() {
    let mut args: Vec<String> = std::env::args().collect();
    // As RUSTC_WORKSPACE_WRAPPER: argv = [drv, /path/to/rustc, args…]
    if args.len() > 1 && (args[1].ends_with("rustc") || args[1].ends_with("rustc.exe")) {
        args.remove(1);
    }
    args[0] = "rustc".to_string();
    let want = std::env::var("VERIF_CRATE").unwrap_or_default();
    let out = std::env::var("VERIF_FACTS_OUT").unwrap_or_default();
    let mut crate_name = String::new();
    let mut is_lib = false;
    let mut i = 0;
    while i < args.len() {
        if args[i] == "--crate-name" && i + 1 < args.len() {
            crate_name = args[i + 1].clone();
        }
        if args[i] == "--crate-type" && i + 1 < args.len() && (args[i + 1].contains("lib")) {
            is_lib = true;
        }
        i += 1;
    }
    let is_test = args.iter().any(|a| a == "--test");
    let is_probe = args.iter().any(|a| a.starts_with("--print") || a == "-vV" || a == "-V" || a == "--version");
    if !want.is_empty() && !out.is_empty() && crate_name == want && is_lib && !is_test && !is_probe {
        let mut cb = Cb { out };
        rustc_driver::run_compiler(&args, &mut cb);
    } else {
        rustc_driver::run_compiler(&args, &mut Passthrough);
    }
}
