"""E12 — WITNESS: compile-fail witnesses with compiling twins, run against the repository under analysis."""
import os
import re
import shutil
import subprocess
import tempfile

from engine import RuleResult

WITNESS_PROPS = {
    "W1IterBorrowsMap": ["C05", "C08"], "W2IterMutExclusive": ["C05"], "W3DrainBorrowsMap": ["C05", "C08"], "W4EntryExclusive": ["C05", "C12"],
    "W4bRawEntryExclusive": ["C05", "C12"], "W5GetBorrowsMap": ["C05"], "W6OrInsertBorrowsMap": ["C05", "C12"], "W7DrainFilterBorrowsMap": ["C05", "C09"],
    "W8MutIteratorsNotClone": ["C05", "C08"], "W9SendBounds": ["C05", "C15"], "W9bRawOccupiedEntryHasherBound": ["C05", "C15"],
    "W10ParIterMutNeedsMut": ["C15"], "W11ParNeedsThreadSafeContents": ["C15"], "W12ParIterMutNotClone": ["C15"], "W13SetIterBorrowsSet": ["C08", "C13"],
}


def run_witnesses(ctx):
    def build():
        import extract
        verif = getattr(ctx, "verif", os.path.dirname(os.path.dirname(os.path.abspath(__file__))))
        src = os.path.join(verif, "witness")
        work = tempfile.mkdtemp(prefix="witness-", dir=extract.scratch_root())
        try:
            os.makedirs(os.path.join(work, "src"))
            with open(os.path.join(src, "Cargo.toml.in")) as f:
                toml = f.read().replace("@REPO@", os.path.abspath(ctx.repo))
            with open(os.path.join(work, "Cargo.toml"), "w") as f:
                f.write(toml)
            shutil.copy(os.path.join(src, "src", "lib.rs"), os.path.join(work, "src", "lib.rs"))
            lock = os.path.join(ctx.repo, "Cargo.lock")
            if os.path.exists(lock):
                shutil.copy(lock, os.path.join(work, "Cargo.lock"))
            env = extract.offline_env()
            env["CARGO_TARGET_DIR"] = os.path.join(work, "target")
            env.pop("RUSTFLAGS", None)
            p = subprocess.run(["cargo", "+nightly", "test", "--doc", "--offline"], cwd=work, capture_output=True, text=True, env=env)
            out = p.stdout + "\n" + p.stderr
            tests = {}
            for m in re.finditer(r"^test src/lib\.rs - (\w+) \(line (\d+)\) - (compile fail|compile) \.\.\. (ok|FAILED)", out, re.M):
                tests.setdefault(m.group(1), []).append((int(m.group(2)), m.group(3), m.group(4)))
            return tests, out, p.returncode
        finally:
            shutil.rmtree(work, ignore_errors=True)
    return ctx.memo("witness_run", build)


def rule_witness(ctx):
    R = RuleResult("W-witness", "type-level facts the properties rely on are enforced by the compiler: each violating program is rejected with the expected "
                   "error code (borrow conflicts E0499/E0502, missing Clone E0599, missing Send/Sync E0277, &mut needed E0596) and its twin, differing only in the "
                   "offending line, compiles")
    tests, out, rc = run_witnesses(ctx)
    if not tests:
        R.anchor("run", "the witness crate could not be built/run against %s: %s" % (ctx.repo, out[-1500:]))
        return R
    n = 0
    for w, props in sorted(WITNESS_PROPS.items()):
        ts = tests.get(w)
        if not ts:
            R.anchor("witness:%s" % w, "witness %s did not run" % w)
            continue
        fails = [t for t in ts if t[1] == "compile fail"]
        twins = [t for t in ts if t[1] == "compile"]
        if not fails or not twins:
            R.anchor("witness:%s" % w, "witness %s lacks a compile_fail block or a compiling twin" % w)
            continue
        for line, kind, res in ts:
            n += 1
            R.inst(witness=w, line=line, kind=kind, properties=props, verdict="ok" if res == "ok" else "VIOLATION")
            if res != "ok":
                if kind == "compile fail":
                    R.viol("%s:accepted" % w, "witness/src/lib.rs:%d" % line, "the violating program of witness %s now compiles (or fails with a different error): the type-level guarantee is gone. %s"
                           % (w, _excerpt(out, w, line)))
                else:
                    R.viol("%s:twin" % w, "witness/src/lib.rs:%d" % line, "the compiling twin of witness %s no longer compiles: %s" % (w, _excerpt(out, w, line)))
    R.floor(30, "witness programs")
    return R


def _excerpt(out, w, line):
    m = re.search(r"---- src/lib\.rs - %s \(line %d\) stdout ----\n(.*?)(?=\n---- |\nfailures:|\Z)" % (w, line), out, re.S)
    return (m.group(1).strip()[:400] if m else "")
