"""Which rules serve which property (DESIGN §6).  Rule functions are referred to as 'module.function'."""

# rule id -> module.function
RULES = {
    "P-rem": "rules_protocol.rule_p_rem",
    "P-fill": "rules_protocol.rule_p_fill",
    "P-only": "rules_protocol.rule_p_only",
    "P-new": "rules_protocol.rule_p_new",
    "P-zst": "rules_protocol.rule_p_zst",
    "T-grow": "rules_typestate.rule_t_grow",
    "T-assume": "rules_typestate.rule_t_assume",
    "T-mover": "rules_typestate.rule_t_mover",
    "T-free": "rules_typestate.rule_t_free",
    "M-carry": "rules_typestate.rule_m_carry",
    "K-new": "rules_colour.rule_k_new",
    "K-use": "rules_colour.rule_k_use",
    "K-field": "rules_colour.rule_k_field",
    "O-wrap": "rules_taint.rule_o_wrap",
    "W-bound": "rules_cost.rule_w_bound",
    "W-reentry": "rules_cost.rule_w_reentry",
    "W-read": "rules_cost.rule_w_read",
    "B-any": "rules_both.rule_b_any",
    "B-find": "rules_both.rule_b_find",
    "B-len": "rules_both.rule_b_len",
    "B-clear": "rules_both.rule_b_clear",
    "B-drain": "rules_both.rule_b_drain",
    "B-into": "rules_both.rule_b_into",
    "B-comp": "rules_both.rule_b_comp",
    "V-own": "rules_vocab.rule_v_own",
    "V-unsafe": "rules_vocab.rule_v_unsafe",
    "V-impl": "rules_vocab.rule_v_impl",
    "V-unreach": "rules_vocab.rule_v_unreach",
    "E9-set": "rules_shape.rule_e9_setexpr",
    "E9-bool": "rules_shape.rule_e9_bool",
    "D-set": "rules_set.rule_d_set",
    "Z-ser": "rules_serde.rule_z_ser",
    "Z-de": "rules_serde.rule_z_de",
    "H-agree": "rules_hasher.rule_h_agree",
    "E9-pol": "rules_pred.rule_e9_polarity",
    "R-lazy": "rules_pred.rule_r_lazy_drop",
    "L-handle": "rules_handle.rule_l_handle",
    "L-use": "rules_handle.rule_l_use",
    "N-occ": "rules_handle.rule_n_occ",
    "N-ins": "rules_handle.rule_n_ins",
    "N-repl": "rules_handle.rule_n_repl",
    "I-wrap": "rules_iter.rule_i_wrap",
    "I-order": "rules_iter.rule_i_order",
    "CLEAN": "rules_misc.rule_clean",
    "M-pair": "rules_misc.rule_m_pair",
    "CL-all": "rules_misc.rule_cl_all",
    "E-prop": "rules_misc.rule_e_prop",
    "RO-layout": "rules_misc.rule_ro_layout",
    "G-pure": "rules_misc.rule_g_pure",
    "T-dbg": "rules_misc.rule_t_dbg",
    "F-diff": "rules_misc.rule_f_diff",
    "B-par": "rules_par.rule_b_par",
    "P-wrap": "rules_par.rule_p_wrap",
    "E9-par": "rules_par.rule_e9_par",
    "Y-state": "rules_par.rule_y_state",
    "W-witness": "rules_witness.rule_witness",
    "X-contract": "rules_contract.rule_x_contract",
    "S-grow": "rules_size.rule_s_grow",
    "S-shrink": "rules_size.rule_s_shrink",
    "S-reserve": "rules_size.rule_s_reserve",
    "S-ctor": "rules_size.rule_s_ctor",
}

# property -> rule ids (quick tier).  Extended as engines land.
PROPERTY_RULES = {
    "C01": ["B-any", "B-find", "B-len", "B-clear", "K-new", "K-use", "K-field", "T-grow", "T-assume", "S-shrink", "H-agree", "P-zst"],
    "C02": ["W-bound", "W-reentry", "W-read"],
    "C03": ["M-carry", "T-mover", "T-free", "P-only", "T-grow", "M-pair"],
    "C04": ["S-grow", "S-shrink", "S-reserve", "T-grow", "M-carry", "T-mover", "P-only", "L-use"],
    "C05": ["P-rem", "P-fill", "P-only", "P-new", "K-new", "K-use", "K-field", "L-use", "L-handle", "T-grow", "V-unsafe", "V-unreach", "V-impl", "W-witness"],
    "C06": ["V-own", "M-pair", "B-clear", "B-drain", "B-into", "P-rem", "P-fill"],
    "C07": ["CLEAN", "P-rem", "P-fill", "E9-pol", "V-own", "H-agree"],
    "C08": ["B-comp", "B-drain", "B-into", "K-field", "I-wrap", "I-order"],
    "C09": ["E9-pol", "R-lazy", "P-rem", "K-use", "B-comp"],
    "C10": ["O-wrap", "S-reserve", "S-grow", "S-ctor", "S-shrink", "E-prop"],
    "C11": ["CL-all", "B-clear", "B-any", "H-agree"],
    "C12": ["N-occ", "N-ins", "N-repl", "L-use", "L-handle", "K-new", "K-use", "P-rem", "P-fill", "H-agree"],
    "C13": ["D-set", "E9-set", "E9-bool"],
    "C14": ["E9-bool", "RO-layout", "H-agree"],
    "C15": ["B-par", "P-wrap", "E9-par", "Y-state", "K-new", "K-field", "B-comp", "V-impl", "W-witness"],
    "C16": ["Z-ser", "Z-de"],
    "C17": ["O-wrap", "G-pure", "T-dbg", "P-rem", "P-fill", "V-unreach"],
}

# extra rules that only run in the thorough tier
THOROUGH_RULES = {"C17": ["F-diff", "X-contract"], "C08": ["W-witness"], "C09": ["W-witness"], "C12": ["W-witness"], "C13": ["W-witness"],
                  "C01": ["X-contract"], "C05": ["X-contract"], "C06": ["X-contract"], "C07": ["X-contract"], "C04": ["X-contract"], "C10": ["X-contract"]}

# thorough tier: every rule is re-run on the other build configurations (F2 release profile, F3 default features, F4 no default features);
# rules that need constructs absent from a configuration are skipped there
_FEATURE_RULES = {"B-par", "P-wrap", "E9-par", "Y-state", "Z-ser", "Z-de"}
_ONCE_RULES = {"W-witness", "X-contract", "F-diff", "V-own", "V-unsafe", "V-impl"}
CONFIG_SKIP = {
    "F2": {"O-wrap", "G-pure", "T-dbg"} | _ONCE_RULES,
    "F3": _FEATURE_RULES | _ONCE_RULES,
    "F4": _FEATURE_RULES | _ONCE_RULES,
}

ASSUMPTIONS = {
    "*": ["hashbrown 0.14.5 behaves as in DESIGN §4 (contract table); rustc nightly MIR of the crate is faithful to the source",
          "structural necessary conditions are decided, not the behavioural statement itself"],
}
