"""Which rules serve which property (DESIGN §6).  Rule functions are referred to as 'module.function'."""

# rule id -> module.function
RULES = {
    "P-rem": "rules_protocol.rule_p_rem",
    "P-fill": "rules_protocol.rule_p_fill",
    "P-only": "rules_protocol.rule_p_only",
    "P-new": "rules_protocol.rule_p_new",
    "P-zst": "rules_protocol.rule_p_zst",
    "T-grow": "rules_typestate.rule_t_grow",
    "T-assume": "rules_typestate.rule_t_assume",
    "T-mover": "rules_typestate.rule_t_mover",
    "T-free": "rules_typestate.rule_t_free",
    "M-carry": "rules_typestate.rule_m_carry",
}

# property -> rule ids (quick tier).  Extended as engines land.
PROPERTY_RULES = {
    "C01": ["T-grow", "P-zst"],
    "C02": [],
    "C03": ["M-carry", "T-mover", "T-free", "P-only", "T-grow"],
    "C04": ["T-grow"],
    "C05": ["P-rem", "P-fill", "P-only", "P-new", "T-grow"],
    "C06": ["P-rem", "P-fill"],
    "C07": ["P-rem", "P-fill"],
    "C08": [],
    "C09": ["P-rem"],
    "C10": [],
    "C11": [],
    "C12": ["P-rem"],
    "C13": [],
    "C14": [],
    "C15": [],
    "C16": [],
    "C17": ["P-rem", "P-fill"],
}

# extra rules that only run in the thorough tier
THOROUGH_RULES = {}

ASSUMPTIONS = {
    "*": ["hashbrown 0.14.5 behaves as in DESIGN §4 (contract table); rustc nightly MIR of the crate is faithful to the source",
          "structural necessary conditions are decided, not the behavioural statement itself"],
}
