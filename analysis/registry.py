"""Which rules serve which property (DESIGN §6).  Rule functions are referred to as 'module.function'."""

# rule id -> module.function
RULES = {
    "P-rem": "rules_protocol.rule_p_rem",
    "P-fill": "rules_protocol.rule_p_fill",
    "P-only": "rules_protocol.rule_p_only",
    "P-new": "rules_protocol.rule_p_new",
    "P-zst": "rules_protocol.rule_p_zst",
    "T-grow": "rules_typestate.rule_t_grow",
    "T-assume": "rules_typestate.rule_t_assume",
    "T-mover": "rules_typestate.rule_t_mover",
    "T-free": "rules_typestate.rule_t_free",
    "M-carry": "rules_typestate.rule_m_carry",
    "K-new": "rules_colour.rule_k_new",
    "K-use": "rules_colour.rule_k_use",
    "K-field": "rules_colour.rule_k_field",
    "O-wrap": "rules_taint.rule_o_wrap",
    "W-bound": "rules_cost.rule_w_bound",
    "W-reentry": "rules_cost.rule_w_reentry",
    "W-read": "rules_cost.rule_w_read",
    "B-any": "rules_both.rule_b_any",
    "B-find": "rules_both.rule_b_find",
    "B-len": "rules_both.rule_b_len",
    "B-clear": "rules_both.rule_b_clear",
    "B-drain": "rules_both.rule_b_drain",
    "B-into": "rules_both.rule_b_into",
    "B-comp": "rules_both.rule_b_comp",
}

# property -> rule ids (quick tier).  Extended as engines land.
PROPERTY_RULES = {
    "C01": ["B-any", "B-find", "B-len", "B-clear", "K-new", "K-use", "K-field", "T-grow", "P-zst"],
    "C02": ["W-bound", "W-reentry", "W-read"],
    "C03": ["M-carry", "T-mover", "T-free", "P-only", "T-grow"],
    "C04": ["T-grow"],
    "C05": ["P-rem", "P-fill", "P-only", "P-new", "K-new", "K-use", "K-field", "T-grow"],
    "C06": ["B-clear", "B-drain", "B-into", "P-rem", "P-fill"],
    "C07": ["P-rem", "P-fill"],
    "C08": ["B-comp", "B-drain", "B-into", "K-field"],
    "C09": ["P-rem", "K-use"],
    "C10": ["O-wrap"],
    "C11": ["B-clear"],
    "C12": ["K-new", "K-use", "P-rem"],
    "C13": [],
    "C14": [],
    "C15": ["K-new", "K-field", "B-comp"],
    "C16": [],
    "C17": ["O-wrap", "P-rem", "P-fill"],
}

# extra rules that only run in the thorough tier
THOROUGH_RULES = {}

ASSUMPTIONS = {
    "*": ["hashbrown 0.14.5 behaves as in DESIGN §4 (contract table); rustc nightly MIR of the crate is faithful to the source",
          "structural necessary conditions are decided, not the behavioural statement itself"],
}
