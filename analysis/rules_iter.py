"""C08 — public iterator wrappers: I-wrap (pure delegation with a projection), I-order (keys/values project the same iteration)."""
from core import Loc
from engine import RuleResult
from symexec import api_of

ALLOWED_IN_WRAPPER = ("core::ops::Deref::deref", "hashbrown::raw::Bucket::as_ref", "hashbrown::raw::Bucket::as_mut", "core::option::Option::map",
                      "core::iter::Iterator::size_hint", "core::iter::ExactSizeIterator::len", "core::iter::Iterator::next", "core::iter::Iterator::map",
                      "core::clone::Clone::clone")


def public_iterator_impls(ctx):
    """{adt: {method: body}} for exported ADTs of map/set with an Iterator impl, excluding set-algebra (lazy filter) types"""
    T = ctx.facts.types
    out = {}
    for b in ctx.facts.bodies.values():
        if b.kind == "Closure" or "self_ty" not in b.raw:
            continue
        tr = b.raw.get("trait")
        if tr not in ("core::iter::Iterator", "core::iter::ExactSizeIterator"):
            continue
        st = T[b.raw["self_ty"]]
        adt = st.get("adt", "")
        if not adt.startswith(("griddle::map::", "griddle::set::")):
            continue
        a = ctx.facts.adts.get(adt)
        if a is None or not a["exported"]:
            continue
        out.setdefault(adt, {})[b.name] = b
    return out


def rule_i_wrap(ctx):
    R = RuleResult("I-wrap", "every public iterator's next / size_hint / len is a pure delegation to the iterator it wraps (one inner call on a field of self, "
                   "a field projection of what it yields, nothing else): exactness, fusedness and exactly-once reduce to the raw composite iterators")
    from rules_shape import stream_semantics
    sem, _ = stream_semantics(ctx)
    impls = public_iterator_impls(ctx)
    n = 0
    for adt, ms in sorted(impls.items()):
        a_ = ctx.facts.adts.get(adt)
        filtering = (adt in sem and sem[adt][0] == "filter") or \
            (a_ is not None and any(ctx.facts.types[f["ty"]].get("k") == "param" for v in a_["variants"] for f in v["fields"]))
        if filtering:
            # lazy set algebra (E9-set) and predicate-driven iterators (`f: F`, E9-pol): elements may be filtered out, so the hint is
            # (0, what the underlying iterator promises at most) — never an upper bound made up on the spot
            b = ms.get("size_hint")
            if b is not None:
                n += 1
                why = []
                inner_sh = [c for bd in [b] + ctx.facts.closures_of(b) for c in ctx.calls(bd) if c.method == "size_hint" and not bd.is_cleanup(c.loc.bb)]
                for rb in b.return_blocks():
                    for d in b.defs_reaching(Loc(rb, len(b.stmts(rb))), 0):
                        if d[3] != "assign" or d[4]["rv"]["k"] != "aggregate" or d[4]["rv"].get("agg") != "tuple" or len(d[4]["rv"]["ops"]) != 2:
                            continue
                        up = d[4]["rv"]["ops"][1]
                        s_, _ = b.slice_back(d[0], [up])
                        from_inner = any(c.loc in s_ for c in inner_sh if c.body is b) or (inner_sh and not all(c.body is b for c in inner_sh))
                        for l in s_:
                            if l.i == len(b.stmts(l.bb)) and b.term(l.bb)["k"] == "call":
                                lc = ctx.call_at(b, l.bb).local_callee()
                                if lc is not None and lc.kind != "Closure" and any(c.method == "size_hint" for c in ctx.calls(lc) if not lc.is_cleanup(c.loc.bb)):
                                    from_inner = True        # an accessor of the wrapped iterator that reads its hint (`inner.upper_bound()`)
                        none_lit = any(l.i < len(b.stmts(l.bb)) and b.stmts(l.bb)[l.i]["rv"].get("k") == "aggregate" and b.stmts(l.bb)[l.i]["rv"].get("variant") == "None" for l in s_)
                        if not from_inner and not none_lit:
                            why.append("the upper bound of the hint does not come from the iterator underneath (nor is it None)")
                        lo_ = d[4]["rv"]["ops"][0]
                        if b.op_const(lo_) != 0:
                            why.append("the lower bound of the hint is not the constant 0 (every remaining element may be filtered out)")
                R.inst(adt=adt, method="size_hint", fn=b.path, kind="filtering", verdict="ok" if not why else "VIOLATION")
                if why:
                    R.viol("%s:size_hint:upper" % adt, b.where(Loc(0, 0)), "%s::size_hint: %s" % (adt, "; ".join(sorted(set(why)))))
            continue
        for name, b in sorted(ms.items()):
            if name not in ("next", "size_hint", "len"):
                continue
            n += 1
            key = "%s:%s" % (adt, name)
            calls = [c for c in ctx.calls(b) if not b.is_cleanup(c.loc.bb)]
            inner = [c for c in calls if c.method == name and c.arg_path(0) is not None and c.arg_path(0).root == 1 and len(c.arg_path(0).fields()) >= 1]
            if name == "len" and not inner:
                inner = [c for c in calls if c.method in ("len", "size_hint") and c.arg_path(0) is not None and c.arg_path(0).root == 1]
            why = []
            if len(inner) != 1:
                why.append("%d inner %s() calls on a field of self (expected 1)" % (len(inner), name))
            if b.loops():
                why.append("contains a loop")
            for c in calls:
                if c in inner:
                    continue
                if c.unresolved:
                    why.append("calls user code %s" % c.tname)
                elif c.name not in ALLOWED_IN_WRAPPER and not (c.name or "").endswith("Try::branch") and not (c.name or "").endswith("from_residual") \
                        and not (c.local_callee() is not None and c.local_callee().kind == "Closure"):
                    lc = c.local_callee()
                    if lc is not None and lc.name in ("deref", "iter"):
                        continue
                    why.append("calls %s" % c.tname)
            if inner and not why:
                I = inner[0]
                ok = False
                for rb in b.return_blocks():
                    ret_op = {"k": "copy", "place": {"local": 0, "proj": [], "ty": b.locals[0]["ty"]}}
                    s, _ = b.slice_back(Loc(rb, len(b.stmts(rb))), [ret_op])
                    if I.loc in s:
                        ok = True
                if not ok:
                    why.append("the result does not derive from the inner call")
                if name in ("size_hint", "len") and not (I.dest["local"] == 0 and not I.dest["proj"]):
                    if name == "size_hint":
                        why.append("the inner size_hint is not returned unchanged")
                if name == "next":
                    # None must be returned when the inner returns None: every `_0 = None` block is on the non-Some edge, every Some on the Some edge
                    dest = I.dest["local"]
                    for bb in b.reachable():
                        t = b.term(bb)
                        if t["k"] != "switch":
                            continue
                        d = b.source_def(t["discr"])
                        if d is None or d[1] != "assign" or d[2]["rv"]["k"] != "discr":
                            continue
                        p = b.expand(d[2]["rv"]["place"])
                        if p.root != dest:
                            continue
                        some_t = [tb for v, tb in t["targets"] if v == 1]
                        for loc, st in b.all_assigns():
                            if bb not in b.dom().get(loc.bb, set()):
                                continue    # a later re-inspection of the same value (drop elaboration) decides nothing about this assignment
                            if st["place"]["local"] == 0 and st["rv"]["k"] == "aggregate" and st["rv"].get("adt") == "core::option::Option":
                                on_some = any(x == loc.bb or x in b.dom().get(loc.bb, set()) for x in some_t)
                                if st["rv"]["variant"] == "Some" and not on_some:
                                    why.append("yields Some where the wrapped iterator did not")
                                if st["rv"]["variant"] == "None" and on_some:
                                    why.append("yields None although the wrapped iterator yielded an element (element dropped)")
            R.inst(adt=adt, method=name, fn=b.path, verdict="ok" if not why else "VIOLATION")
            if why:
                R.viol(key, b.where(Loc(0, 0)), "%s::%s is not a pure delegation: %s" % (adt, name, "; ".join(sorted(set(why)))))
    R.floor(24, "public iterator methods")
    return R


def rule_i_order(ctx):
    R = RuleResult("I-order", "keys() and values() (and values_mut(), set iter()) are built over the map's own iter()/iter_mut(), and their next() project "
                   "field 0 / field 1 of the same yielded pair: they enumerate in the same order")
    T = ctx.facts.types
    want = {"HashMap::keys": ("HashMap::iter", 0), "HashMap::values": ("HashMap::iter", 1), "HashMap::values_mut": ("HashMap::iter_mut", 1)}
    ctor_adt = {}
    for b in ctx.facts.bodies.values():
        api = api_of(b.path)
        if api not in want:
            continue
        src, proj = want[api]
        calls = [c for c in ctx.calls(b) if not b.is_cleanup(c.loc.bb)]
        ok = len(calls) == 1 and calls[0].local_callee() is not None and api_of(calls[0].local_callee().path) == src \
            and calls[0].arg_path(0) is not None and calls[0].arg_path(0).root == 1 and not calls[0].arg_path(0).fields()
        adt = T[b.locals[0]["ty"]].get("adt")
        ctor_adt[adt] = proj
        R.inst(fn=b.path, built_over=src, verdict="ok" if ok else "VIOLATION")
        if not ok:
            R.viol(api, b.where(Loc(0, 0)), "%s is not built over self.%s()" % (api, src.split("::")[1]))
    if len(ctor_adt) < 3:
        R.anchor("ctors", "keys/values/values_mut constructors not all found")
    # projections in next()
    impls = {}
    for b in ctx.facts.bodies.values():
        if b.kind != "Closure" and b.name == "next" and b.raw.get("trait") == "core::iter::Iterator" and "self_ty" in b.raw:
            impls[T[b.raw["self_ty"]].get("adt")] = b
    for adt, proj in ctor_adt.items():
        b = impls.get(adt)
        if b is None:
            R.anchor("next:%s" % adt, "no next() for %s" % adt)
            continue
        inner = [c for c in ctx.calls(b) if c.method == "next" and not b.is_cleanup(c.loc.bb)]
        fields = set()
        # locals that hold the inner iterator's Option (directly, or as the ControlFlow produced by `?`)
        holds = set()
        if inner:
            holds.add(inner[0].dest["local"])
            for c in ctx.calls(b):
                if (c.name or "").endswith("Try::branch") and c.args and b.op_path(c.args[0]) is not None and b.op_path(c.args[0]).root in holds and c.dest:
                    holds.add(c.dest["local"])
        for loc, st in b.all_assigns():
            if st["place"]["local"] == 0 and st["rv"]["k"] == "aggregate" and st["rv"].get("variant") == "Some":
                q = b.op_path(st["rv"]["ops"][0])
                if q is not None and q.root in holds:
                    # payload .0 (Some / Continue) then tuple field
                    idxs = [e[2] for e in q.elems if e[0] == "field"]
                    fields.add(tuple(idxs))
                else:
                    fields.add(("?",))
        # inner.next().map(f): f projects its argument
        for c in ctx.calls(b):
            if c.name == "core::option::Option::map" and c.dest and c.dest["local"] == 0 and not c.dest["proj"] and not b.is_cleanup(c.loc.bb):
                src = b.op_path(c.args[0])
                fb, param = None, None
                cbs = c.closure_args()
                if cbs:
                    fb, param = cbs[0], 2
                elif len(c.args) > 1 and c.args[1]["k"] == "const" and c.args[1].get("fn"):
                    from engine import strip_generics
                    fb = next((x for x in ctx.facts.bodies.values() if strip_generics(x.path) == strip_generics(c.args[1]["fn"])), None)
                    param = 1
                if src is None or src.root not in holds or fb is None:
                    fields.add(("?",))
                    continue
                rets = set()
                for rb in fb.return_blocks():
                    for d in fb.defs_reaching(Loc(rb, len(fb.stmts(rb))), 0):
                        if d[3] == "assign" and d[4]["rv"]["k"] == "use" and d[4]["rv"]["op"]["k"] in ("copy", "move"):
                            q = fb.op_path(d[4]["rv"]["op"])
                            if q is not None and q.root == param:
                                rets.add((0,) + tuple(e[2] for e in q.elems if e[0] == "field"))
                                continue
                        rets.add(("?",))
                fields |= rets or {("?",)}
        ok = fields == {(0, proj)}
        R.inst(adt=adt, projects=sorted(fields), expected=(0, proj), verdict="ok" if ok else "VIOLATION")
        if not ok:
            R.viol("%s:projection" % adt, b.where(Loc(0, 0)), "%s::next yields projection %s of the pair, expected field %d" % (adt, sorted(fields), proj))
    return R
