"""Exact evaluation of a size_hint body over a four-atom algebra.

A composite iterator's size_hint must return (main.0 + old.0, main.1 + old.1) while its old side is present and (main.0, main.1) when
it is absent.  The body is tiny and loop-free, so every path from the entry to the return is executed symbolically: the two
hints are tuples of atoms M0, M1 / O0, O1, `+` builds multisets of atoms, Option is transparent (Some(x) is x; hashbrown's hints are
always Some), references are places, closures handed to Option::map are executed with their captures.  Anything else is unknown
('?'), and an unknown in a returned component makes the evaluation inconclusive (the caller then falls back to its dependence
check) — it never produces a verdict."""
OPT = "core::option::Option::"
UNK = "?"
NONE = ("none",)


class Inconclusive(Exception):
    pass


class HintExec:
    def __init__(self, ctx, body, main_locs, old_locs, old_edges=None, max_paths=300, init_env=None, polled0=False, main_vals=None, old_vals=None):
        self.ctx, self.b = ctx, body
        hint_m = ("tuple", (("sum", ("M0",)), ("sum", ("M1",))))
        hint_o = ("tuple", (("sum", ("O0",)), ("sum", ("O1",))))
        # (body path, block of the call) -> value the call produces
        self.main_vals = dict(main_vals or {})
        self.old_vals = dict(old_vals or {})
        for l in main_locs:
            self.main_vals[(body.path, l.bb)] = hint_m
        for l in old_locs:
            self.old_vals[(body.path, l.bb)] = hint_o
        self.old_edges = old_edges or {}
        self.max_paths = max_paths
        self.results = []      # (ret value, polled_old, crossed {N,S}, path)
        self.depth = 0
        self.polled_in_closure = False
        self.init_env = dict(init_env or {})
        self.polled0 = polled0

    # -- memory ----------------------------------------------------------------
    def read(self, env, local, proj, depth=None):
        v = env.get((self.depth if depth is None else depth, local), UNK)
        return self._proj(env, v, list(proj))

    @staticmethod
    def norm(env, v):
        """an Option-valued atom under the assumption made about it on this path"""
        if isinstance(v, tuple) and v and v[0] == "opt":
            a = env.get(("A", v[1]))
            if a == "some":
                return ("val", v[1])
            if a == "none":
                return NONE
        return v

    def _proj(self, env, v, proj):
        for i, e in enumerate(proj):
            k = e["k"]
            v = self.norm(env, v)
            if isinstance(v, tuple) and v and v[0] == "opt" and k == "field" and (e.get("adt") == "core::option::Option" or (i > 0 and proj[i - 1]["k"] == "downcast")):
                v = ("val", v[1])          # the payload, on a path where the atom is Some
                continue
            if isinstance(v, tuple) and v and v[0] == "ref":
                if k == "deref":
                    v = self.read(env, v[2], v[3], v[1])
                    continue
                v = self.read(env, v[2], v[3], v[1])     # auto-deref for field access through a reference (Option<&T> made by as_ref)
            if k == "deref":
                continue
            if k == "downcast":
                continue
            if k == "field":
                if e.get("adt") == "core::option::Option" or (i > 0 and proj[i - 1]["k"] == "downcast"):
                    continue      # payload of a transparent Option (a tuple value here is the payload itself)
                if isinstance(v, tuple) and v and v[0] in ("tuple", "clo"):
                    items = v[1] if v[0] == "tuple" else v[2]
                    v = items[e["i"]] if e["i"] < len(items) else UNK
                elif e.get("adt") == "core::option::Option" or (i > 0 and proj[i - 1]["k"] == "downcast"):
                    pass          # payload of a transparent Option
                else:
                    v = UNK
                continue
            v = UNK
        return v

    def write(self, env, local, proj, val, depth=None):
        depth = self.depth if depth is None else depth
        if depth != self.depth:
            raise Inconclusive("a closure writes to its captures")
        proj = list(proj)
        if not proj:
            env[(depth, local)] = val
            return
        cur = env.get((depth, local), UNK)
        if proj[0]["k"] == "deref":
            if isinstance(cur, tuple) and cur and cur[0] == "ref":
                self.write(env, cur[2], list(cur[3]) + proj[1:], val, cur[1])
            else:
                raise Inconclusive("write through an unknown pointer")
            return
        if proj[0]["k"] == "downcast":
            self.write(env, local, proj[1:], val)
            return
        if proj[0]["k"] == "field":
            if isinstance(cur, tuple) and cur and cur[0] == "tuple":
                items = list(cur[1])
                if len(proj) == 1:
                    items[proj[0]["i"]] = val
                else:
                    items[proj[0]["i"]] = self._write_into(items[proj[0]["i"]], proj[1:], val, after_downcast=False)
                env[(depth, local)] = ("tuple", tuple(items))
                return
            if len(proj) == 1:
                env[(depth, local)] = val      # payload of a transparent Option
                return
        raise Inconclusive("unsupported write")

    def _write_into(self, v, proj, val, after_downcast):
        """the value v with `val` stored at the projection (fields of tuples / crate structs; an Option is transparent to its payload)"""
        if not proj:
            return val
        e = proj[0]
        if e["k"] == "downcast":
            return self._write_into(v, proj[1:], val, True)
        if e["k"] == "field":
            if e.get("adt") == "core::option::Option" or after_downcast:
                return self._write_into(v, proj[1:], val, False)
            if isinstance(v, tuple) and v and v[0] == "tuple" and e["i"] < len(v[1]):
                items = list(v[1])
                items[e["i"]] = self._write_into(items[e["i"]], proj[1:], val, False)
                return ("tuple", tuple(items))
        raise Inconclusive("unsupported nested write")

    # -- values ------------------------------------------------------------------
    def op(self, env, o):
        if o["k"] == "const":
            if o.get("fn"):
                return ("fn", o["fn"])
            return ("const", o.get("val"))
        pl = o["place"]
        return self.read(env, pl["local"], pl["proj"])

    @staticmethod
    def add(a, b):
        def atoms(x):
            if isinstance(x, tuple) and x and x[0] == "sum":
                return list(x[1])
            if isinstance(x, tuple) and x and x[0] == "const" and x[1] == 0:
                return []
            return None
        xa, xb = atoms(a), atoms(b)
        if xa is None or xb is None:
            return UNK
        return ("sum", tuple(sorted(xa + xb)))

    def rv(self, env, r):
        k = r["k"]
        if k == "use":
            return self.op(env, r["op"])
        if k in ("ref", "rawptr"):
            pl = r["place"]
            # re-borrow through a reference: the same target
            if pl["proj"] and pl["proj"][0]["k"] == "deref":
                base = env.get((self.depth, pl["local"]), UNK)
                if isinstance(base, tuple) and base and base[0] == "ref":
                    return ("ref", base[1], base[2], tuple(base[3]) + tuple(self._freeze(pl["proj"][1:])))
                return UNK
            return ("ref", self.depth, pl["local"], tuple(self._freeze(pl["proj"])))
        if k == "copy_for_deref":
            return self.read(env, r["place"]["local"], r["place"]["proj"])
        if k == "binop":
            if r["op"] in ("Add", "AddUnchecked"):
                return self.add(self.op(env, r["a"]), self.op(env, r["b"]))
            if r["op"] == "AddWithOverflow":
                return ("tuple", (self.add(self.op(env, r["a"]), self.op(env, r["b"])), UNK))
            return UNK
        if k == "aggregate":
            if r.get("agg") == "tuple":
                return ("tuple", tuple(self.op(env, o) for o in r["ops"]))
            if r.get("adt") == "core::option::Option":
                return NONE if r.get("variant") == "None" else self.op(env, r["ops"][0])
            if r.get("agg") == "closure":
                return ("clo", r["def"], tuple(self.op(env, o) for o in r["ops"]))
            if r.get("adt") == self.ctx.roles.B:
                return self.op(env, r["ops"][self.ctx.roles.B_bucket])     # a located bucket is its raw bucket (the label is K-new's business)
            if r.get("agg") == "adt" and self.ctx.facts.adts.get(r.get("adt"), {}).get("kind") == "Struct" \
                    and str(r.get("adt")).startswith(self.ctx.facts.crate + "::"):
                return ("tuple", tuple(self.op(env, o) for o in r["ops"]))     # a private struct of the crate is the tuple of its fields
            return UNK
        if k == "discr":
            return ("discr", self.norm(env, self.read(env, r["place"]["local"], r["place"]["proj"])))
        if k == "cast":
            return self.op(env, r["op"])
        return UNK

    @staticmethod
    def _freeze(proj):
        return [dict(e) for e in proj]

    # -- execution ---------------------------------------------------------------------
    def run(self):
        self._walk(self.b, 0, dict(self.init_env), self.polled0, frozenset(), [0], top=True)
        return self.results

    def _walk(self, b, bb, env, polled, crossed, path, top, out=None):
        if len(self.results) > self.max_paths or len(path) > 400:
            raise Inconclusive("too many paths")
        env = dict(env)
        for st in b.stmts(bb):
            if st["k"] == "assign":
                pl = st["place"]
                self.write(env, pl["local"], pl["proj"], self.rv(env, st["rv"]))
        self._term(b, bb, env, polled, crossed, path, top, out)

    def _fork(self, X, b, bb, env, polled, crossed, path, top, out):
        for a in ("some", "none"):
            e2 = dict(env)
            e2[("A", X)] = a
            self._term(b, bb, e2, polled, crossed, path, top, out)

    def _call_closure(self, f, params, env, polled, crossed):
        cb = self.ctx.facts.by_dpath.get(f[1])
        if cb is None:
            raise Inconclusive("closure body missing")
        outs = []
        env2 = dict(env)
        self.depth += 1
        env2[(self.depth, 1)] = f
        for i, x in enumerate(params):
            env2[(self.depth, 2 + i)] = x
        try:
            self._walk(cb, 0, env2, polled, crossed, [0], top=False, out=outs)
        finally:
            self.depth -= 1
        outs = [o for i, o in enumerate(outs) if o not in outs[:i]]
        if len(outs) != 1:
            raise Inconclusive("closure with several results")
        return outs[0]

    def _term(self, b, bb, env, polled, crossed, path, top, out):
        t = b.term(bb)
        k = t["k"]
        if k == "return":
            if top:
                self.results.append((self.norm(env, env.get((0, 0), UNK)), polled, crossed, path, {kk[1]: v for kk, v in env.items() if kk[0] == "A"}))
            else:
                out.append(self.norm(env, env.get((self.depth, 0), UNK)))
            return
        if k in ("goto", "assert", "drop"):
            nxt = [t["target"]]
        elif k == "call":
            c = self.ctx.call_at(b, bb)
            val = UNK
            site = (b.path, bb)
            if site in self.main_vals:
                val = self.main_vals[site]
            elif site in self.old_vals:
                val = self.old_vals[site]
                polled = True
                self.polled_in_closure = True
            elif c.name in (OPT + "as_ref", OPT + "as_mut", OPT + "as_deref") and c.args:
                val = self.op(env, c.args[0])
            elif c.name in (OPT + "map", OPT + "and_then", OPT + "or", OPT + "or_else") and len(c.args) == 2:
                x = self.norm(env, self.op(env, c.args[0]))
                if isinstance(x, tuple) and x and x[0] == "opt":
                    return self._fork(x[1], b, bb, env, polled, crossed, path, top, out)
                f = self.op(env, c.args[1])
                kind = c.name[len(OPT):]
                if kind in ("map", "and_then"):
                    if x == NONE:
                        val = NONE
                    elif x != UNK and isinstance(f, tuple) and f and f[0] == "clo":
                        val = self._call_closure(f, [x], env, polled, crossed)
                elif kind == "or":
                    val = self.norm(env, f) if x == NONE else x
                else:
                    if x == NONE:
                        if isinstance(f, tuple) and f and f[0] == "clo":
                            val = self._call_closure(f, [], env, polled, crossed)
                    else:
                        val = x
            elif c.name in (OPT + "map_or", OPT + "map_or_else") and len(c.args) == 3:
                x = self.norm(env, self.op(env, c.args[0]))
                if isinstance(x, tuple) and x and x[0] == "opt":
                    return self._fork(x[1], b, bb, env, polled, crossed, path, top, out)
                dflt, f = self.op(env, c.args[1]), self.op(env, c.args[2])
                if x == NONE:
                    if c.name == OPT + "map_or":
                        val = self.norm(env, dflt)
                    elif isinstance(dflt, tuple) and dflt and dflt[0] == "clo":
                        val = self._call_closure(dflt, [], env, polled, crossed)
                elif x != UNK and isinstance(f, tuple) and f and f[0] == "clo":
                    val = self._call_closure(f, [x], env, polled, crossed)
            elif c.name in (OPT + "unwrap_or", OPT + "unwrap_or_default") and c.args:
                x = self.norm(env, self.op(env, c.args[0]))
                if isinstance(x, tuple) and x and x[0] == "opt":
                    return self._fork(x[1], b, bb, env, polled, crossed, path, top, out)
                if x == NONE:
                    val = self.norm(env, self.op(env, c.args[1])) if len(c.args) == 2 else UNK
                else:
                    val = x
            if t.get("dest") is not None:
                self.write(env, t["dest"]["local"], t["dest"]["proj"], val)
            if t.get("target") is None:
                return
            nxt = [t["target"]]
        elif k == "switch":
            d = self.op(env, t["discr"]) if t["discr"]["k"] != "const" else UNK
            nxt = [tb for _, tb in t["targets"]] + [t["otherwise"]]
            if isinstance(d, tuple) and d and d[0] == "discr":
                v = self.norm(env, d[1])
                if isinstance(v, tuple) and v and v[0] == "opt":
                    return self._fork(v[1], b, bb, env, polled, crossed, path, top, out)
                if isinstance(v, tuple) and v and v[0] == "sum" and len(v[1]) == 1 and v[1][0] in ("M1", "O1") and ("A", v[1][0]) not in env:
                    # an upper bound (an Option<usize>) is tested: follow both arms, remembering on each what was learnt about it
                    for a_ in ("some", "none"):
                        e2 = dict(env)
                        e2[("A", v[1][0])] = a_
                        self._term(b, bb, e2, polled, crossed, path, top, out)
                    return
                if isinstance(v, tuple) and v and v[0] == "sum" and len(v[1]) == 1 and v[1][0] in ("M1", "O1"):
                    a_ = env.get(("A", v[1][0]))
                    tg = [tb for val, tb in t["targets"] if val == (1 if a_ == "some" else 0)]
                    nxt = tg or [t["otherwise"]]
                elif v == NONE:
                    tg = [tb for val, tb in t["targets"] if val == 0]
                    nxt = tg or [t["otherwise"]]
                elif isinstance(v, tuple) and v and v[0] == "val":
                    tg = [tb for val, tb in t["targets"] if val == 1]
                    nxt = tg or [t["otherwise"]]
            nxt = [x for x in dict.fromkeys(nxt) if b.term(x)["k"] != "unreachable"]
        elif k == "unreachable":
            return
        else:
            raise Inconclusive("terminator %s" % k)
        for s_ in nxt:
            if s_ in path and b is self.b and top:
                raise Inconclusive("loop")
            cr = crossed
            if top and (bb, s_) in self.old_edges:
                cr = crossed | {self.old_edges[(bb, s_)]}
            self._walk(b, s_, env, polled, cr, path + [s_], top, out)
