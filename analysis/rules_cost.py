"""E8 — COST: reachability, constant loop bounds and event counting for per-call resize work (C02)."""
import re
from core import Loc
from engine import RuleResult, MAIN, LEFT, OLD, CURSOR
from rules_protocol import hb_calls, HBT, HBI
from rules_typestate import movers, _range_trip, replacer_sites, reentry_guard, full_test_switches

INF = float("inf")

LINEAR = {HBT + x for x in ("insert", "reserve", "try_reserve", "shrink_to", "clone", "clone_from", "clone_from_with_hasher", "clear",
                            "clear_no_drop", "drain", "rehash_in_place", "resize", "insert_entry", "get_or_insert_with", "find_or_find_insert_slot",
                            "reserve_rehash", "drain_iter_from", "into_iter", "into_iter_from", "clone_from_spec")}
ALLOC = {HBT + "with_capacity", HBT + "try_with_capacity", HBT + "with_capacity_in", HBT + "try_with_capacity_in",
         HBT + "new_uninitialized", HBT + "fallible_with_capacity"}

KEY_ADDING = [
    "HashMap::insert",
    "Entry::insert", "Entry::or_insert", "Entry::or_insert_with", "Entry::or_insert_with_key", "Entry::or_default",
    "VacantEntry::insert",
    "RawEntryMut::insert", "RawEntryMut::or_insert", "RawEntryMut::or_insert_with",
    "RawVacantEntryMut::insert", "RawVacantEntryMut::insert_hashed_nocheck", "RawVacantEntryMut::insert_with_hasher",
    "HashSet::insert", "HashSet::replace", "HashSet::get_or_insert", "HashSet::get_or_insert_owned", "HashSet::get_or_insert_with",
]
LOOKUP = [
    "HashMap::get", "HashMap::get_key_value", "HashMap::get_key_value_mut", "HashMap::get_mut", "HashMap::contains_key",
    "HashMap::Index::index", "HashMap::remove", "HashMap::remove_entry", "HashMap::entry",
    "RawEntryBuilder::from_key", "RawEntryBuilder::from_hash", "RawEntryBuilder::from_key_hashed_nocheck",
    "RawEntryBuilderMut::from_key", "RawEntryBuilderMut::from_hash", "RawEntryBuilderMut::from_key_hashed_nocheck",
    "OccupiedEntry::get", "OccupiedEntry::get_mut", "OccupiedEntry::insert", "OccupiedEntry::into_mut", "OccupiedEntry::key",
    "OccupiedEntry::remove", "OccupiedEntry::remove_entry", "OccupiedEntry::replace_entry", "OccupiedEntry::replace_entry_with",
    "OccupiedEntry::replace_key",
    "RawOccupiedEntryMut::get", "RawOccupiedEntryMut::get_key_value", "RawOccupiedEntryMut::get_key_value_mut", "RawOccupiedEntryMut::get_mut",
    "RawOccupiedEntryMut::insert", "RawOccupiedEntryMut::insert_key", "RawOccupiedEntryMut::into_key", "RawOccupiedEntryMut::into_key_value",
    "RawOccupiedEntryMut::into_mut", "RawOccupiedEntryMut::key", "RawOccupiedEntryMut::key_mut", "RawOccupiedEntryMut::remove",
    "RawOccupiedEntryMut::remove_entry", "RawOccupiedEntryMut::replace_entry_with",
    "Entry::and_modify", "Entry::key", "RawEntryMut::and_modify", "VacantEntry::key", "VacantEntry::into_key",
    "HashSet::contains", "HashSet::get", "HashSet::remove", "HashSet::take",
    "HashMap::len", "HashMap::is_empty", "HashMap::capacity", "HashSet::len", "HashSet::is_empty", "HashSet::capacity",
]


def api_name(path):
    """griddle::map::HashMap::<K, V, S>::insert -> HashMap::insert ; <map::HashMap<..> as core::ops::Index<&Q>>::index -> HashMap::Index::index"""
    # (the defining module is not part of an API name: `griddle::map::entry::Entry::<..>::insert` is still Entry::insert)
    m = re.match(r"^griddle::(?:\w+::)*?(\w+)::<(?!impl ).*>::(\w+)$", path)
    if m and not path.startswith("griddle::external_trait_impls::"):
        return "%s::%s" % (m.group(1), m.group(2))
    m = re.match(r"^griddle::<(?:&'?\w* ?(?:mut )?)?(?:\w+::)*(\w+)<.*> as ([\w:]+?)(?:<.*>)?>::(\w+)$", path)
    if m:
        return "%s::%s::%s" % (m.group(1), m.group(2).split("::")[-1], m.group(3))
    # impl blocks placed in another module than the type they are for
    if not path.startswith("griddle::external_trait_impls::"):
        m = re.match(r"^griddle::(?:\w+::)*<impl ([\w:]+?)(?:<.*>)? for (?:&'?\w* ?(?:mut )?)?(?:\w+::)*(\w+)<.*>>::(\w+)$", path)
        if m:
            return "%s::%s::%s" % (m.group(2), m.group(1).split("::")[-1], m.group(3))
        m = re.match(r"^griddle::(?:\w+::)*<impl (?:\w+::)*(\w+)<.*>>::(\w+)$", path)
        if m and " for " not in path:
            return "%s::%s" % (m.group(1), m.group(2))
    return None


def entry_points(ctx):
    out = {}
    for b in ctx.facts.bodies.values():
        if b.kind == "Closure" or not b.raw.get("exported"):
            continue
        n = api_name(b.path)
        if n:
            out[n] = b
    return out


class Cost:
    """worst-case event counts per body: dict(H, M, A, L) with INF"""
    ZERO = {"H": 0, "M": 0, "A": 0, "L": 0}

    def __init__(self, ctx):
        self.ctx = ctx
        self.memo = {}
        self.stack = []
        self.recursion_sites = []   # (body, Call)
        self.linear_sites = {}      # body path -> list of descriptions (first few)
        self.mv = movers(ctx)
        self.zst_exempt = {}
        self._skip = set()

    @staticmethod
    def add(a, b):
        return {k: a[k] + b[k] for k in a}

    @staticmethod
    def mul(a, n):
        return {k: (0 if a[k] == 0 else a[k] * n) for k in a}

    @staticmethod
    def mx(a, b):
        return {k: max(a[k], b[k]) for k in a}

    def closure_cost(self, cb):
        return self.body_cost(cb)

    def call_cost(self, body, c):
        ctx = self.ctx
        z = dict(self.ZERO)
        why = None
        lc = c.local_callee()
        if lc is not None:
            if lc.path in self.stack:
                self.recursion_sites.append((body, c))
                return dict(self.ZERO), None
            return self.body_cost(lc), None
        name = c.tname or ""
        if c.unresolved:
            dty = ctx.facts.types[c.dest["ty"]]["s"] if c.dest else ""
            if c.name == "core::hash::Hash::hash":
                z["H"] = 1
            elif c.name in ("core::ops::Fn::call", "core::ops::FnMut::call_mut", "core::ops::FnOnce::call_once") and dty == "u64":
                z["H"] = 1
            return z, None
        if name in ALLOC:
            z["A"] = 1
        if name in LINEAR:
            z["L"] = 1
            self.linear_sites.setdefault(body.path, []).append("%s @ %s" % (name, c.where()))
        if body.path in self.mv and self.mv[body.path]["rem"].loc == c.loc:
            z["M"] = 1
        # closures handed to foreign code
        for cb in c.closure_args():
            cc = self.body_cost(cb)
            if all(v == 0 for v in cc.values()):
                continue
            if name.startswith("core::option::Option::") or name.startswith("core::result::Result::"):
                z = self.add(z, cc)
            else:
                z = self.add(z, self.mul(cc, INF))
                self.linear_sites.setdefault(body.path, []).append("closure %s with events passed to %s @ %s (unbounded invocations)" % (cb.path, name, c.where()))
        return z, why

    def body_cost(self, body):
        if body.path in self.memo:
            return self.memo[body.path]
        self.stack.append(body.path)
        ctx = self.ctx
        # block weights
        w = {}
        for bb in body.reachable():
            if body.is_cleanup(bb):
                continue
            t = body.term(bb)
            cost = dict(self.ZERO)
            if t["k"] == "call":
                c = ctx.call_at(body, bb)
                cost, _ = self.call_cost(body, c)
            w[bb] = cost
        # loop multipliers
        mult = {bb: 1 for bb in w}
        from rules_typestate import loop_bound
        for head, blocks in body.loops():
            lb = loop_bound(ctx, body, head, blocks)
            trip = lb["trip"] if lb is not None and lb["trip"] is not None else INF
            for x in blocks:
                if x in mult:
                    mult[x] = mult[x] * trip
        for bb in w:
            if mult[bb] != 1:
                w[bb] = self.mul(w[bb], mult[bb])
        # Paths taken only when size_of::<T>() == 0 are analysed under a separate argument: a zero-sized type has a single value, so
        # (with a reflexive Eq) a table of zero-sized elements holds at most one element and "all leftovers" is at most one move.
        from rules_protocol import _sizeof_guard_edges
        self._skip = {e for e, k in _sizeof_guard_edges(ctx, body).items() if k == "zero"}
        if self._skip:
            self.zst_exempt.setdefault(body.path, sorted("bb%d->bb%d" % e for e in self._skip))
        res = self._longest(body, w, set())
        # direct recursion: the re-entered call is charged the cost of the paths that do not re-enter (accepted shape: W-reentry)
        rec_bbs = {c.loc.bb for b2, c in self.recursion_sites if b2.path == body.path and c.local_callee() is not None and c.local_callee().path == body.path}
        if rec_bbs:
            # the re-entered call does not take the branch that re-enters (W-reentry: that branch is guarded by "main table full" and the
            # re-entry is dominated by the installation of a bigger main table): its cost is that of the paths outside the guarded branch
            excl = set(rec_bbs)
            for r in rec_bbs:
                tb = reentry_guard(ctx, body, r)
                if tb is not None:
                    excl |= {x for x in body.reachable() if x == tb or tb in body.dom().get(x, set())}
            nonrec = self._longest(body, w, excl)
            w2 = dict(w)
            for x in rec_bbs:
                w2[x] = self.add(w[x], self.mul(nonrec, mult.get(x, 1)))
            res = self._longest(body, w2, set())
        self.stack.pop()
        self.memo[body.path] = res
        return res

    def _longest(self, body, w, exclude):
        """componentwise longest path from the entry over normal edges, back edges removed, avoiding `exclude` blocks"""
        back = set(body.back_edges())
        order = []
        seen = set()
        stack = [(0, iter(body.succs(0)))]
        seen.add(0)
        while stack:
            x, it = stack[-1]
            adv = False
            for s_ in it:
                if (x, s_) in back or s_ not in w or s_ in exclude or s_ in seen or (x, s_) in self._skip:
                    continue
                seen.add(s_)
                stack.append((s_, iter(body.succs(s_))))
                adv = True
                break
            if not adv:
                order.append(x)
                stack.pop()
        best = {}
        for x in order:
            b = None
            succs = [s_ for s_ in body.succs(x) if (x, s_) not in back and s_ in w and (x, s_) not in self._skip]
            if not succs:
                b = dict(self.ZERO)      # return / diverging end / loop tail
            for s_ in succs:
                if best.get(s_) is None:
                    continue             # successor excluded or only leads to excluded blocks
                b = best[s_] if b is None else self.mx(b, best[s_])
            best[x] = None if b is None else self.add(w.get(x, self.ZERO), b)
        return best.get(0) or dict(self.ZERO)


def cost_engine(ctx):
    return ctx.memo("cost", lambda: Cost(ctx))


def _recost_with_recursion(ctx, ce, body):
    """cost of body where its recursive self-calls contribute the non-recursive cost once"""
    base = ce.body_cost(body)
    rec = [(b, c) for b, c in ce.recursion_sites if c.local_callee() is not None and c.local_callee().path == body.path]
    return base, rec


def rule_w_bound(ctx):
    R = RuleResult("W-bound", "from every key-adding entry point the worst path moves at most R = 8 elements, computes at most R + 2 = 10 hashes, "
                   "allocates at most one table and reaches no all-at-once (linear) table operation, no unbounded mover and no unbounded loop with such events")
    ce = cost_engine(ctx)
    eps = entry_points(ctx)
    Rc = ctx.batch_const()
    if Rc != 8:
        R.viol("R", "src/raw/mod.rs", "the production batch size R is %s, the property states R = 8" % Rc)
    for name in KEY_ADDING:
        b = eps.get(name)
        if b is None:
            R.anchor("entry:%s" % name, "key-adding entry point %s named by the property no longer exists" % name)
            continue
        c = ce.body_cost(b)
        reach = ctx.reachable_bodies(b.path)
        tot = c
        ok = tot["M"] <= 8 and tot["H"] <= 10 and tot["A"] <= 1 and tot["L"] == 0
        R.inst(entry=name, moves=_fmt(tot["M"]), hashes=_fmt(tot["H"]), allocs=_fmt(tot["A"]), linear=_fmt(tot["L"]), verdict="ok" if ok else "VIOLATION")
        if not ok:
            culprit = []
            for p in sorted(reach):
                if p in ce.linear_sites:
                    culprit.extend(ce.linear_sites[p][:2])
            for p in sorted(reach):
                if p in ce.mv and ce.mv[p]["bounded"] is None:
                    culprit.append("unbounded mover %s reachable" % p)
            R.viol("%s" % name, b.where(Loc(0, 0)),
                   "worst path from %s: moves=%s (bound 8) hashes=%s (bound 10) allocations=%s (bound 1) linear-operations=%s (bound 0). %s"
                   % (name, _fmt(tot["M"]), _fmt(tot["H"]), _fmt(tot["A"]), _fmt(tot["L"]), "; ".join(culprit[:6])))
    for p, e in ce.zst_exempt.items():
        R.notes.append("paths taken only for zero-sized element types are not counted in %s (%s): a zero-sized type has one value, so a table of such "
                       "elements holds at most one element under a reflexive Eq and moving 'all' leftovers is at most one move" % (p, ", ".join(e)))
    return R


def _fmt(x):
    return "inf" if x == INF else int(x)


def rule_w_reentry(ctx):
    R = RuleResult("W-reentry", "the only recursion on the insertion path is `main table full -> install new table -> tail-call self`: the re-entered call "
                   "is control-dependent on capacity()==len() of MAIN, dominated by a call that replaces MAIN, and its result is returned directly")
    ce = cost_engine(ctx)
    eps = entry_points(ctx)
    for name in KEY_ADDING:
        if name in eps:
            ce.body_cost(eps[name])
    seen = set()
    reps = {b.path for b, _, _ in replacer_sites(ctx)}
    for body, c in ce.recursion_sites:
        if (body.path, c.loc.bb) in seen:
            continue
        seen.add((body.path, c.loc.bb))
        key = "%s:recursion" % body.path
        # (1) tail call
        tail = c.dest is not None and c.dest["local"] == 0 and not c.dest["proj"]
        if tail:
            # no events after
            after = body.reach_from([c.target]) if c.target is not None else set()
            for x in after:
                t = body.term(x)
                if t["k"] == "call":
                    tail = False
        # (2) dominated by replacer call
        dom_rep = any(rb.path == body.path and body.dominates(rloc, c.loc) for rb, rloc, _ in replacer_sites(ctx))
        for c2 in ctx.calls(body):
            lc = c2.local_callee()
            if lc is not None and body.dominates(c2.loc, c.loc) and c2.loc != c.loc:
                if lc.path in reps or any(p in reps for p in ctx.reachable_bodies(lc.path)):
                    dom_rep = True
        # (3) guarded by capacity == len on MAIN
        guard = reentry_guard(ctx, body, c.loc.bb) is not None
        ok = tail and dom_rep and guard
        R.inst(fn=body.path, site=c.where(), tail_call=tail, after_replacer=dom_rep, guarded_by_full_test=guard, verdict="ok" if ok else "VIOLATION")
        if not ok:
            R.viol(key, c.where(), "recursive call in %s is not of the accepted shape (tail=%s, after-replacer=%s, guarded by MAIN.capacity()==MAIN.len()=%s): "
                   "the per-call work bound cannot be established" % (body.path, tail, dom_rep, guard))
    return R


def rule_w_read(ctx):
    R = RuleResult("W-read", "lookups, removals and in-place updates reach no mover, no table replacement, no allocation, no insertion into a table "
                   "and no all-at-once operation, and hash at most once; the bounded mover is called only after an insertion into the main table or "
                   "for an element still in the old table")
    ce = cost_engine(ctx)
    eps = entry_points(ctx)
    mv = movers(ctx)
    reps = {b.path for b, _, _ in replacer_sites(ctx)}
    for name in LOOKUP:
        b = eps.get(name)
        if b is None:
            R.anchor("entry:%s" % name, "lookup/removal entry point %s named by the property no longer exists" % name)
            continue
        c = ce.body_cost(b)
        reach = ctx.reachable_bodies(b.path)
        bad = []
        for p in sorted(reach):
            if p in mv:
                bad.append("mover %s" % p)
            if p in reps:
                bad.append("table replacement in %s" % p)
            pb = ctx.facts.bodies[p]
            for cc in ctx.calls(pb):
                if cc.tname in (HBT + "insert", HBT + "insert_no_grow", HBT + "insert_entry") :
                    bad.append("%s @ %s" % (cc.tname, cc.where()))
        ok = c["M"] == 0 and c["A"] == 0 and c["L"] == 0 and c["H"] <= 1 and not bad
        R.inst(entry=name, hashes=_fmt(c["H"]), moves=_fmt(c["M"]), allocs=_fmt(c["A"]), linear=_fmt(c["L"]), verdict="ok" if ok else "VIOLATION")
        if not ok:
            lin = []
            for p in sorted(reach):
                lin.extend(ce.linear_sites.get(p, [])[:2])
            R.viol(name, b.where(Loc(0, 0)), "%s: hashes=%s (bound 1) moves=%s allocations=%s linear-operations=%s; reaches: %s %s"
                   % (name, _fmt(c["H"]), _fmt(c["M"]), _fmt(c["A"]), _fmt(c["L"]), "; ".join(bad[:5]), "; ".join(lin[:4])))
    # an in-place update moves nothing: the bounded mover is called only (a) where a caller's element has just been put into the main table,
    # or (b) for an element that is still in the old table — on the old-table edge of a located bucket's flag (`if item.will_move() { carry }`).
    # A helper without a located bucket in scope (`fn nudge_resize(&mut self)`) hands the obligation to its call sites.
    from rules_typestate import bounded_movers
    from rules_colour import flag_edges, edge_dominates
    T = ctx.facts.types
    Bty = ctx.roles.B
    bm = set(bounded_movers(ctx))
    work = []
    for b in ctx.facts.bodies.values():
        for c in ctx.calls(b):
            lc = c.local_callee()
            if lc is not None and lc.path in bm and not b.is_cleanup(c.loc.bb) and b.path not in bm:
                work.append((b, c, 0))
    seen = set()
    sites = 0
    while work:
        b, c, depth = work.pop()
        if (b.path, c.loc.bb) in seen:
            continue
        seen.add((b.path, c.loc.bb))
        sites += 1
        ins = [x for x in ctx.calls(b) if x.tname in (HBT + "insert_no_grow", HBT + "insert", HBT + "insert_entry") and ctx.role(b, x.arg_path(0)) == MAIN
               and not b.is_cleanup(x.loc.bb) and b.dominates(x.loc, c.loc)]
        if ins:
            R.inst(fn=b.path, site=c.where(), carry="after an insertion into the main table", verdict="ok")
            continue
        if any(side == OLD and edge_dominates(b, e, c.loc.bb) for e, (bk, side) in flag_edges(ctx, b).items()):
            R.inst(fn=b.path, site=c.where(), carry="for an element still in the old table (old-table edge of the bucket's flag)", verdict="ok")
            continue
        has_bucket = any(_contains_adt(T, l["ty"], Bty) for l in b.locals[1:])
        own = ctx.facts.closure_parent(b)
        if not has_bucket and not own.raw.get("exported") and depth < 3 and b.kind != "Closure":
            callers = 0
            for b2 in ctx.facts.bodies.values():
                for c2 in ctx.calls(b2):
                    lc2 = c2.local_callee()
                    if lc2 is not None and lc2.path == b.path and not b2.is_cleanup(c2.loc.bb):
                        callers += 1
                        work.append((b2, c2, depth + 1))
            R.inst(fn=b.path, site=c.where(), carry="obligation passed to the %d call site(s) of this helper" % callers, verdict="ok" if callers else "VIOLATION")
            if callers:
                continue
        R.inst(fn=b.path, site=c.where(), verdict="VIOLATION")
        R.viol("%s:carry-without-cause" % b.path, c.where(), "%s runs the bounded mover where no element was just inserted and none is known to be in the old table: "
               "an in-place update (an insert that overwrites a key already in the main table) would move up to R elements" % b.path)
    if sites < 2:
        R.anchor("carry-sites", "expected the two call sites of the bounded mover (after an insertion; for an overwritten old-table element), found %d" % sites)
    return R


def _contains_adt(T, tid, adt, depth=0):
    t = T[tid]
    if t.get("adt") == adt:
        return True
    if depth > 4:
        return False
    if t.get("k") in ("ref", "ptr"):
        return _contains_adt(T, t["inner"], adt, depth + 1)
    return any(_contains_adt(T, a, adt, depth + 1) for a in t.get("args", []) if isinstance(a, int))
