"""CLEAN (C07), M-pair (C06), CL-all/CL-ro (C11), E-prop (C10), RO-layout (C14), G-pure / T-dbg / F-diff (C17)."""
from core import Loc, Path
from engine import RuleResult, MAIN, LEFT, OLD, CURSOR, in_macro
from rules_protocol import hb_calls, HBT, HBI, between_blocks, is_user_drop
from rules_typestate import (movers, replacer_sites, installs_left, typestate, self_s_prefix, is_self_left, is_self_s, left_test_edges,
                             N, S, TOP, BOT, OPT, ret_is_some_fns, old_empty_edges)
from symexec import api_of


# ---------------------------------------------------------------------------
def rule_clean(ctx):
    R = RuleResult("CLEAN", "user code (hasher, closures, Drop of elements) only ever runs while the two tables and the cursor are mutually consistent: "
                   "an element in flight between the tables sees only the hasher parameter; nothing user-supplied runs between installing a new main "
                   "table and registering the old one; unwinding paths call no table method (reflect-before-remove is P-rem); the iterators whose Drop "
                   "calls a user closure again are only built and handed out, never driven or dropped by the crate itself")
    mv = movers(ctx)
    T = ctx.facts.types
    n = 0
    # (b) element in flight
    for path, info in mv.items():
        b = info["body"]
        rem, ins = info["rem"], info["ins"]
        blocks = between_blocks(b, rem.loc.bb, ins.loc.bb)
        for x in sorted(blocks):
            t = b.term(x)
            n += 1
            if t["k"] == "call":
                c = ctx.call_at(b, x)
                if c.unresolved:
                    p = c.arg_path(0)
                    is_param = p is not None and 1 <= p.root <= b.arg_count
                    u64 = c.dest is not None and T[c.dest["ty"]]["s"] == "u64"
                    R.inst(fn=b.path, site=c.where(), window="element in flight (removed from old, not yet in main)", callee=c.tname,
                           verdict="ok: the hasher parameter (documented: a panicking Hash may drop the element being relocated)" if (is_param and u64) else "VIOLATION")
                    if not (is_param and u64):
                        R.viol("%s:in-flight:%s" % (b.path, c.tname), c.where(), "user code %s runs while an element has been removed from the old table and not yet inserted into the main table" % c.tname)
                elif c.local_callee() is not None:
                    R.viol("%s:in-flight:%s" % (b.path, c.tname), c.where(), "griddle function %s is called while an element is in flight between the tables" % c.tname)
            elif t["k"] == "drop" and is_user_drop(ctx, b, t):
                R.viol("%s:in-flight:drop" % b.path, b.where(Loc(x, len(b.stmts(x)))), "a value with user Drop is dropped while an element is in flight between the tables")
    # (c) replacer window
    for b, loc, c in replacer_sites(ctx):
        ins = [l for bb, l in installs_left(ctx) if bb.path == b.path]
        for il in ins:
            blocks = between_blocks(b, loc.bb, il.bb) | ({il.bb} if il.bb != loc.bb else set())
            for x in sorted(blocks):
                t = b.term(x)
                n += 1
                if x == il.bb:
                    continue
                if t["k"] == "call":
                    cc = ctx.call_at(b, x)
                    if cc.unresolved or cc.local_callee() is not None:
                        R.viol("%s:replacer-window:%s" % (b.path, cc.tname), cc.where(), "%s runs after the new main table was installed and before the old one is registered as leftovers: a panic there loses every element" % cc.tname)
                    else:
                        R.inst(fn=b.path, site=cc.where(), window="between MAIN := new and LEFT := Some(old)", callee=cc.tname, verdict="ok: dependency call, no user code")
                elif t["k"] == "drop" and is_user_drop(ctx, b, t):
                    ty = T[t["place"]["ty"]]
                    if ty.get("adt") == "core::option::Option" and ctx.roles.is_left_place(b.expand(t["place"])):
                        R.inst(fn=b.path, site=b.where(Loc(x, 0)), window="drop of the previous LEFT value", verdict="ok: known None (T-grow)")
                        continue
                    R.viol("%s:replacer-window:drop" % b.path, b.where(Loc(x, len(b.stmts(x)))), "a value with user Drop is dropped between installing the new table and registering the old one")
    # (d) cleanup paths call no table method
    for b in ctx.facts.bodies.values():
        own = ctx.facts.closure_parent(b)
        if self_s_prefix(ctx, own) is None:
            continue
        for cc in ctx.calls(b):
            if b.is_cleanup(cc.loc.bb):
                n += 1
                if cc.local_callee() is not None or (cc.tname or "").startswith("hashbrown::") or cc.unresolved:
                    R.viol("%s:cleanup:%s" % (b.path, cc.tname), cc.where(), "an unwinding path of %s calls %s" % (b.path, cc.tname))
    # (e) types whose Drop calls a user closure again (the lazily draining iterators) are only ever built and handed to the caller: the crate never
    #     drives or drops one itself, or a panic of the closure would re-enter it from the destructor during unwinding
    reent = {}
    for b in ctx.facts.bodies.values():
        if b.name == "drop" and b.raw.get("trait") == "core::ops::Drop" and "self_ty" in b.raw:
            adt = T[b.raw["self_ty"]].get("adt")
            if adt is None or not adt.startswith(ctx.facts.crate + "::"):
                continue
            # what the destructor can reach: its own callees, and — when it polls itself through a generic helper (`drop_remaining(self)` with
            # `fn drop_remaining<I: Iterator>(it: &mut I)`) — the type's own Iterator::next
            starts = [b.path] + [b3.path for b3 in ctx.facts.bodies.values() if b3.name == "next" and b3.raw.get("trait") == "core::iter::Iterator"
                                 and "self_ty" in b3.raw and T[b3.raw["self_ty"]].get("adt") == adt]
            for p2 in {q for s0 in starts for q in ctx.reachable_bodies(s0)}:
                b2 = ctx.facts.bodies.get(p2)
                if b2 is not None and any(c.unresolved and c.name in ("core::ops::FnMut::call_mut", "core::ops::Fn::call", "core::ops::FnOnce::call_once")
                                          for c in ctx.calls(b2)):
                    reent[adt] = b.path
                    break
    if len(reent) < 2:
        R.anchor("re-entrant droppers", "expected the two lazily draining iterators whose Drop calls the user predicate, found %s" % sorted(reent))

    def strip(ti):
        t_ = T[ti]
        while t_["k"] == "ref" or t_["k"] == "ptr":
            t_ = T[t_["inner"]]
        return t_
    for b in ctx.facts.bodies.values():
        own = ctx.facts.closure_parent(b)
        if "self_ty" in own.raw and strip(own.raw["self_ty"]).get("adt") in reent:
            continue
        if own.name == "drop" and own.raw.get("trait") == "core::ops::Drop":
            continue
        seen_here = False
        for x in sorted(b.reachable()):
            t = b.term(x)
            if t["k"] == "drop" and T[t["place"]["ty"]].get("adt") in reent:
                seen_here = True
                R.viol("%s:drops-reentrant-iterator" % b.path, b.where(Loc(x, len(b.stmts(x)))),
                       "%s drops a %s it built itself: a panic of the user closure would call the closure again from the destructor while unwinding" % (b.path, T[t["place"]["ty"]]["s"]))
            elif t["k"] == "call":
                cc = ctx.call_at(b, x)
                for a in cc.args:
                    ti = a["place"]["ty"] if a.get("k") in ("move", "copy") else None
                    if ti is not None and strip(ti).get("adt") in reent:
                        seen_here = True
                        R.viol("%s:drives-reentrant-iterator" % b.path, cc.where(),
                               "%s hands a %s it built itself to %s: a panic of the user closure would call the closure again from the destructor while unwinding" % (b.path, strip(ti)["s"], cc.tname))
                        break
                if cc.dest is not None and T[cc.dest["ty"]].get("adt") in reent:
                    seen_here = True
        if not seen_here and b.local_ty(0).get("adt") in reent:
            seen_here = True
        if seen_here:
            n += 1
            R.inst(fn=b.path, window="builds a lazily draining iterator", verdict="handed to the caller")
    R.floor(2, "window sites")
    return R


def rule_m_pair(ctx):
    R = RuleResult("M-pair", "in every mover the element removed from the old table reaches an insertion into the main table on every non-unwinding path "
                   "(never silently dropped), and is inserted once")
    mv = movers(ctx)
    for path, info in mv.items():
        b = info["body"]
        rem, ins = info["rem"], info["ins"]
        # every normal path from the point where an element has been taken reaches ins before a return / the next removal
        starts = [rem.target]
        if rem.local_callee() is not None:
            # a taker helper returns None when the cursor is exhausted: only its Some edge holds an element
            for bb in b.reachable():
                tt = b.term(bb)
                if tt["k"] != "switch":
                    continue
                dd = b.source_def(tt["discr"])
                if dd is not None and dd[1] == "assign" and dd[2]["rv"]["k"] == "discr":
                    pp = b.expand(dd[2]["rv"]["place"])
                    if pp.root == rem.dest["local"] and not pp.fields():
                        starts = [tb for v, tb in tt["targets"] if v == 1]
        seen = set()
        st = [(x, [x]) for x in starts]
        w = None
        while st:
            x, p = st.pop()
            if x in seen or x == ins.loc.bb:
                continue
            seen.add(x)
            t = b.term(x)
            if t["k"] == "return" or x == rem.loc.bb:
                w = p
                break
            for s_ in b.succs(x):
                st.append((s_, p + [s_]))
        # the removed value is not used twice (rustc move semantics: moved into the insertion)
        moved = ins.args[2]["k"] == "move" if len(ins.args) > 2 else False
        R.inst(fn=path, removal=rem.where(), insertion=ins.where(), verdict="ok" if (w is None and moved) else "VIOLATION")
        if w is not None:
            R.viol("%s:dropped" % path, rem.where(), "the element removed from the old table can reach %s without being inserted into the main table (path %s): it would be dropped" % ("a return" if b.term(w[-1])["k"] == "return" else "the next removal", w))
        if not moved:
            R.viol("%s:not-moved" % path, ins.where(), "the insertion does not take ownership of the removed element")
    R.floor(1, "movers")
    return R


# ---------------------------------------------------------------------------
def rule_cl_all(ctx):
    R = RuleResult("CL-all", "cloning copies the not-yet-moved elements too: the copier walks a clone of the source's cursor, inserts a Clone::clone of every "
                   "yielded element into the destination's new main table, and is called with (destination main, source leftovers); the source is only borrowed shared (CL-ro)")
    from rules_clone import copiers
    cops = copiers(ctx)
    T = ctx.facts.types
    if not cops:
        R.anchor("copier", "no copier found")
        return R
    for path, info in cops.items():
        b = info["body"]
        cl = info["cursor_clone"]
        key = path
        why = []
        # the loop polls the clone
        polls = [c for c in ctx.calls(b) if c.method == "next" and c.self_adt == "hashbrown::raw::RawIter" and not b.is_cleanup(c.loc.bb)]
        polls = [c for c in polls if cl.loc in b.slice_back(c.loc, c.args[:1])[0]]
        if len(polls) != 1:
            why.append("expected one loop polling the cursor clone, found %d" % len(polls))
        ins = info["ins"]
        if len(ins) != 1:
            why.append("expected one insertion, found %d" % len(ins))
        if not why:
            P, I = polls[0], ins[0]
            s, _ = b.slice_back(I.loc, [I.args[2]])
            clones = [c for c in ctx.calls(b) if c.name == "core::clone::Clone::clone" and c.unresolved]
            if not any(c.loc in s for c in clones) or P.loc not in s:
                why.append("the inserted value is not T::clone of the element just yielded")
            # the cloned main table has no headroom reserved for the copies: the insertion must be the growing one
            if I.tname != HBT + "insert":
                why.append("copies are inserted with %s, which assumes free room that the freshly cloned table need not have" % I.tname)
            # receiver: not a table of the source
            rp = I.arg_path(0)
            rr = ctx.role(b, rp)
            if rr in (OLD, CURSOR):
                why.append("copies are inserted into the old table")
            src_s = ctx.roles.s_prefix(ctx.resolve(b, cl.arg_path(0))[1])
            if rr == MAIN and ctx.roles.s_prefix(rp) == src_s and src_s is not None:
                why.append("copies are inserted into the source's own main table")
            # every iteration inserts
            loops = [(h, bl) for h, bl in b.loops() if P.loc.bb in bl]
            if not loops:
                why.append("the copy is not a loop")
            else:
                bl = loops[0][1]
                seen = set()
                st = list(b.succs(P.loc.bb))
                while st:
                    x = st.pop()
                    if x in seen or x == I.loc.bb or x not in bl:
                        continue
                    seen.add(x)
                    if x == P.loc.bb:
                        why.append("an element can be skipped (next poll without insertion)")
                        break
                    st.extend(b.succs(x))
                # loop exits only on None
                t = b.term(P.target)
                some_t = [tb for v, tb in t["targets"] if v == 1] if t["k"] == "switch" else []
                for x in bl:
                    for s_ in b.succs(x):
                        if s_ not in bl and not (x == P.target and s_ not in some_t) and b.term(s_)["k"] != "unreachable":
                            why.append("the copy loop can stop early (bb%d -> bb%d)" % (x, s_))
        R.inst(fn=path, verdict="ok" if not why else "VIOLATION")
        if why:
            R.viol(key, b.where(Loc(0, 0)), "; ".join(why))
        # where the copies come from and go to: (source leftovers, destination main)
        def check_pair(cb, p0, p1, site, key2):
            """p1: path of the source's leftovers (or a place inside them), p0: path of the table receiving the copies, both in body cb"""
            why2 = []
            sp = ctx.roles.s_prefix(p1) if p1 is not None else None
            if p1 is None or sp is None or LEFT not in [t for t, _ in ctx.roles.classify(p1)]:
                why2.append("the elements copied are not a table's leftovers")
            else:
                root_ty = T[cb.locals[p1.root]["ty"]]
                if not (root_ty.get("k") == "ref" and not root_ty.get("mut")):
                    why2.append("the source is not borrowed shared")
            # destination: MAIN of another S (clone_from) or a local that becomes MAIN of the returned S (clone)
            if p0 is not None and ctx.roles.is_main_place(p0):
                if p1 is not None and ctx.roles.s_prefix(p0) == sp:
                    why2.append("destination and source are the same table")
            elif p0 is not None:
                becomes_main = False
                for loc, st in cb.all_assigns():
                    rv = st["rv"]
                    if rv["k"] == "aggregate" and rv.get("adt") == ctx.roles.S:
                        q = cb.op_path(rv["ops"][ctx.roles.S_main])
                        if q is not None and q.root == p0.root:
                            becomes_main = True
                if not becomes_main:
                    why2.append("the table receiving the copies is not the result's main table")
            else:
                why2.append("the table receiving the copies is unknown")
            R.inst(fn=cb.path, site=site, verdict="ok" if not why2 else "VIOLATION")
            if why2:
                R.viol(key2, site, "; ".join(why2))

        if not why:
            srcp = ctx.resolve(b, cl.arg_path(0))[1]
            dstp = ctx.resolve(b, ins[0].arg_path(0))[1]
            if srcp is not None and not (1 <= srcp.root <= b.arg_count):
                # `if let Some(old) = pending.as_ref()`: the payload of x.as_ref() is the payload of *x
                d0 = b.unique_def(srcp.root)
                if d0 is not None and d0[1] == "call" and ctx.call_at(b, d0[0].bb).name in (OPT + "as_ref", OPT + "as_mut"):
                    ap = ctx.call_at(b, d0[0].bb).arg_path(0)
                    el = list(srcp.elems)
                    if ap is not None and len(el) >= 3 and el[0][0] == "downcast" and el[1][0] == "field" and el[2] == ("deref",):
                        q = ap.extend(("deref",)).extend(el[0]).extend(el[1])
                        for e in el[3:]:
                            q = q.extend(e)
                        srcp = q
            if ctx.roles.s_prefix(srcp) is not None:
                # the copier works on the split tables themselves
                check_pair(b, dstp.strip_refs() if dstp is not None else None, srcp, b.where(Loc(0, 0)), "%s:tables" % path)
            elif 1 <= srcp.root <= b.arg_count and dstp is not None and 1 <= dstp.root <= b.arg_count:
                # a helper given (destination table, source leftovers): decided at its call sites
                si, di = srcp.root - 1, dstp.root - 1
                ncalls = 0
                for cb in ctx.facts.bodies.values():
                    for c in ctx.calls(cb):
                        lc = c.local_callee()
                        if lc is None or lc.path != path:
                            continue
                        ncalls += 1
                        pd, ps = c.arg_path(di), c.arg_path(si)
                        elems = list(srcp.elems)
                        sd = cb.source_def(c.args[si])
                        if sd is not None and sd[1] == "call" and ctx.call_at(cb, sd[0].bb).name in (OPT + "as_ref", OPT + "as_mut") \
                                and len(elems) >= 3 and elems[0][0] == "downcast" and elems[1][0] == "field" and elems[2] == ("deref",):
                            # handed over as Option<&T> made from &Option<T>: `(x.as_ref() as Some).0.*` is `((*x) as Some).0`
                            ps = ctx.call_at(cb, sd[0].bb).arg_path(0)
                            elems = [("deref",), elems[0], elems[1]] + elems[3:]
                        if ps is not None:
                            for e in elems:
                                ps = ps.extend(e)
                        check_pair(cb, pd, ps, c.where(), "%s:call" % cb.path)
                if not ncalls:
                    R.viol("%s:uncalled" % path, b.where(Loc(0, 0)), "the copier is never called")
            else:
                R.viol("%s:provenance" % path, b.where(Loc(0, 0)), "cannot tell which tables the copier reads from and writes to (unproven)")
    return R


# ---------------------------------------------------------------------------
def rule_e_prop(ctx):
    R = RuleResult("E-prop", "no allocation error is swallowed: every Result<_, TryReserveError> produced in a function that itself returns one flows into the "
                   "returned value (directly or through `?`); the two exceptions are tied to other rules (`expect` on the guarded in-place reserve: S-reserve; "
                   "`is_err` feeding unreachable_unchecked: V-unreach)")
    T = ctx.facts.types
    n = 0
    for b in ctx.facts.bodies.values():
        for c in ctx.calls(b):
            if b.is_cleanup(c.loc.bb) or c.dest is None:
                continue
            dty = T[c.dest["ty"]]
            if "TryReserveError" not in dty["s"] or not dty["s"].startswith("core::result::Result<"):
                continue
            if (c.name or "").endswith("from_residual") or (c.name or "").endswith("Try::branch"):
                continue
            n += 1
            key = "%s:%s" % (b.path, c.tname)
            rt = T[b.locals[0]["ty"]]["s"]
            ok = False
            how = None
            if "TryReserveError" in rt:
                for rb in b.return_blocks():
                    ret_op = {"k": "copy", "place": {"local": 0, "proj": [], "ty": b.locals[0]["ty"]}}
                    s, _ = b.slice_back(Loc(rb, len(b.stmts(rb))), [ret_op])
                    if c.loc in s:
                        ok = True
                        how = "propagated"
            if not ok:
                # consumed by expect / is_err
                for c2 in ctx.calls(b):
                    if c2.name in ("core::result::Result::expect", "core::result::Result::unwrap", "core::result::Result::is_err"):
                        p = c2.arg_path(0)
                        if p is not None and p.root == c.dest["local"]:
                            if c2.method == "is_err":
                                ok = True
                                how = "tested by is_err (V-unreach)"
                            elif c.tname == HBT + "try_reserve" and ctx.role(b, c.arg_path(0)) == MAIN:
                                ok = True
                                how = "expect() on the in-place reserve (S-reserve: cannot fail)"
            if not ok:
                # matched: the Err arm is unreachable_unchecked (its unreachability is V-unreach's obligation)
                for bb in b.reachable():
                    tt = b.term(bb)
                    if tt["k"] != "switch":
                        continue
                    dd = b.source_def(tt["discr"])
                    if dd is not None and dd[1] == "assign" and dd[2]["rv"]["k"] == "discr":
                        q = b.expand(dd[2]["rv"]["place"])
                        if q.root == c.dest["local"] and not q.fields():
                            errs = [tb for v, tb in tt["targets"] if v == 1] or ([tt["otherwise"]] if [v for v, _ in tt["targets"]] == [0] else [])
                            for et in errs:
                                region = b.reach_from([et])
                                if any(b.term(x)["k"] == "call" and (ctx.call_at(b, x).name or "").endswith("hint::unreachable_unchecked") for x in region):
                                    ok = True
                                    how = "matched; the Err arm is unreachable_unchecked (V-unreach)"
            R.inst(fn=b.path, site=c.where(), call=c.tname, verdict=("ok: " + how) if ok else "VIOLATION")
            if not ok:
                R.viol(key, c.where(), "the Result of %s in %s is neither returned nor propagated with `?`: an allocation failure would be swallowed" % (c.tname, b.path))
    # .. and none is invented: an `Err` that a fallible operation of the crate returns carries an error that hashbrown reported
    for b in ctx.facts.bodies.values():
        if b.kind == "Closure" or "TryReserveError" not in T[b.locals[0]["ty"]]["s"] or not T[b.locals[0]["ty"]]["s"].startswith("core::result::Result<"):
            continue
        for loc, st in b.all_assigns():
            rv = st["rv"]
            if b.is_cleanup(loc.bb) or rv["k"] != "aggregate" or rv.get("adt") != "core::result::Result" or rv.get("variant") != "Err":
                continue
            s_, args_ = b.slice_back(loc, rv["ops"][:1])
            from_call = any(l.i == len(b.stmts(l.bb)) and b.term(l.bb)["k"] == "call" for l in s_) or bool(args_)
            if not from_call:
                # `match a.checked_add(b) { Some(n) => n, None => return Err(CapacityOverflow) }`: a size that cannot be represented is a failure
                from rules_typestate import option_test_edges, N as N__
                for c in ctx.calls(b):
                    if c.method in ("checked_add", "checked_mul", "checked_sub", "checked_next_power_of_two") and c.dest is not None and not c.dest["proj"]:
                        dl = c.dest["local"]
                        for e, v in option_test_edges(ctx, b, lambda p_, dl=dl: p_.root == dl and not p_.fields(), ignore_debug=False).items():
                            if v == N__ and (e[1] == loc.bb or e[1] in b.dom().get(loc.bb, set())) and b.preds(e[1], True) == [e[0]]:
                                from_call = True
            R.inst(fn=b.path, site=b.where(loc), builds="Err", verdict="ok: the error comes from a callee / a parameter" if from_call else "VIOLATION")
            if not from_call:
                R.viol("%s:invented-error" % b.path, b.where(loc), "%s returns an Err it made up itself (no callee reported it): the operation reports a failure that did not happen" % b.path)
    R.floor(3, "fallible calls")
    return R


# ---------------------------------------------------------------------------
RO_ENTRY = ["HashMap::len", "HashMap::is_empty", "HashMap::get", "HashMap::get_key_value", "HashMap::contains_key", "HashMap::iter", "HashMap::keys",
            "HashMap::values", "HashSet::len", "HashSet::is_empty", "HashSet::get", "HashSet::contains", "HashSet::iter",
            "HashSet::is_subset", "HashSet::is_superset", "HashSet::is_disjoint"]


def rule_ro_layout(ctx):
    R = RuleResult("RO-layout", "read-only observers (==, len, is_empty, get*, contains*, iter/keys/values, Debug, Index) never consult capacity, bucket count "
                   "or whether a resize is in progress: their results can only depend on contents")
    from rules_cost import entry_points
    eps = entry_points(ctx)
    entries = []
    for name in RO_ENTRY:
        if name in eps:
            entries.append((name, eps[name]))
        else:
            R.anchor("entry:%s" % name, "read-only entry point %s not found" % name)
    for b in ctx.facts.bodies.values():
        if b.kind != "Closure" and b.raw.get("trait") in ("core::cmp::PartialEq", "core::fmt::Debug", "core::ops::Index") and "self_ty" in b.raw \
                and ctx.facts.types[b.raw["self_ty"]].get("adt") in ("griddle::map::HashMap", "griddle::set::HashSet"):
            entries.append((b.path, b))
    layout_fns = set(ret_is_some_fns(ctx))
    for name, b in entries:
        bad = []
        for p in sorted(ctx.reachable_bodies(b.path)):
            pb = ctx.facts.bodies[p]
            if p in layout_fns and p != b.path:
                bad.append("%s (is a resize in progress?)" % p)
            for c in ctx.calls(pb):
                if c.tname in (HBT + "capacity", HBT + "buckets", HBT + "allocation_info"):
                    bad.append("%s @ %s" % (c.tname, c.where()))
        R.inst(entry=name, verdict="ok" if not bad else "VIOLATION")
        if bad:
            R.viol(name, b.where(Loc(0, 0)), "%s consults the table layout: %s" % (name, "; ".join(bad[:3])))
    R.floor(18, "read-only observers")
    return R


# ---------------------------------------------------------------------------
def _debug_only_blocks(ctx, b):
    """blocks that exist only in the debug profile: dominated by the `true` arm of a cfg!(debug_assertions) constant switch (incl. debug_assert!)"""
    regions = []   # (switch bb, debug arm start, release arm start or None, is_debug_assert)
    for bb in b.reachable():
        t = b.term(bb)
        if t["k"] != "switch" or t["discr"]["k"] not in ("copy", "move"):
            continue
        if not in_macro(t["span"], "cfg"):
            continue
        v = b.op_const(t["discr"])
        if v is None:
            continue
        zero = [tb for val, tb in t["targets"] if val == 0]
        dbg, rel = t["otherwise"], (zero[0] if zero else None)
        regions.append((bb, dbg, rel, in_macro(t["span"], "debug_assert", "debug_assert_eq", "debug_assert_ne")))
    # `let x = cfg!(debug_assertions).then(|| ..); if let Some(v) = x { .. }`: the Some arm exists only with debug assertions
    for bb in b.reachable():
        t = b.term(bb)
        if t["k"] != "switch":
            continue
        d = b.source_def(t["discr"])
        if d is None or d[1] != "assign" or d[2]["rv"]["k"] != "discr" or d[2]["rv"]["place"]["proj"]:
            continue
        x = d[2]["rv"]["place"]["local"]
        dx = b.unique_def(x)
        hops = 0
        while dx is not None and dx[1] == "assign" and dx[2]["rv"]["k"] == "use" and dx[2]["rv"]["op"]["k"] in ("copy", "move") \
                and not dx[2]["rv"]["op"]["place"]["proj"] and hops < 4:
            dx = b.unique_def(dx[2]["rv"]["op"]["place"]["local"])
            hops += 1
        if dx is None or dx[1] != "call":
            continue
        c = ctx.call_at(b, dx[0].bb)
        if c is None or not (c.name or "").startswith("core::bool::") or c.method not in ("then", "then_some") or not c.args:
            continue
        a0 = c.args[0]
        is_cfg = False
        sd = b.source_def(a0)
        if a0["k"] == "const" and (in_macro(c.t["span"], "cfg") or (a0.get("span") and in_macro(a0["span"], "cfg"))):
            is_cfg = True
        if sd is not None and sd[1] == "assign" and sd[2]["rv"]["k"] == "use" and sd[2]["rv"]["op"]["k"] == "const" and in_macro(sd[2]["span"], "cfg"):
            is_cfg = True
        if not is_cfg:
            continue
        some = [tb for v, tb in t["targets"] if v == 1]
        none = [tb for v, tb in t["targets"] if v == 0] or [t["otherwise"]]
        if some:
            regions.append((bb, some[0], none[0] if none[0] != some[0] else None, False))
    # `let before = if cfg!(debug_assertions) { Some(..) } else { None }; ..; if let Some(v) = before { .. }` (also split over two helpers that
    # a view has inlined): an Option every `Some` of which is built under the debug arm — its Some arm exists only with debug assertions
    base = list(regions)
    if base:
        dbg_blocks = set()
        for sw, dbg, rel, is_da in base:
            dbg_blocks |= _region_blocks(b, dbg, rel)
        for bb in b.reachable():
            t = b.term(bb)
            if t["k"] != "switch" or any(r[0] == bb for r in regions):
                continue
            d = b.source_def(t["discr"])
            if d is None or d[1] != "assign" or d[2]["rv"]["k"] != "discr" or d[2]["rv"]["place"]["proj"]:
                continue
            x = d[2]["rv"]["place"]["local"]
            seen = set()
            work = [x]
            somes, ok = 0, True
            while work and ok:
                l = work.pop()
                if l in seen:
                    continue
                seen.add(l)
                if l == 0 or 1 <= l <= b.arg_count:
                    ok = False
                    break
                ds = [y for y in b.defs().get(l, []) if not b.is_cleanup(y[0].bb)]
                if not ds:
                    ok = False
                for y in ds:
                    if y[1] != "assign":
                        ok = False
                        break
                    rv = y[2]["rv"]
                    if rv["k"] == "use" and rv["op"]["k"] in ("copy", "move") and not rv["op"]["place"]["proj"]:
                        work.append(rv["op"]["place"]["local"])
                    elif rv["k"] == "aggregate" and rv.get("adt") == "core::option::Option":
                        if rv["variant"] == "Some":
                            somes += 1
                            if y[0].bb not in dbg_blocks:
                                ok = False
                    else:
                        ok = False
            if ok and somes:
                some = [tb for v, tb in t["targets"] if v == 1]
                none = [tb for v, tb in t["targets"] if v == 0] or [t["otherwise"]]
                if some:
                    regions.append((bb, some[0], none[0] if none[0] != some[0] else None, False))
    return regions


def _region_blocks(b, start, other):
    """blocks reachable from `start` before re-joining paths from `other` (i.e. dominated by start)"""
    return {x for x in b.reachable() if start == x or start in b.dom().get(x, set())}


def rule_g_pure(ctx):
    R = RuleResult("G-pure", "code that exists only with debug assertions (debug_assert!, the cfg!(debug_assertions) arms) only reads and panics; where a "
                   "cfg!(debug_assertions) arm has a release twin, both perform the same mutating calls with the same arguments")
    T = ctx.facts.types
    n = 0
    for b in ctx.facts.bodies.values():
        for sw, dbg, rel, is_da in _debug_only_blocks(ctx, b):
            n += 1
            dblocks = _region_blocks(b, dbg, rel)
            rblocks = _region_blocks(b, rel, dbg) if rel is not None else set()
            # if the arms re-join, region = dominated blocks only (already)
            def mut_calls(blocks):
                out = []
                for x in sorted(blocks):
                    if b.is_cleanup(x):
                        continue
                    t = b.term(x)
                    if t["k"] == "call":
                        c = ctx.call_at(b, x)
                        if c.target is None:
                            continue   # panic
                        mut = False
                        for i, a in enumerate(c.args):
                            if a["k"] in ("copy", "move"):
                                at = T[a["place"]["ty"]]
                                if at.get("k") == "ref" and at.get("mut"):
                                    p = c.arg_path(i)
                                    if p is not None and (ctx.role(b, p) is not None or is_self_s(ctx, b, p) or (1 <= p.root <= b.arg_count)):
                                        mut = True
                        if mut or c.unresolved:
                            desc = []
                            for i, a in enumerate(c.args):
                                if ctx.closure_of_operand(b, a) is not None:
                                    desc.append("<closure>")
                                elif a["k"] == "const":
                                    desc.append("const %s" % a.get("val", a.get("text")))
                                else:
                                    desc.append(str(c.arg_path(i)))
                            out.append((c.tname, tuple(desc), c))
                    for st in b.stmts(x):
                        if st["k"] == "assign" and st["place"]["proj"]:
                            p = b.expand(st["place"], alias=True)
                            if 1 <= p.root <= b.arg_count:
                                out.append(("<store>", (str(p),), None))
                return out
            dm = mut_calls(dblocks)
            key = "%s:debug-only@bb%d" % (b.path, sw)
            if is_da or not rblocks or rel is None:
                R.inst(fn=b.path, site=b.where(Loc(sw, len(b.stmts(sw)))), kind="debug_assert", mutating=len(dm), verdict="ok" if not dm else "VIOLATION")
                if dm:
                    R.viol("%s:debug_assert:%s" % (b.path, dm[0][0]), b.where(Loc(sw, len(b.stmts(sw)))), "debug-only code in %s performs %s: the release build would skip a mutation" % (b.path, dm[0][0]))
            else:
                rm = mut_calls(rblocks)
                same = [(x[0], x[1]) for x in dm] == [(x[0], x[1]) for x in rm]
                R.inst(fn=b.path, site=b.where(Loc(sw, len(b.stmts(sw)))), kind="cfg! arms", debug_mutations=[x[0] for x in dm], release_mutations=[x[0] for x in rm], verdict="ok" if same else "VIOLATION")
                if not same:
                    R.viol("%s:cfg-arms" % b.path, b.where(Loc(sw, len(b.stmts(sw)))), "the debug and release arms of cfg!(debug_assertions) in %s perform different mutations: debug %s, release %s"
                           % (b.path, [(x[0]) for x in dm], [(x[0]) for x in rm]))
    R.floor(0, "debug-only regions")
    return R


def _asserted_truth(ctx, b, c):
    """the truth value of call c's boolean result on the successor edge that does not lead to a panic (None if unclear)"""
    if c.dest is None or c.dest["proj"]:
        return None
    dl = c.dest["local"]

    def panics(x, depth=0):
        t = b.term(x)
        if t["k"] == "goto" and depth < 4:
            return panics(t["target"], depth + 1)
        if t["k"] == "call" and t.get("target") is None:
            cc = ctx.call_at(b, x)
            return cc is not None and (cc.name or "").startswith("core::panicking")
        if t["k"] == "call" and depth < 4 and in_macro(t["span"], "panic", "assert", "debug_assert", "unreachable"):
            return panics(t["target"], depth + 1)       # building the panic message
        return False
    for bb in b.reachable():
        t = b.term(bb)
        if t["k"] != "switch":
            continue
        d = b.source_def(t["discr"])
        neg = False
        if d is not None and d[1] == "assign" and d[2]["rv"]["k"] == "unop" and d[2]["rv"]["op"] == "Not":
            d = b.source_def(d[2]["rv"]["a"])
            neg = True
        if d is None or d[1] != "call" or d[0] != c.loc:
            continue
        res = set()
        for s_ in b.succs(bb):
            vals = [v for v, tb in t["targets"] if tb == s_]
            truth = (vals != [0]) if vals else True
            if s_ == t["otherwise"] and not vals:
                truth = True
            if neg:
                truth = not truth
            if not panics(s_):
                res.add(truth)
        if len(res) == 1:
            return res.pop()
    return None


def _local_s_state(ctx, b, local):
    """N / S if `local` is a split table built by one struct literal whose LEFT operand is None / Some(..) and never changed afterwards"""
    from rules_typestate import _opt_value_state
    ro = ctx.roles
    d = b.unique_def(local)
    if d is None or d[1] != "assign" or d[2]["rv"]["k"] != "aggregate" or d[2]["rv"].get("adt") != ro.S:
        return None
    st0 = _opt_value_state(b, d[2]["rv"]["ops"][ro.S_left])
    if st0 not in (N, S):
        return None
    T = ctx.facts.types

    def touches(pl):
        p = b.expand(pl, alias=True)
        if p.root != local:
            return False
        fs = p.fields()
        return not fs or (fs[0][1] == ro.S and fs[0][2] == ro.S_left)
    for loc, st in b.all_assigns():
        if b.is_cleanup(loc.bb):
            continue
        if st["place"]["proj"] and touches(st["place"]):
            return None
        rv = st["rv"]
        if rv["k"] in ("ref", "rawptr") and rv.get("mut") and touches(rv["place"]):
            return None
    for c in ctx.calls(b):
        if b.is_cleanup(c.loc.bb):
            continue
        for i, a in enumerate(c.args):
            if a["k"] == "move" and not a["place"]["proj"] and a["place"]["local"] == local:
                return None
    return st0


def _returned_s_state(ctx, f):
    """N / S if every value the function returns is a split table built with LEFT in that state (and untouched afterwards)"""
    if ctx.facts.types[f.locals[0]["ty"]].get("adt") != ctx.roles.S:
        return None
    states = set()
    for rb in f.return_blocks():
        for d in f.defs_reaching(Loc(rb, len(f.stmts(rb))), 0):
            if d[3] == "assign" and d[4]["rv"]["k"] == "aggregate" and d[4]["rv"].get("adt") == ctx.roles.S:
                from rules_typestate import _opt_value_state
                states.add(_opt_value_state(f, d[4]["rv"]["ops"][ctx.roles.S_left]))
            elif d[3] == "assign" and d[4]["rv"]["k"] == "use" and d[4]["rv"]["op"]["k"] in ("copy", "move") and not d[4]["rv"]["op"]["place"]["proj"]:
                states.add(_local_s_state(ctx, f, d[4]["rv"]["op"]["place"]["local"]))
            else:
                states.add(None)
    return states.pop() if len(states) == 1 else None


def _local_s_state_after(ctx, b, local, from_loc, to_loc):
    """the local split table is neither written nor mutably borrowed (as a whole, or its pending-resize field) anywhere in the body"""
    ro = ctx.roles

    def touches(pl):
        p = b.expand(pl, alias=True)
        if p.root != local:
            return False
        fs = p.fields()
        return not fs or (fs[0][1] == ro.S and fs[0][2] == ro.S_left)
    for loc, st in b.all_assigns():
        if b.is_cleanup(loc.bb):
            continue
        if st["place"]["proj"] and touches(st["place"]):
            return False
        rv = st["rv"]
        if rv["k"] in ("ref", "rawptr") and rv.get("mut") and touches(rv["place"]):
            return False
    return True


def _assert_can_fail(ctx, b, c, dead_edges):
    """can the assertion that call c (a test of the resize state) belongs to still panic when c's result is the unwanted one, without
    crossing one of dead_edges?  (the remaining operands of a `||` / `&&` condition may decide it)"""
    if c.dest is None or c.dest["proj"] or c.target is None:
        return True
    span = c.t["span"]

    def is_panic(x):
        t = b.term(x)
        if t["k"] == "call" and t.get("target") is None:
            cc = ctx.call_at(b, x)
            return cc is not None and (cc.name or "").startswith("core::panicking")
        return False
    want = _asserted_truth(ctx, b, c)
    # follow both outcomes unless the polarity is known; stay inside the assertion (same macro expansion line)
    starts = [c.target]
    seen = set()
    st = list(starts)
    while st:
        x = st.pop()
        if x in seen:
            continue
        seen.add(x)
        if is_panic(x):
            return True
        t = b.term(x)
        if t["span"].get("line") != span.get("line") or t["span"].get("file") != span.get("file"):
            continue         # left the assertion
        for s_ in b.succs(x):
            if (x, s_) in dead_edges:
                continue
            if t["k"] == "switch" and want is not None:
                d = b.source_def(t["discr"])
                neg = False
                if d is not None and d[1] == "assign" and d[2]["rv"]["k"] == "unop" and d[2]["rv"]["op"] == "Not":
                    d = b.source_def(d[2]["rv"]["a"])
                    neg = True
                if d is not None and d[1] == "call" and d[0] == c.loc:
                    vals = [v for v, tb in t["targets"] if tb == s_]
                    truth = (vals != [0]) if vals else True
                    if neg:
                        truth = not truth
                    if truth == want:
                        continue     # the wanted outcome: the assertion holds through this operand
            st.append(s_)
    return False


def rule_t_dbg(ctx):
    R = RuleResult("T-dbg", "every debug-only assertion about whether a resize is pending, or about how many elements the old table holds, is implied by what "
                   "the (release) code establishes anyway, so the debug build never stops where the release build would continue")
    ts = typestate(ctx)
    from rules_typestate import rule_t_grow
    tg = rule_t_grow(ctx)
    req = set()
    for note in tg.notes:
        if "entry requirement" in note:
            import ast
            req = set(ast.literal_eval(note.split(": ", 1)[1]))
    from rules_colour import flag_edges, edge_dominates
    from rules_handle import invalidation, s_method
    n = 0
    for b in ctx.facts.bodies.values():
        da_blocks = set()
        for sw, dbg, rel, is_da in _debug_only_blocks(ctx, b):
            if is_da:
                da_blocks |= _region_blocks(b, dbg, rel)
        for c in ctx.calls(b):
            if b.is_cleanup(c.loc.bb) or not (c.loc.bb in da_blocks or in_macro(c.t["span"], "debug_assert")):
                continue
            kind = None
            if c.name in (OPT + "is_none", OPT + "is_some") and c.arg_path(0) is not None and ctx.roles.is_left_place(ctx.resolve(b, c.arg_path(0))[1]):
                kind = N if c.name == OPT + "is_none" else S
                s_path = ctx.roles.s_prefix(c.arg_path(0))
            else:
                lc = c.local_callee()
                if lc is not None and lc.path in ret_is_some_fns(ctx):
                    kind = S if ret_is_some_fns(ctx)[lc.path] else N
                    s_path = c.arg_path(0)
            if kind is None:
                continue
            # polarity: the assertion requires the predicate's value on the edge that does not panic (`debug_assert!(!x.is_split())`)
            req_truth = _asserted_truth(ctx, b, c)
            if req_truth is False:
                kind = N if kind == S else S
            n += 1
            key = "%s:debug_assert:LEFT=%s" % (b.path, kind)
            ok = False
            how = None
            if b.path in ts.results and is_self_s(ctx, b, Path(s_path.root, s_path.elems) if s_path is not None else None):
                entry = N if b.path in req else TOP
                stt = ts.results[b.path][entry][0].get(c.loc.bb, BOT)
                if stt == kind:
                    ok = True
                    how = "typestate at the assertion is %s%s" % (stt, " (entry requirement established by every caller: T-grow)" if b.path in req else "")
            if not ok and s_path is not None and not (1 <= s_path.root <= b.arg_count):
                # a split table built locally: its pending-resize field keeps the value it was constructed with as long as neither the
                # whole value nor that field is written or borrowed mutably
                st_local = _local_s_state(ctx, b, s_path.root)
                if st_local == kind:
                    ok = True
                    how = "the table is a local value constructed with LEFT=%s and neither it nor that field is written or mutably borrowed afterwards" % kind
            if not ok and s_path is not None and not s_path.fields() and not (1 <= s_path.root <= b.arg_count):
                # a table returned by a griddle function that always builds it in that state (clone_with_hasher: LEFT = None)
                d0 = b.unique_def(s_path.root)
                if d0 is not None and d0[1] == "call":
                    lc0 = ctx.call_at(b, d0[0].bb).local_callee()
                    if lc0 is not None and _returned_s_state(ctx, lc0) == kind and _local_s_state_after(ctx, b, s_path.root, d0[0], c.loc):
                        ok = True
                        how = "the table is the result of %s, which always returns a table with LEFT=%s, and is not written or mutably borrowed since" % (lc0.path, kind)
            if not ok and s_path is not None:
                # established by a dominating call on the same table whose summary ends in that state (clone_from_with_hasher: LEFT = None),
                # with no other mutable access to the table in between
                T_ = ctx.facts.types
                for c2 in ctx.calls(b):
                    lc2 = c2.local_callee()
                    if lc2 is None or lc2.path not in ts.summary or b.is_cleanup(c2.loc.bb) or c2.loc == c.loc or not b.dominates(c2.loc, c.loc):
                        continue
                    rp = c2.arg_path(0)
                    if rp is None or rp.strip_refs().key() != s_path.strip_refs().key() or ts.summ(lc2.path, TOP) != kind:
                        continue
                    dirty = False
                    for x in between_blocks(b, c2.loc.bb, c.loc.bb):
                        if b.term(x)["k"] != "call":
                            continue
                        cc = ctx.call_at(b, x)
                        if cc is None:
                            continue
                        for i_, a_ in enumerate(cc.args):
                            if a_["k"] in ("copy", "move"):
                                at_ = T_[a_["place"]["ty"]]
                                q_ = cc.arg_path(i_)
                                if at_.get("k") == "ref" and at_.get("mut") and q_ is not None and q_.strip_refs().key()[0] == s_path.key()[0] \
                                        and (q_.startswith(s_path) or s_path.startswith(q_)):
                                    dirty = True
                    if not dirty:
                        ok = True
                        how = "%s, called on the same table before the assertion, always ends with LEFT=%s and nothing mutates the table in between" % (lc2.path, kind)
                        break
            if not ok and kind == S:
                # correlation: dominated by the OLD edge of a bucket returned by find() on the same table, nothing invalidating in between
                for e, (bkey, side) in flag_edges(ctx, b).items():
                    if side != OLD or not edge_dominates(b, e, c.loc.bb):
                        continue
                    root = bkey[0]
                    d = b.unique_def(root)
                    if d is None or d[1] != "call":
                        continue
                    fc = ctx.call_at(b, d[0].bb)
                    sm = s_method(ctx, fc)
                    if sm is None or sm.name != "find":
                        continue
                    same_table = fc.arg_path(0) is not None and s_path is not None and fc.arg_path(0).strip_refs().key() == s_path.strip_refs().key()
                    inv = invalidation(ctx)
                    dirty = False
                    for x in between_blocks(b, fc.loc.bb, c.loc.bb):
                        t = b.term(x)
                        if t["k"] == "call":
                            cc = ctx.call_at(b, x)
                            l2 = cc.local_callee()
                            if l2 is not None and OLD in inv.get(l2.path, set()):
                                dirty = True
                    if same_table and not dirty:
                        ok = True
                        how = "on the path where find() returned an old-table bucket (K-new: only built in find's LEFT=Some arm) and nothing in between frees the old table"
            if not ok and b.path in ts.results and s_path is not None and is_self_s(ctx, b, Path(s_path.root, s_path.elems)):
                # a type's size is fixed per instantiation: decide the assertion separately for zero-sized and for other element types
                # (`debug_assert!(self.leftovers.is_none() || size_of::<T>() != 0)` after `if size_of::<T>() == 0 { carry_all }`)
                from rules_typestate import typestate_world
                from rules_protocol import _sizeof_guard_edges
                sz = _sizeof_guard_edges(ctx, b)
                hows = []
                for w in ("zero", "nonzero"):
                    tw = typestate_world(ctx, w)
                    entry = N if b.path in req else TOP
                    stt = tw.results[b.path][entry][0].get(c.loc.bb, BOT)
                    if stt == kind:
                        hows.append("for %s-sized elements the typestate at the assertion is %s" % (w, stt))
                    elif stt == BOT:
                        hows.append("for %s-sized elements the assertion is not reached" % w)
                    elif not _assert_can_fail(ctx, b, c, {e for e, v in sz.items() if v != w}):
                        hows.append("for %s-sized elements the other operands of the assertion hold" % w)
                    else:
                        hows = None
                        break
                if hows and sz:
                    ok = True
                    how = "; ".join(hows)
            R.inst(fn=b.path, site=c.where(), asserts="LEFT=%s" % kind, verdict=("ok: " + how) if ok else "VIOLATION")
            if not ok:
                R.viol(key, c.where(), "debug_assert in %s requires LEFT=%s, which the analysis cannot derive from the code that also runs in release: "
                       "the debug build may panic where release proceeds" % (b.path, kind))
    # .. and about how many elements a table holds: an old table that exists but is empty (after retain / replace_entry_with), a main table that is
    # empty while the old one is not (after reserve), a table that is exactly full are all legal states, so a debug-only assertion on a table's
    # length must be implied by a test that the release build makes too
    from rules_typestate import old_empty_edges
    HBT_ = "hashbrown::raw::RawTable::"
    for b in ctx.facts.bodies.values():
        dbg_blocks = set()
        for sw, dbg, rel, is_da in _debug_only_blocks(ctx, b):
            if is_da:
                dbg_blocks |= _region_blocks(b, dbg, rel)
        for c in ctx.calls(b):
            if b.is_cleanup(c.loc.bb) or c.tname not in (HBT_ + "len", HBT_ + "is_empty"):
                continue
            if not (c.loc.bb in dbg_blocks or in_macro(c.t["span"], "debug_assert", "debug_assert_eq", "debug_assert_ne")):
                continue
            # only the old table: "an old table exists, so it holds something" is the tempting, wrong belief (retain and replace_entry_with leave an
            # empty one behind).  Assertions about the main table or a local table are left to the reader.
            is_old = ctx.role(b, c.arg_path(0)) == OLD if c.arg_path(0) is not None else False
            if not is_old and b.kind == "Closure" and c.arg_path(0) is not None and c.arg_path(0).strip_refs().root == 2 and not c.arg_path(0).fields():
                site = ctx.closure_sites().get(b.dpath)
                if site is not None:
                    pb = site[0]
                    for pc in ctx.calls(pb):
                        if b in pc.closure_args() and pc.name in (OPT + "map", OPT + "and_then", OPT + "map_or", OPT + "is_some_and", OPT + "filter") and pc.args:
                            sd = pb.source_def(pc.args[0])
                            if sd is not None and sd[1] == "call":
                                lc0 = ctx.call_at(pb, sd[0].bb).local_callee()
                                if lc0 is not None and lc0.path in (getattr(ctx.facts, "old_accessors", {}) or {}):
                                    is_old = True
            if not is_old:
                continue
            n += 1
            implied = any(edge_dominates(b, e, c.loc.bb) for e, v in old_empty_edges(ctx, b).items() if not in_macro(b.term(e[0])["span"], "debug_assert",
                                                                                                                      "debug_assert_eq", "debug_assert_ne"))
            R.inst(fn=b.path, site=c.where(), asserts="the old table's number of elements", verdict="ok: implied by a test made in all profiles" if implied else "VIOLATION")
            if not implied:
                R.viol("%s:debug_assert:table-length" % b.path, c.where(), "a debug-only assertion in %s depends on %s of the old table: an old table that exists but is "
                       "empty is a legal state (retain, replace_entry_with), so the debug build may panic where the release build proceeds" % (b.path, c.method))
    R.floor(0, "debug assertions about LEFT")
    return R


def rule_f_diff(ctx):
    """thorough: the debug (F1) and release (F2) programs differ only in overflow assertions and cfg! constants"""
    R = RuleResult("F-diff", "the MIR of the debug-assertions+overflow-checks build and of the build without them are call-for-call identical: they differ only in "
                   "overflow Assert terminators (each untainted: O-wrap) and the constants produced by cfg!(debug_assertions) (G-pure)")
    f2 = ctx.others.get("F2")
    if f2 is None:
        R.notes.append("configuration F2 not extracted in this tier")
        R.inst(verdict="skipped (quick tier)")
        return R
    n = 0
    for path, b1 in ctx.facts.bodies.items():
        b2 = f2.bodies.get(path)
        if b2 is None:
            R.viol("%s:missing" % path, "-", "body exists only in the debug configuration")
            continue
        n += 1

        def sig(b):
            out = []
            for loc, t in b.calls():
                if b.is_cleanup(loc.bb):
                    continue
                sp = t["span"]
                out.append((t.get("callee"), sp["file"], sp["line"], sp["col"]))
            return sorted(out, key=lambda x: (x[1], x[2], x[3], str(x[0])))
        s1, s2 = sig(b1), sig(b2)
        if s1 != s2:
            d = [x for x in s1 if x not in s2] + [x for x in s2 if x not in s1]
            R.viol("%s:calls" % path, "%s:%s" % (d[0][1], d[0][2]), "call sites differ between the debug and release programs of %s: %s" % (path, d[:3]))
        a1 = sum(1 for bb in b1.reachable() if b1.term(bb)["k"] == "assert" and b1.term(bb)["msg"] == "overflow")
        a2 = sum(1 for bb in b2.reachable() if b2.term(bb)["k"] == "assert" and b2.term(bb)["msg"] == "overflow")
        if a2 != 0:
            R.viol("%s:overflow-asserts" % path, "-", "release configuration still has overflow assertions?")
        if a1:
            R.inst(fn=path, overflow_asserts_debug=a1, verdict="ok")
    for path in f2.bodies:
        if path not in ctx.facts.bodies:
            R.viol("%s:missing" % path, "-", "body exists only in the release configuration")
    R.notes.append("%d bodies compared" % n)
    return R


# ---------------------------------------------------------------------------
# M-keep / T-drop: tables that hold elements are never dropped wholesale outside the operations that are meant to
# ---------------------------------------------------------------------------
def _flag_locals(b):
    """bool locals that are only ever assigned constants (drop flags and the like)"""
    out = set()
    for l, ds in b.defs().items():
        if b.local_ty(l).get("k") != "bool" or not ds:
            continue
        if all(d[1] == "assign" and d[2]["rv"]["k"] == "use" and d[2]["rv"]["op"]["k"] == "const" and "val" in d[2]["rv"]["op"] for d in ds):
            out.add(l)
    return out


def _len_zero_edges(ctx, b, holders):
    """{(bb, succ): True|False} for switches on `X.len() == 0` / `!= 0` / `X.is_empty()` where X is one of the given locals"""
    out = {}
    for bb in b.reachable():
        t = b.term(bb)
        if t["k"] != "switch":
            continue
        d = b.source_def(t["discr"])
        if d is None:
            continue
        empty_if_true = None
        if d[1] == "assign" and d[2]["rv"]["k"] == "binop" and d[2]["rv"]["op"] in ("Eq", "Ne"):
            rv = d[2]["rv"]
            for x, y in ((rv["a"], rv["b"]), (rv["b"], rv["a"])):
                if b.op_const(y) == 0:
                    sd = b.source_def(x)
                    if sd is not None and sd[1] == "call":
                        c = ctx.call_at(b, sd[0].bb)
                        p = c.arg_path(0)
                        if c.tname == HBT + "len" and p is not None and p.root in holders and (not p.fields() or ctx.roles.is_old_place(p)):
                            empty_if_true = (rv["op"] == "Eq")
        elif d[1] == "call":
            c = ctx.call_at(b, d[0].bb)
            p = c.arg_path(0)
            if c.tname == HBT + "is_empty" and p is not None and p.root in holders and (not p.fields() or ctx.roles.is_old_place(p)):
                empty_if_true = True
        if empty_if_true is None:
            continue
        for v, tb in t["targets"]:
            if tb != t["otherwise"] and v == 0:
                out[(bb, tb)] = not empty_if_true
        out[(bb, t["otherwise"])] = empty_if_true
    return out


def _dropped_nonempty(ctx, b, start_bb, first_holder, no_user_code=False):
    """Search a normal path from start_bb on which the table held in local first_holder (or in a local / wrapper it is moved to) is
    dropped, or handed by value to something that is not an owning iterator, without having been found empty and without having
    been stored as the old table.  Returns (path, what) or None."""
    ro = ctx.roles
    flags = _flag_locals(b)
    # all locals the table may travel through (for the emptiness tests)
    zero_edges = _len_zero_edges(ctx, b, set(range(len(b.locals))))
    seen = set()
    st = [(start_bb, frozenset([first_holder]), False, (), [start_bb])]
    while st:
        x, holders, empty, env, path = st.pop()
        key = (x, holders, empty, env)
        if key in seen or not holders or b.is_cleanup(x):
            continue
        seen.add(key)
        envd = dict(env)
        holders = set(holders)
        for s_ in b.stmts(x):
            if s_["k"] != "assign":
                continue
            pl = s_["place"]
            rv = s_["rv"]
            if not pl["proj"] and pl["local"] in flags and rv["k"] == "use" and rv["op"]["k"] == "const":
                envd[pl["local"]] = rv["op"].get("val")
            moved = []
            if rv["k"] == "use" and rv["op"]["k"] == "move" and rv["op"]["place"]["proj"] and rv["op"]["place"]["local"] in holders \
                    and not pl["proj"] and all(e["k"] in ("downcast", "field") for e in rv["op"]["place"]["proj"]):
                # the payload is moved out of its wrapper (`if let Some(lo) = taken`): the table now lives in the new local
                holders.discard(rv["op"]["place"]["local"])
                holders.add(pl["local"])
            elif rv["k"] == "use" and rv["op"]["k"] == "move" and not rv["op"]["place"]["proj"] and rv["op"]["place"]["local"] in holders:
                moved = [rv["op"]["place"]["local"]]
                holders.discard(moved[0])
                if not pl["proj"]:
                    holders.add(pl["local"])
                elif ro.is_main_place(b.expand(pl)) or ro.is_old_place(b.expand(pl)) or ro.is_left_place(b.expand(pl)):
                    pass          # put (back) into a table slot of the map
                else:
                    holders.add(pl["local"])
            elif rv["k"] == "aggregate":
                for o in rv["ops"]:
                    if o["k"] == "move" and not o["place"]["proj"] and o["place"]["local"] in holders:
                        holders.discard(o["place"]["local"])
                        if rv.get("adt") == ro.O:
                            pass      # stored as the old table of a pending resize: its elements stay in the map
                        elif not pl["proj"]:
                            holders.add(pl["local"])
        t = b.term(x)
        k = t["k"]
        if k == "return":
            continue
        if k == "drop":
            dp = t["place"]
            if not dp["proj"] and dp["local"] in holders:
                if not empty:
                    return path, "dropped at %s" % b.where(Loc(x, len(b.stmts(x))))
                holders.discard(dp["local"])
        if k == "call":
            c = ctx.call_at(b, x)
            if no_user_code and holders and not empty and (c.unresolved or c.indirect) and not in_macro(c.t["span"], "debug_assert", "panic", "unreachable", "assert"):
                return path, "still owned by a local variable while user code (%s at %s) runs: if that panics, unwinding drops the table" % (c.tname or "<indirect call>", c.where())
            for a in c.args:
                if a["k"] == "move" and not a["place"]["proj"] and a["place"]["local"] in holders:
                    holders.discard(a["place"]["local"])
                    if c.tname in (HBT + "into_iter", HBT + "into_iter_from"):
                        continue
                    if c.name in (OPT + "map", OPT + "and_then", OPT + "map_or", OPT + "map_or_else"):
                        # handed to a combinator whose closure / function turns it into an owning iterator
                        fbs = c.closure_args() + c.fn_value_args()
                        if fbs and all(any(x.tname in (HBT + "into_iter", HBT + "into_iter_from") for x in ctx.calls(fb)) for fb in fbs):
                            continue
                        # .. or whose closure only picks the table out of the record (`|old| old.table`): the result holds the table now
                        if c.name == OPT + "map" and len(fbs) == 1 and not [x for x in ctx.calls(fbs[0]) if not fbs[0].is_cleanup(x.loc.bb)] \
                                and c.dest is not None and not c.dest["proj"]:
                            fb = fbs[0]
                            rets = [d for d in fb.defs().get(0, []) if not fb.is_cleanup(d[0].bb)]
                            if len(rets) == 1 and rets[0][1] == "assign" and rets[0][2]["rv"]["k"] == "use" and rets[0][2]["rv"]["op"]["k"] == "move":
                                q = fb.op_path(rets[0][2]["rv"]["op"])
                                if q is not None and q.root == 2 and q.fields() and ro.is_old_place(Path(q.root, q.elems)) or \
                                        (q is not None and q.root == 2 and [e for e in q.elems if e[0] == "field" and e[1] == ro.O and e[2] == ro.O_table]):
                                    holders.add(c.dest["local"])
                                    continue
                    if c.name in ("core::mem::replace", "core::mem::swap"):
                        q = c.arg_path(0)
                        if q is not None and (ro.is_main_place(ctx.resolve(b, q)[1]) or ro.is_old_place(ctx.resolve(b, q)[1])):
                            continue
                    if not empty:
                        return path, "handed by value to %s at %s" % (c.tname or "<indirect>", c.where())
        succs = list(b.succs(x))
        if k == "switch":
            pd = b.op_path(t["discr"])
            if pd is not None and not pd.elems and pd.root in envd and envd[pd.root] is not None:
                tg = [tb for v, tb in t["targets"] if v == envd[pd.root]]
                succs = [tg[0]] if tg else [t["otherwise"]]
            elif t["discr"]["k"] in ("copy", "move") and not t["discr"]["place"]["proj"] and t["discr"]["place"]["local"] in envd:
                v0 = envd[t["discr"]["place"]["local"]]
                tg = [tb for v, tb in t["targets"] if v == v0]
                succs = [tg[0]] if tg else [t["otherwise"]]
        for s_ in succs:
            e2 = empty
            ze = zero_edges.get((x, s_))
            if ze is True:
                e2 = True
            st.append((s_, frozenset(holders), e2, tuple(sorted(envd.items())), path + [s_]))
    return None


def rule_m_keep(ctx):
    R = RuleResult("M-keep", "the table taken out of the main slot when a bigger one is installed is stored as the old table of the pending resize, or "
                   "dropped only after it was found empty, on every non-panicking path (also early error returns): its elements are never dropped "
                   "wholesale; the main slot itself is never overwritten in place; the split table of an existing map is never replaced as a whole")
    for b, loc, c in replacer_sites(ctx):
        if c is None:
            R.inst(fn=b.path, site=b.where(loc), verdict="VIOLATION")
            R.viol("%s:assign" % b.path, b.where(loc), "the main table is overwritten in place: the table that was there is dropped with every element it holds (unproven empty)")
            continue
        holder = None
        if c.name in ("core::mem::replace", "core::mem::take"):
            holder = c.dest["local"] if c.dest is not None and not c.dest["proj"] else None
        elif c.name == "core::mem::swap":
            for i in (0, 1):
                q = c.arg_path(i)
                if q is not None and not ctx.roles.is_main_place(ctx.resolve(b, q)[1]) and not q.fields():
                    holder = q.root
        if holder is None or c.target is None:
            R.inst(fn=b.path, site=c.where(), verdict="VIOLATION")
            R.viol("%s:shape" % b.path, c.where(), "cannot tell where the previous main table goes (unproven)")
            continue
        w = _dropped_nonempty(ctx, b, c.target, holder)
        R.inst(fn=b.path, site=c.where(), previous_main="_%d" % holder, verdict="ok" if w is None else "VIOLATION")
        if w is not None:
            R.viol("%s:previous-main" % b.path, c.where(), "the table taken out of the main slot at %s can be %s without having been found empty or stored as the "
                   "old table (path %s): every element it holds would be dropped by an operation that is not meant to remove anything"
                   % (c.where(), w[1], w[0]))
    R.floor(1, "sites that replace the main table")
    # the split table of an existing map is never replaced as a whole (`mem::replace(&mut self.table, RawTable::new())`, `self.table = fresh`):
    # apart from losing whatever the reasoning above is about, it silently gives up the capacity the caller was promised (with_capacity /
    # reserve: the next n insertions do not reallocate; shrink_to never drops below min(m, capacity)).  Capacity changes hands only in the
    # growth path and in hashbrown's own shrink.
    T_ = ctx.facts.types
    S_ = ctx.roles.S
    nrep = 0
    for b in ctx.facts.bodies.values():
        own = ctx.facts.closure_parent(b)
        if own.name in ("clone_from",):
            continue
        for loc, st in b.all_assigns():
            pl = st["place"]
            if not pl["proj"] or T_[pl["ty"]].get("adt") != S_ or b.is_cleanup(loc.bb):
                continue
            p_ = b.expand(pl)
            if 1 <= p_.root <= b.arg_count or b.kind == "Closure":
                nrep += 1
                R.inst(fn=b.path, site=b.where(loc), verdict="VIOLATION")
                R.viol("%s:replaces-split-table" % b.path, b.where(loc), "%s overwrites the whole split table of an existing map: its capacity (and anything still in it) is "
                       "given up outside the growth / shrink paths" % b.path)
        for c in ctx.calls(b):
            if c.name not in ("core::mem::replace", "core::mem::take", "core::mem::swap") or b.is_cleanup(c.loc.bb):
                continue
            for a_ in c.args[:2 if c.name == "core::mem::swap" else 1]:
                if a_["k"] not in ("copy", "move"):
                    continue
                t_ = T_[a_["place"]["ty"]]
                if t_.get("k") == "ref" and T_[t_["inner"]].get("adt") == S_:
                    p_ = b.op_path(a_)
                    if p_ is not None and (1 <= p_.strip_refs().root <= b.arg_count or b.kind == "Closure") and p_.fields():
                        nrep += 1
                        R.inst(fn=b.path, site=c.where(), verdict="VIOLATION")
                        R.viol("%s:replaces-split-table" % b.path, c.where(), "%s takes the whole split table out of an existing map (%s): its capacity (and anything "
                               "still in it) is given up outside the growth / shrink paths" % (b.path, c.name))
    R.inst(fn="*", check="no function replaces the split table of an existing map as a whole", sites=nrep, verdict="ok" if not nrep else "found")
    return R


WHOLESALE = {HBT + "clear", HBT + "clone_from", HBT + "clone_from_with_hasher", HBT + "clear_no_drop", HBT + "drain"}


def rule_t_drop(ctx):
    R = RuleResult("T-drop", "a pending old table is only discarded (LEFT := None with the previous value dropped) when it is known to hold nothing — on the "
                   "empty edge of a test of its length, or after its cursor ran out — or in an operation that empties or overwrites the whole map "
                   "(clear, clone_from), or when the value taken out is handed on (drain) rather than dropped")
    ts = typestate(ctx)
    for b in ts.bodies:
        ee = old_empty_edges(ctx, b)
        sites = []
        for c in ctx.calls(b):
            if b.is_cleanup(c.loc.bb):
                continue
            if c.name in (OPT + "take", "core::mem::take") and is_self_left(ctx, b, c.arg_path(0)):
                # is the taken value used (handed on), or just dropped?
                used = False
                if c.dest is not None and not c.dest["proj"]:
                    dl = c.dest["local"]
                    for loc2, st2 in b.all_assigns():
                        rv = st2["rv"]
                        ops = [rv.get("op")] + list(rv.get("ops", []))
                        if any(isinstance(o, dict) and o.get("k") == "move" and o["place"]["local"] == dl for o in ops) and not b.is_cleanup(loc2.bb):
                            used = True
                    for c2 in ctx.calls(b):
                        if c2.loc != c.loc and any(a["k"] == "move" and a["place"]["local"] == dl for a in c2.args) \
                                and c2.name not in ("core::mem::drop",) and not b.is_cleanup(c2.loc.bb):
                            used = True
                sites.append((c.loc, "take", used))
            if c.name == "core::mem::replace" and is_self_left(ctx, b, c.arg_path(0)):
                sites.append((c.loc, "replace", False))
        for loc, st in b.all_assigns():
            if b.is_cleanup(loc.bb) or not st["place"]["proj"]:
                continue
            if is_self_left(ctx, b, b.expand(st["place"])):
                from rules_typestate import _opt_value_state
                rv = st["rv"]
                v = None
                if rv["k"] == "aggregate" and rv.get("adt") == "core::option::Option":
                    v = rv["variant"]
                elif rv["k"] == "use":
                    v = {N: "None", S: "Some"}.get(_opt_value_state(b, rv["op"]))
                if v == "None":
                    sites.append((loc, "assign None", False))
        if not sites:
            continue
        wholesale = any(c.tname in WHOLESALE and ctx.role(b, c.arg_path(0)) == MAIN for c in ctx.calls(b) if not b.is_cleanup(c.loc.bb))
        # edges on which the old table is known to hold nothing
        ok_edges = {e for e, v in ee.items() if v is True}
        for c in ctx.calls(b):
            if c.tname == HBI + "next" and ctx.role(b, c.arg_path(0)) == CURSOR and c.dest is not None and not b.is_cleanup(c.loc.bb):
                from rules_typestate import option_test_edges
                dl = c.dest["local"]
                ok_edges |= {e for e, v in option_test_edges(ctx, b, lambda p, dl=dl: p.root == dl and not p.fields(), ignore_debug=False).items() if v == N}
        from rules_typestate import takers, option_test_edges as ote
        tk = takers(ctx)
        for c in ctx.calls(b):
            lc = c.local_callee()
            if lc is not None and lc.path in tk and c.dest is not None and not b.is_cleanup(c.loc.bb):
                # a helper that takes the cursor's next element out of the old table: its None means the cursor ran out
                dl = c.dest["local"]
                ok_edges |= {e for e, v in ote(ctx, b, lambda p, dl=dl: p.root == dl and not p.fields(), ignore_debug=False).items() if v == N}
        # entering the function with no old table pending also makes the discard vacuous
        left_edges = left_test_edges(ctx, b, ignore_debug=False)
        ok_edges |= {e for e, v in left_edges.items() if v == N}
        for loc, how, used in sites:
            key = "%s:%s" % (b.path, how.replace(" ", "-"))
            if used:
                # the old table is taken out and kept: it must end up in an owning iterator, or back in the map, without being dropped
                # non-empty on the way and without user code running while a local variable owns it
                cc = ctx.call_at(b, loc.bb)
                w = None
                if cc is not None and cc.dest is not None and not cc.dest["proj"] and cc.target is not None:
                    w = _dropped_nonempty(ctx, b, cc.target, cc.dest["local"], no_user_code=True)
                R.inst(fn=b.path, site=b.where(loc), how=how, verdict="ok: the old table is handed on, not dropped" if w is None else "VIOLATION")
                if w is not None:
                    R.viol(key + ":held", b.where(loc), "the old table taken out of the map at %s is %s (path %s)" % (b.where(loc), w[1], w[0]))
                continue
            if wholesale:
                R.inst(fn=b.path, site=b.where(loc), how=how, verdict="ok: the operation empties or overwrites the whole map")
                continue
            # every path from the entry to the discard crosses an ok edge
            seen = set()
            stack = [(0, [0])]
            w = None
            while stack and w is None:
                x, p = stack.pop()
                if x in seen:
                    continue
                seen.add(x)
                if x == loc.bb:
                    w = p
                    break
                for s_ in b.succs(x):
                    if (x, s_) in ok_edges:
                        continue
                    stack.append((s_, p + [s_]))
            R.inst(fn=b.path, site=b.where(loc), how=how, verdict="ok: only when the old table holds nothing" if w is None else "VIOLATION")
            if w is not None:
                R.viol(key, b.where(loc), "the pending old table is discarded (%s) on a path (%s) where it is not known to be empty: the elements still waiting "
                       "in it would be dropped" % (how, " -> ".join("bb%d" % x for x in w)))
    R.floor(3, "sites that discard the old table")
    return R
