"""Role discovery (DESIGN §3): anchor rules on type structure, never on private names.

Fails closed (AnalysisError) when a role is not found or not unique.
"""
from core import AnalysisError, Path

HB_TABLE = "hashbrown::raw::RawTable"
HB_ITER = "hashbrown::raw::RawIter"
HB_BUCKET = "hashbrown::raw::Bucket"
HB_INTO = "hashbrown::raw::RawIntoIter"
HB_DRAIN = "hashbrown::raw::RawDrain"
HB_PAR = "hashbrown::raw::rayon::RawParIter"
HB_PAR_INTO = "hashbrown::raw::rayon::RawIntoParIter"
HB_PAR_DRAIN = "hashbrown::raw::rayon::RawParDrain"
OPTION = "core::option::Option"

MAIN, LEFT, OLD, CURSOR = "MAIN", "LEFT", "OLD", "CURSOR"


class Roles:
    def __init__(self, facts):
        self.facts = facts
        T = facts.types

        def fty(f):
            return T[f["ty"]]

        def is_adt(t, path):
            return t.get("k") == "adt" and t.get("adt") == path

        def opt_inner(t):
            if is_adt(t, OPTION) and t["args"]:
                return T[t["args"][0]]
            return None

        # --- old-table record O: struct with RawTable<T> field and RawIter<T> field
        cands = []
        for a in facts.adts.values():
            if a["kind"] != "Struct":
                continue
            fs = a["variants"][0]["fields"]
            ti = [i for i, f in enumerate(fs) if is_adt(fty(f), HB_TABLE)]
            ii = [i for i, f in enumerate(fs) if is_adt(fty(f), HB_ITER)]
            if len(ti) == 1 and len(ii) == 1:
                cands.append((a, ti[0], ii[0]))
        if len(cands) != 1:
            raise AnalysisError("role O (old-table record: RawTable + RawIter) not unique: %s" % [c[0]["path"] for c in cands])
        self.O, self.O_table, self.O_iter = cands[0][0]["path"], cands[0][1], cands[0][2]

        # --- split table S: struct with bare RawTable<T> and Option<O>
        cands = []
        for a in facts.adts.values():
            if a["kind"] != "Struct":
                continue
            fs = a["variants"][0]["fields"]
            mi = [i for i, f in enumerate(fs) if is_adt(fty(f), HB_TABLE)]
            li = [i for i, f in enumerate(fs) if opt_inner(fty(f)) is not None and is_adt(opt_inner(fty(f)), self.O)]
            if len(mi) == 1 and len(li) == 1:
                cands.append((a, mi[0], li[0]))
        if len(cands) != 1:
            raise AnalysisError("role S (split table: RawTable + Option<O>) not unique: %s" % [c[0]["path"] for c in cands])
        self.S, self.S_main, self.S_left = cands[0][0]["path"], cands[0][1], cands[0][2]

        # --- located bucket B: struct with hashbrown Bucket<T> and a bool
        cands = []
        for a in facts.adts.values():
            if a["kind"] != "Struct":
                continue
            fs = a["variants"][0]["fields"]
            bi = [i for i, f in enumerate(fs) if is_adt(fty(f), HB_BUCKET)]
            fi = [i for i, f in enumerate(fs) if fty(f).get("k") == "bool"]
            if len(bi) == 1 and len(fi) == 1 and len(fs) == 2:
                cands.append((a, bi[0], fi[0]))
        if len(cands) != 1:
            raise AnalysisError("role B (located bucket: Bucket + bool) not unique: %s" % [c[0]["path"] for c in cands])
        self.B, self.B_bucket, self.B_flag = cands[0][0]["path"], cands[0][1], cands[0][2]

        # --- composite iterators: bare X and Option<X'> of hashbrown iterator families
        fam = {HB_ITER: "iter", HB_INTO: "into", HB_DRAIN: "drain", HB_PAR: "par", HB_PAR_INTO: "par_into", HB_PAR_DRAIN: "par_drain"}
        self.composites = {}  # adt path -> dict(main=i, old=i, family)
        for a in facts.adts.values():
            if a["kind"] != "Struct":
                continue
            fs = a["variants"][0]["fields"]
            bare = [(i, fam[fty(f)["adt"]]) for i, f in enumerate(fs) if fty(f).get("adt") in fam]
            opt = [(i, fam[opt_inner(fty(f))["adt"]]) for i, f in enumerate(fs)
                   if opt_inner(fty(f)) is not None and opt_inner(fty(f)).get("adt") in fam]
            if len(bare) == 1 and len(opt) == 1:
                self.composites[a["path"]] = {"main": bare[0][0], "old": opt[0][0], "family": bare[0][1], "old_family": opt[0][1]}
        # rayon composite: bare RawParIter-like is built on the fly; record ADTs over &S for the parallel module
        if len(self.composites) < 3:
            raise AnalysisError("expected >=3 composite iterator ADTs (by-ref, owning, draining), found %s" % list(self.composites))

        # --- handles: exported ADTs that directly contain a B field
        self.handles = {}
        for a in facts.adts.values():
            for v in a["variants"]:
                for i, f in enumerate(v["fields"]):
                    if is_adt(fty(f), self.B):
                        self.handles[a["path"]] = i
        # user-visible map/set ADTs: ones that contain S
        self.holders = {}
        for a in facts.adts.values():
            if a["path"] == self.S or a["kind"] != "Struct":
                continue
            for i, f in enumerate(a["variants"][0]["fields"]):
                if is_adt(fty(f), self.S):
                    self.holders[a["path"]] = i

    # ------------------------------------------------------------------
    def classify(self, path):
        """Role tokens along an origin path.  Returns list of (token, index_in_elems)."""
        out = []
        for n, e in enumerate(path.elems):
            if e[0] != "field":
                continue
            adt, idx = e[1], e[2]
            if adt == self.S:
                out.append((MAIN if idx == self.S_main else LEFT if idx == self.S_left else "S?", n))
            elif adt == self.O:
                out.append((OLD if idx == self.O_table else CURSOR if idx == self.O_iter else "O?", n))
            elif adt == self.B:
                out.append(("BKT" if idx == self.B_bucket else "FLAG", n))
            elif adt in self.composites:
                c = self.composites[adt]
                out.append(("IT_MAIN" if idx == c["main"] else "IT_OLD" if idx == c["old"] else "IT?", n))
        return out

    def role(self, path):
        """last table-ish role on the path: MAIN / LEFT / OLD / CURSOR / IT_MAIN / IT_OLD or None"""
        toks = [t for t, _ in self.classify(path) if t in (MAIN, LEFT, OLD, CURSOR, "IT_MAIN", "IT_OLD")]
        return toks[-1] if toks else None

    def s_prefix(self, path):
        """The path of the S value this path goes through (up to, not including, the S field), or None."""
        for n, e in enumerate(path.elems):
            if e[0] == "field" and e[1] == self.S:
                return Path(path.root, path.elems[:n])
        return None

    def is_left_place(self, path):
        """path denotes exactly S.LEFT (the Option) — not something inside it"""
        f = [e for e in path.elems if e[0] in ("field", "downcast")]
        return bool(f) and f[-1][0] == "field" and f[-1][1] == self.S and f[-1][2] == self.S_left

    def is_main_place(self, path):
        f = [e for e in path.elems if e[0] in ("field", "downcast")]
        return bool(f) and f[-1][0] == "field" and f[-1][1] == self.S and f[-1][2] == self.S_main

    def is_old_place(self, path):
        f = [e for e in path.elems if e[0] in ("field", "downcast")]
        return bool(f) and f[-1][0] == "field" and f[-1][1] == self.O and f[-1][2] == self.O_table

    def is_cursor_place(self, path):
        f = [e for e in path.elems if e[0] in ("field", "downcast")]
        return bool(f) and f[-1][0] == "field" and f[-1][1] == self.O and f[-1][2] == self.O_iter

    def ty_is(self, tid, adt, through_ref=True):
        t = self.facts.types[tid]
        while through_ref and t.get("k") in ("ref", "ptr"):
            t = self.facts.types[t["inner"]]
        return t.get("k") == "adt" and t.get("adt") == adt

    def describe(self):
        return {
            "S": self.S, "O": self.O, "B": self.B,
            "composites": {k: v["family"] for k, v in self.composites.items()},
            "handles": sorted(self.handles),
            "holders": sorted(self.holders),
        }
