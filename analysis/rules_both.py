"""E1 — BOTH: two-table symmetry.  Whatever is done to the main table must account for the old table (DESIGN §5/E1)."""
from core import Loc, Path
from engine import RuleResult, MAIN, LEFT, OLD, CURSOR
from rules_protocol import hb_calls, HBT, HBI, between_blocks
from rules_typestate import (self_s_prefix, is_self_left, is_self_s, left_test_edges, _must_pass, _left_cleared_blocks, OPT, N, S,
                             replacer_sites, movers)

TABLE_WIDE = {HBT + x for x in ("find", "get", "get_mut", "len", "clear", "iter", "drain", "into_iter_from", "clone", "clone_from",
                                "clone_from_with_hasher", "shrink_to", "reserve", "try_reserve", "insert_no_grow", "insert", "is_empty",
                                "par_iter", "into_iter", "retain", "drain_filter")}


def touches_left_bodies(ctx):
    """bodies (methods of S and closures in them) that read or write LEFT of their self S, transitively through griddle calls"""
    def build():
        direct = set()
        for b in ctx.facts.bodies.values():
            if _reads_left_blocks(ctx, b, None):
                direct.add(b.path)
        # transitive: calls a local callee with self S that touches
        changed = True
        while changed:
            changed = False
            for b in ctx.facts.bodies.values():
                if b.path in direct:
                    continue
                for c in ctx.calls(b):
                    lc = c.local_callee()
                    if lc is not None and lc.path in direct and c.args and is_self_s_any(ctx, b, c.arg_path(0)):
                        direct.add(b.path)
                        changed = True
                        break
        return direct
    return ctx.memo("touches_left", build)


def is_self_s_any(ctx, body, path):
    """path is (a reborrow of) an S value (any root)"""
    if path is None:
        return False
    toks = ctx.roles.classify(path)
    return not toks or all(t not in (MAIN, LEFT, OLD, CURSOR) for t, _ in toks)


def _reads_left_blocks(ctx, body, touching):
    """blocks of body in which LEFT (of any S reachable in this body) is read: discriminant, Option method on it, move out,
    closure capturing it, or a call of a griddle function that touches LEFT with the S as receiver"""
    out = set()
    ro = ctx.roles
    for bb in body.reachable():
        if body.is_cleanup(bb):
            continue
        for st in body.stmts(bb):
            if st["k"] != "assign":
                continue
            rv = st["rv"]
            places = []
            if rv["k"] in ("discr", "ref", "rawptr", "copy_for_deref"):
                places.append(rv["place"])
            elif rv["k"] == "use" and rv["op"]["k"] in ("copy", "move"):
                places.append(rv["op"]["place"])
            elif rv["k"] == "aggregate":
                for o in rv["ops"]:
                    if o["k"] in ("copy", "move"):
                        places.append(o["place"])
            for pl in places:
                p = body.expand(pl)
                _, p2 = ctx.resolve(body, p)
                if any(t in (LEFT, OLD, CURSOR) for t, _ in ro.classify(p2)):
                    out.add(bb)
        t = body.term(bb)
        if t["k"] == "call":
            c = ctx.call_at(body, bb)
            for i, a in enumerate(c.args):
                p = c.arg_path(i)
                if p is None:
                    continue
                _, p2 = ctx.resolve(body, p)
                if any(t_ in (LEFT, OLD, CURSOR) for t_, _ in ro.classify(p2)):
                    out.add(bb)
            if touching is not None:
                lc = c.local_callee()
                if lc is not None and lc.path in touching and c.args:
                    out.add(bb)
        elif t["k"] == "drop":
            p = body.expand(t["place"])
            if any(t_ in (LEFT, OLD, CURSOR) for t_, _ in ro.classify(p)):
                out.add(bb)
    return out


def rule_b_any(ctx):
    R = RuleResult("B-any", "a body that applies a table-wide or key-directed hashbrown operation to the main table also accounts for the old table "
                   "on every path from entry to a normal return through that operation")
    touching = touches_left_bodies(ctx)
    reps = {b.path for b, _, _ in replacer_sites(ctx)}
    reps |= {b.path for b, _ in ctx.memo("empty_swaps", list)}      # `if both empty and unsplit { self.main = t }`: the length is a guard, not an answer
    seen = set()
    for body, c, role, recv in hb_calls(ctx):
        if role != MAIN or c.tname not in TABLE_WIDE:
            continue
        owner = ctx.facts.closure_parent(body)
        if owner.path in reps:
            continue   # replacer: T-grow proves LEFT = None there
        key = "%s:%s" % (body.path, c.tname)
        rl = _reads_left_blocks(ctx, body, touching)
        ok = True
        witness = None
        if c.tname in (HBT + "find", HBT + "get", HBT + "get_mut"):
            # key-directed lookup: a hit may return at once; the miss path is B-find's business.  Here: the old table is consulted at all.
            after = body.reach_from([c.target]) if c.target is not None else set()
            if not (rl & after) and c.loc.bb not in rl:
                ok = False
                witness = [c.loc.bb]
        elif c.loc.bb not in rl:
            # path entry -> call avoiding rl, and call -> return avoiding rl
            pre = body.paths_avoiding([0], rl, [c.loc.bb])
            # a path that goes on to *find the key* in the main table may return the hit at once, whatever it asked the table before
            hit_edges = set()
            for c9 in ctx.calls(body):
                if c9.tname in (HBT + "find", HBT + "get", HBT + "get_mut") and c9.dest is not None and not c9.dest["proj"] \
                        and ctx.role(body, c9.arg_path(0)) == MAIN and not body.is_cleanup(c9.loc.bb):
                    from rules_typestate import option_test_edges, S as S__
                    dl9 = c9.dest["local"]
                    hit_edges |= {e for e, v in option_test_edges(ctx, body, lambda p_, dl9=dl9: p_.root == dl9 and not p_.fields(), ignore_debug=False).items() if v == S__}
            post = _must_pass(body, [c.target], rl, hit_edges) if c.target is not None else None
            if pre is not None and post is not None:
                ok = False
                witness = pre + post
        # closures: the parent must account if the closure itself does not
        if not ok and body.kind == "Closure":
            site = ctx.closure_sites().get(body.dpath)
            if site is not None:
                pb = site[0]
                prl = _reads_left_blocks(ctx, pb, touching)
                if prl:
                    ok = True
        R.inst(fn=body.path, site=c.where(), op=c.tname, verdict="ok" if ok else "VIOLATION")
        if not ok:
            R.viol(key, c.where(), "%s is applied to the main table in %s on a path (%s) that never looks at the old table: elements still parked there are ignored"
                   % (c.tname, body.path, " -> ".join("bb%d" % x for x in witness)))
    R.floor(8, "table-wide operations on MAIN")
    return R


def rule_b_find(ctx):
    R = RuleResult("B-find", "a key lookup that misses in the main table consults the old table before reporting absence (whenever an old table is pending)")
    n = 0
    for body, c, role, recv in hb_calls(ctx):
        if role != MAIN or c.tname not in (HBT + "find", HBT + "get", HBT + "get_mut"):
            continue
        n += 1
        key = "%s:%s" % (body.path, c.tname)
        # miss edge: switch on discriminant of the result; edges other than Some(1)
        dest = c.dest["local"]
        miss_starts = []
        for bb in body.reachable():
            t = body.term(bb)
            if t["k"] != "switch":
                continue
            d = body.source_def(t["discr"])
            if d is None or d[1] != "assign" or d[2]["rv"]["k"] != "discr":
                continue
            p = body.expand(d[2]["rv"]["place"])
            if p.root == dest and not p.fields():
                for s_ in body.succs(bb):
                    if not any(v == 1 and tb == s_ for v, tb in t["targets"]):
                        miss_starts.append(s_)
        if not miss_starts:
            # result returned directly without inspecting: then the old table cannot have been consulted on a miss
            R.inst(fn=body.path, site=c.where(), verdict="VIOLATION")
            R.viol(key + ":unchecked", c.where(), "result of the main-table lookup is not inspected: a miss cannot fall back to the old table")
            continue
        old_finds = set()
        hash_main = body.op_path(c.args[1]) if len(c.args) > 1 else None
        for b2, c2, role2, _ in hb_calls(ctx):
            if role2 == OLD and c2.tname in (HBT + "find", HBT + "get", HBT + "get_mut") and ctx.facts.closure_parent(b2).path == body.path:
                if b2 is body:
                    h2 = body.op_path(c2.args[1])
                    if hash_main is not None and h2 is not None and h2.key() != hash_main.key():
                        R.viol(key + ":hash", c2.where(), "old-table lookup uses a different hash value than the main-table lookup")
                    old_finds.add(c2.loc.bb)
                else:
                    # the old-table lookup sits in a closure handed to a combinator on the pending-resize field
                    # (`self.leftovers.as_ref().and_then(|lo| lo.table.find(hash, eq))`): the combinator call consults the old table
                    # whenever one is pending, provided the closure performs the lookup on every path
                    if not all(c2.loc.bb == rb or c2.loc.bb in b2.dom().get(rb, set()) for rb in b2.return_blocks()):
                        continue
                    for c3 in ctx.calls(body):
                        if c3.name in (OPT + "and_then", OPT + "map", OPT + "map_or", OPT + "map_or_else") and b2 in c3.closure_args() and not body.is_cleanup(c3.loc.bb):
                            src = c3.arg_path(0)
                            sd = body.source_def(c3.args[0])
                            from_left = src is not None and ctx.roles.is_left_place(src)
                            if sd is not None and sd[1] == "call":
                                sc = ctx.call_at(body, sd[0].bb)
                                if sc.name in (OPT + "as_ref", OPT + "as_mut") and sc.arg_path(0) is not None and ctx.roles.is_left_place(sc.arg_path(0)):
                                    from_left = True
                            if from_left:
                                old_finds.add(c3.loc.bb)
        edges = left_test_edges(ctx, body)
        ok_edges = {e for e, v in edges.items() if v == N}
        # .. or found empty: an old table without elements cannot hold the key
        from rules_typestate import old_empty_edges
        ok_edges |= {e for e, v in old_empty_edges(ctx, body).items() if v is True}
        w = _must_pass(body, miss_starts, old_finds, ok_edges)
        R.inst(fn=body.path, site=c.where(), old_lookups=len(old_finds), verdict="ok" if w is None else "VIOLATION")
        if w is not None:
            R.viol(key + ":miss", c.where(), "after a miss in the main table %s can return (path %s) without searching the old table although one may be pending"
                   % (body.path, " -> ".join("bb%d" % x for x in w)))
    R.floor(1, "key lookups on MAIN")
    return R


def _calls_in_slice(ctx, body, locs):
    out = []
    for l in locs:
        if l.i == len(body.stmts(l.bb)) and body.term(l.bb)["k"] == "call":
            out.append(ctx.call_at(body, l.bb))
    return out


def slice_calls_deep(ctx, body, loc, operands, depth=0):
    """calls contributing to operands, following closures passed to combinators (their bodies' return slices)"""
    s, args = body.slice_back(loc, operands)
    calls = _calls_in_slice(ctx, body, s)
    out = list(calls)
    if depth < 3:
        for c in calls:
            lc = c.local_callee()
            if lc is not None and lc.kind != "Closure" and not lc.loops():
                for rb in lc.return_blocks():
                    ret_op = {"k": "copy", "place": {"local": 0, "proj": [], "ty": lc.locals[0]["ty"]}}
                    out.extend(slice_calls_deep(ctx, lc, Loc(rb, len(lc.stmts(rb))), [ret_op], depth + 1))
            for cb in c.closure_args() + c.fn_value_args():
                for rb in cb.return_blocks():
                    # slice of the closure's (or named function's) return value
                    ret_op = {"k": "copy", "place": {"local": 0, "proj": [], "ty": cb.locals[0]["ty"]}}
                    out.extend(slice_calls_deep(ctx, cb, Loc(rb, len(cb.stmts(rb))), [ret_op], depth + 1))
    return out


def rule_b_len(ctx):
    R = RuleResult("B-len", "the element count is the sum of both tables' counts: the returned value data-depends on len() of the main table and len() of the old table through an addition")
    n = 0
    for body, c, role, recv in hb_calls(ctx):
        if role != MAIN or c.tname != HBT + "len" or body.kind == "Closure":
            continue
        if self_s_prefix(ctx, body) is None:
            continue
        # is it "the len function": returns usize and the len() result flows to the return value
        if ctx.facts.types[body.locals[0]["ty"]]["s"] != "usize":
            continue
        flows = False
        for rb in body.return_blocks():
            ret_op = {"k": "copy", "place": {"local": 0, "proj": [], "ty": body.locals[0]["ty"]}}
            calls = slice_calls_deep(ctx, body, Loc(rb, len(body.stmts(rb))), [ret_op])
            if any(x.loc == c.loc and x.body is body for x in calls):
                flows = True
                old_len = [x for x in calls if x.tname == HBT + "len" and ctx.role(x.body, x.arg_path(0)) == OLD]
                # .. or the length of the table an accessor of the split table hands out: self.old_table().map_or(0, |t| t.len())
                from rules_size import _old_table_accessors, _yields_len_of_param, _pending_len_fns
                for x in calls:
                    lcx = x.local_callee()
                    if x.body is body and lcx is not None and lcx.path in _pending_len_fns(ctx) and is_self_s(ctx, body, x.arg_path(0)):
                        old_len.append(x)        # `self.pending_moves()`: the old table's length, or 0 when there is none
                        continue
                    if x.body is body and x.name in (OPT + "map_or", OPT + "map") and (x.closure_args() or x.fn_value_args()):
                        sd = body.source_def(x.args[0])
                        if sd is not None and sd[1] == "call":
                            sc = ctx.call_at(body, sd[0].bb)
                            lc = sc.local_callee()
                            if lc is not None and lc.path in _old_table_accessors(ctx) and is_self_s(ctx, body, sc.arg_path(0)) \
                                    and _yields_len_of_param(ctx, (x.closure_args() + x.fn_value_args())[0]):
                                old_len.append(x)
                s, _ = body.slice_back(Loc(rb, len(body.stmts(rb))), [ret_op])
                adds = [l for l in s if l.i < len(body.stmts(l.bb)) and body.stmts(l.bb)[l.i]["rv"]["k"] == "binop" and body.stmts(l.bb)[l.i]["rv"]["op"].startswith("Add")]
                n += 1
                ok = bool(old_len) and bool(adds)
                R.inst(fn=body.path, site=c.where(), old_len_sites=[x.where() for x in old_len], adds=len(adds), verdict="ok" if ok else "VIOLATION")
                if not ok:
                    R.viol("%s:len" % body.path, c.where(), "the count returned by %s does not add the old table's len()" % body.path)
    if n < 1:
        R.anchor("len", "no body returning MAIN.len() found")
    return R


def rule_b_clear(ctx):
    R = RuleResult("B-clear", "clearing / re-filling the main table wholesale drops the old table on every path (clear, clone_from)")
    n = 0
    for body, c, role, recv in hb_calls(ctx):
        if role != MAIN or c.tname not in (HBT + "clear", HBT + "clone_from", HBT + "clone_from_with_hasher", HBT + "clear_no_drop"):
            continue
        n += 1
        cleared = _left_cleared_blocks(ctx, body)
        pre = body.paths_avoiding([0], cleared, [c.loc.bb])
        post = _must_pass(body, [c.target], cleared, set()) if c.target is not None else None
        ok = not (pre is not None and post is not None)
        refill = c.tname in (HBT + "clone_from", HBT + "clone_from_with_hasher")
        if ok and refill and pre is not None:
            # re-filling runs user code (T::clone): if that panics after the main table was overwritten but before the old table is
            # dropped, the map is left with the new contents *and* its stale old table (duplicate keys, no headroom)
            R.inst(fn=body.path, site=c.where(), op=c.tname, verdict="VIOLATION")
            R.viol("%s:%s:late" % (body.path, c.tname), c.where(), "%s overwrites the main table with clones (user code that may panic) on a path (%s) where the "
                   "destination's own old table has not been dropped yet: an interrupted clone_from would leave both in the map"
                   % (c.tname, " -> ".join("bb%d" % x for x in pre)))
            continue
        R.inst(fn=body.path, site=c.where(), op=c.tname, verdict="ok" if ok else "VIOLATION")
        if not ok:
            R.viol("%s:%s" % (body.path, c.tname), c.where(), "%s empties/overwrites the main table but a path (%s) never drops the old table: its elements stay in the map"
                   % (c.tname, " -> ".join("bb%d" % x for x in pre + post)))
    R.floor(2, "wholesale clear/clone_from of MAIN")
    return R


def rule_b_drain(ctx):
    R = RuleResult("B-drain", "drain takes the old table out of the map when the iterator is constructed (Option::take), so a forgotten drain leaves no old table behind")
    ro = ctx.roles
    n = 0
    for b in ctx.facts.bodies.values():
        for loc, st in b.all_assigns():
            rv = st["rv"]
            if rv["k"] != "aggregate" or rv.get("adt") not in ro.composites or ro.composites[rv["adt"]]["family"] != "drain":
                continue
            n += 1
            comp = ro.composites[rv["adt"]]
            calls = slice_calls_deep(ctx, b, loc, [rv["ops"][comp["old"]]])
            took = [c for c in calls if c.name in (OPT + "take", "core::mem::take", "core::mem::replace") and is_self_left(ctx, c.body, c.arg_path(0))]
            R.inst(fn=b.path, site=b.where(loc), took=[c.where() for c in took], verdict="ok" if took else "VIOLATION")
            if not took:
                R.viol("%s:drain" % b.path, b.where(loc), "the draining iterator's old side is not obtained by taking the old table out of the map")
    R.floor(1, "draining-iterator constructions")
    return R


def rule_b_into(ctx):
    R = RuleResult("B-into", "a consuming iterator over the old table is built from the old table together with *its own* cursor")
    n = 0
    for body, c, role, recv in hb_calls(ctx):
        if c.tname != HBT + "into_iter_from":
            continue
        if role == OLD:
            n += 1
            p1 = c.arg_path(1)
            _, p1r = ctx.resolve(body, p1) if p1 is not None else (None, None)
            _, r0 = ctx.resolve(body, recv)
            from rules_protocol import _o_prefix
            ok = p1r is not None and ctx.roles.is_cursor_place(p1r) and _o_prefix(ctx, p1r) == _o_prefix(ctx, r0)
            if not ok and p1 is not None:
                # .. or the old half of a by-reference iterator that was handed in (`unsafe fn into_iter_from(self, iter: RawIter<T>)`, whose
                # contract is `iter == self.iter()`): that half is a clone of the cursor (K-field decides how such iterators are built)
                from rules_colour import path_role
                own = ctx.facts.closure_parent(body)
                if path_role(ctx, body, p1) == OLD and own.raw.get("unsafe"):
                    ok = True
            R.inst(fn=body.path, site=c.where(), verdict="ok" if ok else "VIOLATION")
            if not ok:
                R.viol("%s:into_iter_from:old" % body.path, c.where(), "old table is consumed with an iterator that is not the cursor cached next to it")
        elif role == MAIN:
            p1 = c.arg_path(1)
            side = None
            if p1 is not None:
                from rules_colour import path_role
                side = path_role(ctx, body, p1)
            R.inst(fn=body.path, site=c.where(), iterator_side=side, verdict="ok" if side == MAIN else "VIOLATION")
            if side != MAIN:
                R.viol("%s:into_iter_from:main" % body.path, c.where(), "main table is consumed with an iterator of %s" % (side or "unknown provenance"))
    if n < 1:
        R.anchor("old-into", "expected a consuming construction over the old table, found %d" % n)
    # every owning composite iterator (into_iter, drain) gets its old side from such a construction
    ro = ctx.roles
    m = 0
    for b in ctx.facts.bodies.values():
        for loc, st in b.all_assigns():
            rv = st["rv"]
            if rv["k"] != "aggregate" or rv.get("adt") not in ro.composites or ro.composites[rv["adt"]]["family"] not in ("into", "drain"):
                continue
            m += 1
            comp = ro.composites[rv["adt"]]
            calls = slice_calls_deep(ctx, b, loc, [rv["ops"][comp["old"]]])
            src = [c for c in calls if c.tname == HBT + "into_iter_from" and ctx.role(c.body, c.arg_path(0)) == OLD]
            R.inst(fn=b.path, site=b.where(loc), composite=rv["adt"], old_side_from=[c.where() for c in src], verdict="ok" if src else "VIOLATION")
            if not src:
                R.viol("%s:old-side:%s" % (b.path, rv["adt"]), b.where(loc), "the old side of the owning iterator %s is not built by consuming the old table with its own cursor" % rv["adt"])
    if m < 2:
        R.anchor("owning-composites", "expected >= 2 constructions of owning composite iterators (into_iter, drain), found %d" % m)
    return R


def composite_methods(ctx):
    """(adt path, method name, Body) for inherent/trait methods whose self type is a composite iterator"""
    out = []
    T = ctx.facts.types
    for b in ctx.facts.bodies.values():
        if b.kind == "Closure" or "self_ty" not in b.raw:
            continue
        st = T[b.raw["self_ty"]]
        if st.get("k") == "adt" and st["adt"] in ctx.roles.composites:
            out.append((st["adt"], b.name, b))
    return out


def _sides_touched(ctx, body):
    """which sides of a composite self does the body (incl. its closures) touch"""
    sides = set()
    for bd in [body] + ctx.facts.closures_of(body):
        for bb in bd.reachable():
            if bd.is_cleanup(bb):
                continue
            places = []
            for st in bd.stmts(bb):
                if st["k"] == "assign":
                    rv = st["rv"]
                    if "place" in rv:
                        places.append(rv["place"])
                    if rv["k"] == "use" and rv["op"]["k"] in ("copy", "move"):
                        places.append(rv["op"]["place"])
                    if rv["k"] == "aggregate":
                        places += [o["place"] for o in rv["ops"] if o["k"] in ("copy", "move")]
            t = bd.term(bb)
            if t["k"] == "call":
                places += [a["place"] for a in t["args"] if a["k"] in ("copy", "move")]
            for pl in places:
                p = bd.expand(pl)
                _, p2 = ctx.resolve(bd, p)
                for tok, _ in ctx.roles.classify(p2):
                    if tok in ("IT_MAIN", "IT_OLD"):
                        sides.add(tok)
    return sides


def rule_b_comp(ctx):
    R = RuleResult("B-comp", "every method of a composite iterator that touches its main side also touches its old side; owning iterators return "
                   "None only after the old side is exhausted or absent and the main side returned None; size_hint is decided exactly over a four-atom algebra "
                   "(main.lower + old.lower, main.upper + old.upper with the old side present, the main side's own hint with it absent: I-sum); a method that "
                   "drives both sides itself (fold ..) visits them in next()'s order")
    ro = ctx.roles
    n = 0
    for adt, name, b in composite_methods(ctx):
        sides = _sides_touched(ctx, b)
        if name not in ("next", "size_hint", "clone", "iter", "len", "drive_unindexed", "fold"):
            if ro.composites[adt]["family"] in ("iter", "into", "drain") and sides:
                k_ = "%s:%s" % (b.path, name)
                det = {}
                if _takes_callback(ctx, b):
                    # a method that hands the elements to a caller's function itself (for_each, try_fold, ..) visits the sides in next()'s order
                    det = _check_visit_order(ctx, R, adt, b, k_)
                elif name == "last":
                    det = _exact_last(ctx, R, adt, b, k_)
                elif name == "count":
                    det = _exact_count(ctx, R, adt, b, k_)
                R.inst(fn=b.path, adt=adt, method=name, sides=sorted(sides), verdict="ok" if not [v for v in R.violations if v.key.startswith(k_ + ":")] else "VIOLATION", **det)
            continue
        n += 1
        key = "%s:%s" % (b.path, name)
        ok = not ("IT_MAIN" in sides and "IT_OLD" not in sides)
        verdict = "ok"
        if not ok:
            verdict = "VIOLATION"
            R.viol(key + ":one-sided", b.where(Loc(0, 0)), "%s touches the main-side iterator but never the old-side one" % b.path)
        # delegation: size_hint via iter()
        detail = {}
        if name == "size_hint":
            detail = _check_size_hint(ctx, R, adt, b, key)
        if name == "next" and ro.composites[adt]["family"] in ("into", "drain"):
            detail = _check_owning_next(ctx, R, adt, b, key)
        if name == "next" and ro.composites[adt]["family"] == "iter":
            detail = _check_byref_next(ctx, R, adt, b, key)
        if name == "fold" and ro.composites[adt]["family"] in ("iter", "into", "drain"):
            detail = _check_visit_order(ctx, R, adt, b, key)
        if [v for v in R.violations if v.key.startswith(key + ":")]:
            verdict = "VIOLATION"
        R.inst(fn=b.path, adt=adt, method=name, sides=sorted(sides), verdict=verdict, **detail)
    R.floor(6, "composite-iterator methods")
    return R


def _takes_callback(ctx, b):
    T = ctx.facts.types
    for l in range(2, b.arg_count + 1):
        t = T[b.locals[l]["ty"]]
        if t.get("k") in ("param", "closure", "fnptr", "fndef"):
            return True
    return False


def _side_polls(ctx, b, methods):
    """calls of one of `methods` on a side of the composite, in b or its closures: ({(body path, bb): side}, list of calls)"""
    out, calls = {}, []
    for bd in [b] + ctx.facts.closures_of(b):
        for c in ctx.calls(bd):
            if bd.is_cleanup(c.loc.bb) or c.method not in methods or not c.args or c.args[0]["k"] not in ("copy", "move"):
                continue
            side = _side_of_receiver(ctx, bd, c)
            if side in ("IT_MAIN", "IT_OLD"):
                out[(bd.path, c.loc.bb)] = side
                calls.append(c)
    return out, calls


def _exact_last(ctx, R, adt, b, key):
    """last() of a composite iterator, decided exactly: it is the last element of next()'s sequence — the second-visited side's last element
    when that side is present and has one, else the first-visited side's."""
    from hintexec import HintExec, Inconclusive, UNK, NONE
    from rules_typestate import N as N__
    fam = ctx.roles.composites[adt]["family"]
    second, first = ("O", "M") if fam == "iter" else ("M", "O")
    polls, calls = _side_polls(ctx, b, ("last",))
    if not polls:
        return {"last": "not decided (no last() on a side)"}
    mv = {k: ("opt", "ML") for k, sd in polls.items() if sd == "IT_MAIN"}
    ov = {k: ("opt", "OL") for k, sd in polls.items() if sd == "IT_OLD"}
    try:
        hx = HintExec(ctx, b, [], [], _old_field_edges(ctx, b), main_vals=mv, old_vals=ov)
        results = hx.run()
    except (Inconclusive, RecursionError, KeyError, IndexError, TypeError):
        return {"last": "not decided (outside the evaluated class)"}
    names = {"ML": "the main side's last()", "OL": "the old side's last()"}

    def value_of(X, a):
        st = a.get(X)
        return ("val", X) if st == "some" else NONE if st == "none" else ("opt", X)

    def show(v):
        if v == NONE:
            return "None"
        if isinstance(v, tuple) and v and v[0] in ("val", "opt"):
            return names.get(v[1], str(v[1]))
        return "something else"
    bad = False
    for val, polled, crossed, path, a in results:
        if val == UNK or not (val == NONE or (isinstance(val, tuple) and val and val[0] in ("val", "opt"))):
            return {"last": "not decided (outside the evaluated class)"}
    for val, polled, crossed, path, a in results:
        absent = N__ in crossed
        S2, S1 = second + "L", first + "L"
        if absent:
            expect = value_of("ML", a)
        elif second == "O":
            expect = ("val", "OL") if a.get("OL") == "some" else value_of("ML", a) if a.get("OL") == "none" else None
        else:
            expect = ("val", "ML") if a.get("ML") == "some" else value_of("OL", a) if a.get("ML") == "none" else None
        trail = " -> ".join("bb%d" % x for x in path)
        if expect is None:
            what = "returns %s without having looked at whether %s yields anything" % (show(val), names[S2])
        elif val != expect:
            what = "returns %s where the last element of next()'s sequence is %s" % (show(val), show(expect))
        else:
            continue
        if not bad:
            bad = True
            cond = ", ".join("%s is %s" % (names[k_], "Some" if v_ == "some" else "None") for k_, v_ in sorted(a.items())) or "no assumption"
            R.viol(key + ":last", b.where(Loc(path[-1], 0)), "%s %s (old side %s; %s; path %s)" % (b.path, what, "absent" if absent else "present or untested", cond, trail))
    return {"last": "VIOLATION" if bad else "decided exactly, over %d paths" % len(results)}


def _exact_count(ctx, R, adt, b, key):
    """count() of a composite iterator: the sum of both sides' counts (the main side's alone with the old side absent), or a delegation
    to the composite's own len() / size_hint()"""
    from hintexec import HintExec, Inconclusive, UNK
    from rules_typestate import N as N__
    cs = [c for c in ctx.calls(b) if not b.is_cleanup(c.loc.bb)]
    own = [c for c in cs if c.method in ("len", "size_hint", "count") and c.arg_path(0) is not None and c.arg_path(0).strip_refs().root == 1
           and not c.arg_path(0).fields()]
    if len(cs) == 1 and own and own[0].dest is not None and own[0].dest["local"] in b.ret_locals() and own[0].method == "len":
        return {"count": "delegates to the composite's own len() (I-sum)"}
    polls, calls = _side_polls(ctx, b, ("count", "len"))
    if not polls:
        return {"count": "not decided (no count() on a side)"}
    mv = {k: ("sum", ("M0",)) for k, sd in polls.items() if sd == "IT_MAIN"}
    ov = {k: ("sum", ("O0",)) for k, sd in polls.items() if sd == "IT_OLD"}
    try:
        results = HintExec(ctx, b, [], [], _old_field_edges(ctx, b), main_vals=mv, old_vals=ov).run()
    except (Inconclusive, RecursionError, KeyError, IndexError, TypeError):
        return {"count": "not decided (outside the evaluated class)"}
    if any(not (isinstance(v, tuple) and v and v[0] == "sum") for v, _, _, _, _ in results):
        return {"count": "not decided (outside the evaluated class)"}
    bad = False
    for val, polled, crossed, path, a in results:
        expect = ("sum", ("M0",)) if N__ in crossed else ("sum", ("M0", "O0"))
        if val != expect and not bad:
            bad = True
            R.viol(key + ":count", b.where(Loc(path[-1], 0)), "%s returns %s on a path (%s) with the old side %s: not the number of elements next() would yield"
                   % (b.path, " + ".join({"M0": "main.count", "O0": "old.count"}[x] for x in val[1]) or "0", " -> ".join("bb%d" % x for x in path),
                      "absent" if N__ in crossed else "present"))
    return {"count": "VIOLATION" if bad else "decided exactly, over %d paths" % len(results)}


NON_CONSUMING = {"size_hint", "len", "clone", "iter", "as_ref", "as_mut", "is_some", "is_none", "is_empty", "fmt", "deref", "deref_mut", "borrow", "borrow_mut"}


def _check_visit_order(ctx, R, adt, b, key):
    """A method of a composite iterator that drives both sides itself (fold and friends) enumerates in the order next() does — main
    side first for the by-reference iterators, old side first for the owning ones: an iterator has one enumeration order however it is
    driven (Iterator::fold is specified as the next() loop; keys() and values() only line up if every driver agrees)."""
    fam = ctx.roles.composites[adt]["family"]
    first, second = ("IT_MAIN", "IT_OLD") if fam == "iter" else ("IT_OLD", "IT_MAIN")
    uses = {"IT_MAIN": [], "IT_OLD": []}
    for bd in [b] + ctx.facts.closures_of(b):
        for c in ctx.calls(bd):
            if bd.is_cleanup(c.loc.bb) or not c.args or c.method in NON_CONSUMING or c.name in ("core::mem::drop",):
                continue
            if c.args[0]["k"] not in ("copy", "move"):
                continue
            side = _side_of_receiver(ctx, bd, c)
            if side not in uses:
                continue
            # where the use happens in b itself: the call, or the call that receives the closure it sits in
            loc = c.loc
            x = bd
            while x is not b:
                from rules_colour import closure_call_site
                cs = closure_call_site(ctx, x)
                if cs is None:
                    loc = None
                    break
                x, cc = cs
                loc = cc.loc
            if loc is not None:
                uses[side].append((loc, c))
    res = {"visit_order": None}
    if not uses[first] or not uses[second]:
        return res
    res["visit_order"] = "%s side first" % ("main" if first == "IT_MAIN" else "old")
    for l2, c2 in uses[second]:
        reach = b.reach_from([l2.bb])
        for l1, c1 in uses[first]:
            later = (l1.bb in reach and l1.bb != l2.bb) or (l1.bb == l2.bb and l1.i > l2.i) \
                or (l1.bb == l2.bb and l1.bb in b.reach_from(list(b.succs(l2.bb))))
            if later:
                res["visit_order"] = "VIOLATION"
                R.viol(key + ":visit-order", c2.where(), "%s consumes the %s side (%s at %s) before the %s side (%s at %s), but next() of %s yields the %s side "
                       "first: the same iterator enumerates in two different orders depending on how it is driven"
                       % (b.path, "old" if second == "IT_OLD" else "main", c2.method, c2.where(), "main" if first == "IT_MAIN" else "old", c1.method, c1.where(),
                          adt, "main" if first == "IT_MAIN" else "old"))
                return res
    return res


def _side_of_receiver(ctx, b, c):
    """IT_MAIN / IT_OLD for the receiver of a call on one of a composite iterator's sides (static role, else provenance)"""
    from rules_colour import path_role
    p = c.arg_path(0)
    r = ctx.role(b, p)
    if r in ("IT_MAIN", "IT_OLD"):
        return r
    s = path_role(ctx, b, p) if p is not None else None
    return {MAIN: "IT_MAIN", OLD: "IT_OLD"}.get(s)


def _sum_componentwise(b, ret_defs_loc, tuple_ops, src_main, src_old):
    """Does each component of the returned tuple add a value derived from the main source and one derived from the old source?
    src_* are predicates over (slice locs, arg locals)."""
    res = {}
    for i, op in enumerate(tuple_ops):
        s, args = b.slice_back(ret_defs_loc, [op])
        has_main, has_old = src_main(s, args), src_old(s, args)
        adds = []
        for l in s:
            if l.i < len(b.stmts(l.bb)):
                rv = b.stmts(l.bb)[l.i]["rv"]
                if rv["k"] == "binop" and rv["op"].startswith("Add"):
                    sa, aa = b.slice_back(l, [rv["a"]])
                    sb, ab = b.slice_back(l, [rv["b"]])
                    if (src_main(sa, aa) and src_old(sb, ab)) or (src_main(sb, ab) and src_old(sa, aa)):
                        adds.append(l)
        res[i] = (has_main, has_old, len(adds))
    return res


def _check_size_hint(ctx, R, adt, b, key):
    calls = [c for c in ctx.calls(b) if not b.is_cleanup(c.loc.bb)]
    hints = [(bd, c) for bd in [b] + ctx.facts.closures_of(b) for c in ctx.calls(bd) if c.method in ("size_hint", "len") and not bd.is_cleanup(c.loc.bb)
             and c.args and c.args[0]["k"] in ("copy", "move")]
    main_sh = [c for bd, c in hints if bd is b and _side_of_receiver(ctx, b, c) == "IT_MAIN"]
    old_sh = [(bd, c) for bd, c in hints if _side_of_receiver(ctx, bd, c) == "IT_OLD"]
    # the old side's hint taken through a combinator with the method itself as the function: self.old.as_ref().map(Iterator::size_hint)
    for c in calls:
        if c.name == OPT + "map" and len(c.args) == 2 and c.args[1]["k"] == "const" and (c.args[1].get("fn") or "").endswith("::size_hint"):
            sd = b.source_def(c.args[0])
            src_old = c.arg_path(0) is not None and ctx.role(b, c.arg_path(0)) == "IT_OLD"
            if sd is not None and sd[1] == "call":
                sc = ctx.call_at(b, sd[0].bb)
                if sc.name in (OPT + "as_ref", OPT + "as_mut") and ctx.role(b, sc.arg_path(0)) == "IT_OLD":
                    src_old = True
            if src_old:
                old_sh.append((b, c))
    if main_sh and old_sh:
        # (1) summed in this body
        if all(bd is b for bd, _ in old_sh):
            exact = _exact_size_hint(ctx, R, adt, b, key, main_sh, [c for _, c in old_sh])
            if exact is not None:
                return exact
            res = {}
            bad = False
            for rb in b.return_blocks():
                for d in b.defs_reaching(Loc(rb, len(b.stmts(rb))), 0):
                    if d[3] != "assign" or d[4]["rv"]["k"] != "aggregate" or d[4]["rv"].get("agg") != "tuple":
                        continue
                    r_ = _sum_componentwise(b, d[0], d[4]["rv"]["ops"],
                                            lambda s, a: any(c.loc in s for c in main_sh),
                                            lambda s, a: any(c.loc in s for _, c in old_sh))
                    for i, (hm, ho, na) in r_.items():
                        res["component%d" % i] = "main+old" if (hm and ho and na) else "NOT-SUM"
                        if not (hm and ho and na):
                            bad = True
                            R.viol(key + ":component%d" % i, b.where(d[0]), "component %d of %s's size_hint is not the sum of the main-side and old-side hints "
                                   "(depends on main: %s, on old: %s, additions combining both: %d)" % (i, adt, hm, ho, na))
            if res:
                return res
        # (2) both hints handed to a helper that sums them component-wise, whose result is returned
        for c in calls:
            lc = c.local_callee()
            if lc is None or lc.kind == "Closure" or not (c.dest and c.dest["local"] == 0 and not c.dest["proj"]):
                continue
            mi, oi = None, None
            for i, a in enumerate(c.args):
                cs = slice_calls_deep(ctx, b, c.loc, [a])
                if any(x.loc == m.loc and x.body is b for x in cs for m in main_sh):
                    mi = i
                if any(x.loc == o.loc and x.body is bd for x in cs for bd, o in old_sh):
                    oi = i
            if mi is None or oi is None or mi == oi:
                continue
            exact = _exact_size_hint(ctx, R, adt, lc, key, [], [], helper_args=(mi, oi))
            if exact is not None:
                exact["summed_by"] = lc.path
                return exact
            res = {"summed_by": lc.path}
            found = False
            from rules_typestate import option_test_edges, N as N__
            absent = {e for e, v in option_test_edges(ctx, lc, lambda p_, oi=oi: p_.root == oi + 1 and not p_.fields(), ignore_debug=False).items() if v == N__}
            for rb in lc.return_blocks():
                for d in lc.defs_reaching(Loc(rb, len(lc.stmts(rb))), 0):
                    if d[3] != "assign" or d[4]["rv"]["k"] != "aggregate" or d[4]["rv"].get("agg") != "tuple":
                        continue
                    if any((e[1] == d[0].bb or e[1] in lc.dom().get(d[0].bb, set())) and lc.preds(e[1], True) == [e[0]] for e in absent):
                        # old side absent on this path: the hint is the main side's own
                        for i_, op_ in enumerate(d[4]["rv"]["ops"]):
                            s_, a_ = lc.slice_back(d[0], [op_])
                            if (mi + 1) not in a_:
                                R.viol(key + ":component%d:absent" % i_, lc.where(d[0]), "with the old side absent, component %d of the hint does not come from the main side" % i_)
                        found = True
                        continue
                    found = True
                    r_ = _sum_componentwise(lc, d[0], d[4]["rv"]["ops"], lambda s, a: (mi + 1) in a, lambda s, a: (oi + 1) in a)
                    for i, (hm, ho, na) in r_.items():
                        res["component%d" % i] = "main+old" if (hm and ho and na) else "NOT-SUM"
                        if not (hm and ho and na):
                            R.viol(key + ":component%d" % i, lc.where(d[0]), "component %d of the hint computed by %s for %s is not the sum of the main-side and old-side hints" % (i, lc.path, adt))
            if found:
                return res
        R.viol(key + ":shape", b.where(Loc(0, 0)), "size_hint of %s consults both sides but the result is not visibly their component-wise sum (unproven)" % adt)
        return {}
    # delegating form: self.iter().size_hint() with iter() building a by-ref composite from both sides
    deleg = [c for c in calls if c.method == "size_hint" and c.local_callee() is not None]
    if deleg:
        lc = deleg[0].local_callee()
        p = deleg[0].arg_path(0)
        mk = None
        if p is not None:
            d = b.unique_def(p.root)
            if d is not None and d[1] == "call":
                mk = ctx.call_at(b, d[0].bb)
        ok = mk is not None and mk.local_callee() is not None and mk.arg_path(0) is not None and mk.arg_path(0).root == 1 and not mk.arg_path(0).fields()
        if not ok:
            R.viol(key + ":delegation", deleg[0].where(), "size_hint delegates to %s on a value that is not built from the whole composite self" % lc.path)
        return {"delegates_to": lc.path, "via": mk.tname if mk else None}
    R.viol(key + ":no-hints", b.where(Loc(0, 0)), "size_hint of %s does not consult both sides" % adt)
    return {}


def _exact_size_hint(ctx, R, adt, b, key, main_sh, old_sh, helper_args=None):
    """Decide a size_hint body exactly (hintexec): on every path that consults the old side the result is (M0+O0, M1+O1) — the upper
    bound may stay M1 where the old side's upper bound is None, as long as some path adds it — and a path that does not consult it
    is one on which the old side is absent and returns the main side's own hint.  None when the body is outside what hintexec
    evaluates (the dependence check then decides)."""
    from hintexec import HintExec, Inconclusive, UNK
    from rules_typestate import N as N__, S as S__
    try:
        if helper_args is None:
            # a side's exact length (ExactSizeIterator::len of a hashbrown iterator) is both its lower and its upper bound
            hx = HintExec(ctx, b, [c.loc for c in main_sh if c.method == "size_hint"], [c.loc for c in old_sh if c.method == "size_hint"], _old_field_edges(ctx, b),
                          main_vals={(b.path, c.loc.bb): ("sum", ("ML",)) for c in main_sh if c.method == "len"},
                          old_vals={(b.path, c.loc.bb): ("sum", ("OL",)) for c in old_sh if c.method == "len"})
        else:
            # b is a helper handed (main hint, old hint): its parameters are the two hints; an Option-typed old hint may be absent
            from rules_typestate import option_test_edges
            mi, oi = helper_args
            edges = option_test_edges(ctx, b, lambda p_: p_.root == oi + 1 and not p_.fields(), ignore_debug=False)
            hx = HintExec(ctx, b, [], [], edges, polled0=True,
                          init_env={(0, mi + 1): ("tuple", (("sum", ("M0",)), ("sum", ("M1",)))), (0, oi + 1): ("tuple", (("sum", ("O0",)), ("sum", ("O1",))))})
        results = hx.run()
    except (Inconclusive, RecursionError, KeyError, IndexError, TypeError):
        return None
    if not results:
        return None
    want = {0: ("sum", ("M0", "O0")), 1: ("sum", ("M1", "O1"))}
    alone = {0: ("sum", ("M0",)), 1: ("sum", ("M1",))}
    from hintexec import NONE as NONE_
    fixed = []
    for val, polled, crossed, path, _a in results:
        # an upper bound of literal None on a path on which one side's upper bound was found to be None is that side's (absent) bound
        if isinstance(val, tuple) and val and val[0] == "tuple" and len(val[1]) == 2 and val[1][1] == NONE_ and isinstance(_a, dict):
            if _a.get("M1") == "none":
                val = ("tuple", (val[1][0], ("sum", ("M1",))))
            elif _a.get("O1") == "none":
                val = ("tuple", (val[1][0], ("sum", ("M1",))))        # no upper bound at all: at least as honest as keeping the main side's
        fixed.append((val, polled, crossed, path, _a))
    results = fixed
    for val, polled, crossed, path, _a in results:
        if not (isinstance(val, tuple) and val and val[0] == "tuple" and len(val[1]) == 2) or any(x == UNK or not (isinstance(x, tuple) and x[0] == "sum") for x in val[1]):
            return None
    res = {"decided": "exactly, over %d paths" % len(results)}
    bad = set()
    upper_added = False

    def show(x):
        return " + ".join({"M0": "main.lower", "M1": "main.upper", "O0": "old.lower", "O1": "old.upper"}[a] for a in x[1]) or "0"
    def as_component(x, i):
        return ("sum", tuple(sorted({"ML": "M%d" % i, "OL": "O%d" % i}.get(a, a) for a in x[1])))
    for val, polled, crossed, path, _a in results:
        c0, c1 = as_component(val[1][0], 0), as_component(val[1][1], 1)
        where = b.where(Loc(path[-1], 0))
        trail = " -> ".join("bb%d" % x for x in path)
        if polled and N__ not in crossed:
            if c0 != want[0] and 0 not in bad:
                bad.add(0)
                R.viol(key + ":component0", where, "component 0 of %s's size_hint is %s on a path that consults the old side (%s): not the sum of the "
                       "main-side and old-side lower bounds" % (adt, show(c0), trail))
            if c1 == want[1]:
                upper_added = True
            elif c1 != alone[1] and 1 not in bad:
                bad.add(1)
                R.viol(key + ":component1", where, "component 1 of %s's size_hint is %s on a path that consults the old side (%s): not the sum of the "
                       "main-side and old-side upper bounds" % (adt, show(c1), trail))
        else:
            if N__ not in crossed:
                R.viol(key + ":one-sided-path", where, "size_hint of %s can return without consulting the old side on a path (%s) where the old side "
                       "is not known to be absent" % (adt, trail))
            for i, c in ((0, c0), (1, c1)):
                if c != alone[i] and ("a", i) not in bad:
                    bad.add(("a", i))
                    R.viol(key + ":component%d:absent" % i, where, "with the old side absent, component %d of %s's size_hint is %s, not the main side's own (%s)"
                           % (i, adt, show(c), trail))
    if any(p and N__ not in cr for _, p, cr, _, _a in results) and not upper_added and 1 not in bad:
        bad.add(1)
        R.viol(key + ":component1", b.where(Loc(0, 0)), "no path of %s's size_hint adds the old side's upper bound to the main side's" % adt)
    res["component0"] = "NOT-SUM" if 0 in bad else "main+old"
    res["component1"] = "NOT-SUM" if 1 in bad else "main+old"
    return res


def _old_field_edges(ctx, b):
    """edges deciding whether the composite's old side is present (S) or absent (N)"""
    from rules_typestate import option_test_edges

    def is_old_field(p):
        toks = [tk for tk, _ in ctx.roles.classify(p)]
        return toks == ["IT_OLD"] and not [e for e in p.elems if e[0] == "downcast"]
    return option_test_edges(ctx, b, is_old_field, ignore_debug=False)


def _variant_search(b, skip_edges, stop_blocks, goal):
    """Depth-first search from the entry for a block satisfying `goal`, never crossing `skip_edges` nor entering `stop_blocks`.
    Keeps track of which variant (Some / None) whole Option-typed locals were last assigned, so that a re-wrapped Option
    (`match x { Some(e) => Some(e), None => None }`, an inlined helper's return value) does not open infeasible paths."""
    def transfer(bb, env):
        env = dict(env)
        for st in b.stmts(bb):
            if st["k"] != "assign":
                continue
            l = st["place"]["local"]
            if st["place"]["proj"]:
                if st["place"]["proj"][0]["k"] != "deref":
                    env.pop(l, None)
                continue
            rv = st["rv"]
            if rv["k"] == "aggregate" and rv.get("adt") == "core::option::Option":
                env[l] = rv["variant"]
            elif rv["k"] == "use" and rv["op"]["k"] in ("copy", "move") and not rv["op"]["place"]["proj"] and rv["op"]["place"]["local"] in env:
                env[l] = env[rv["op"]["place"]["local"]]
            else:
                env.pop(l, None)
        t = b.term(bb)
        if t["k"] == "call" and "dest" in t:
            env.pop(t["dest"]["local"], None)
            if (t.get("callee") or "").endswith("FromResidual::from_residual") and not t["dest"]["proj"] \
                    and b.ty(t["dest"]["ty"]).get("adt") == "core::option::Option":
                env[t["dest"]["local"]] = "None"       # `?` on an Option: the early return value is None
        return env
    seen = set()
    st = [(0, {}, [0])]
    while st:
        x, env, path = st.pop()
        k = (x, tuple(sorted(env.items())))
        if k in seen or x in stop_blocks:
            continue
        seen.add(k)
        if goal(x):
            return path
        env2 = transfer(x, env)
        t = b.term(x)
        succs = list(b.succs(x))
        if t["k"] == "switch":
            d = b.source_def(t["discr"])
            if d is not None and d[1] == "assign" and d[2]["rv"]["k"] == "discr" and not d[2]["rv"]["place"]["proj"]:
                v = env2.get(d[2]["rv"]["place"]["local"])
                if v in ("Some", "None"):
                    want = 1 if v == "Some" else 0
                    tg = [tb for val, tb in t["targets"] if val == want]
                    succs = [tg[0]] if tg else [t["otherwise"]]
        for s_ in succs:
            if (x, s_) in skip_edges:
                continue
            st.append((s_, env2, path + [s_]))
    return None


def _copies_of(b, local):
    """locals that receive the whole value of `local` through plain copies / moves (an inlined helper's return slot, a rebinding)"""
    out = {local}
    grew = True
    while grew:
        grew = False
        for loc, st in b.all_assigns():
            rv = st["rv"]
            if not st["place"]["proj"] and rv["k"] == "use" and rv["op"]["k"] in ("copy", "move") and not rv["op"]["place"]["proj"] \
                    and rv["op"]["place"]["local"] in out and st["place"]["local"] not in out:
                out.add(st["place"]["local"])
                grew = True
    return out


def _check_owning_next(ctx, R, adt, b, key):
    """owning iterators: the main side is polled only after the old side was found absent or exhausted"""
    from rules_typestate import option_test_edges, N as N_, S as S_
    calls = ctx.calls(b)
    main_next = [c for c in calls if c.method == "next" and _side_of_receiver(ctx, b, c) == "IT_MAIN" and not b.is_cleanup(c.loc.bb)]
    old_next = [c for c in calls if c.method == "next" and _side_of_receiver(ctx, b, c) == "IT_OLD" and not b.is_cleanup(c.loc.bb)]
    # the old side polled through a combinator: X = self.old.as_mut().map(|it| it.next())  (X: Option<Option<T>>; None = absent)
    #  .. or flattened: X = self.old.as_mut().and_then(|it| it.next())  (X: Option<T>; None = absent or exhausted), the function also
    #  written as the method itself (`Iterator::next`)
    old_maps = []
    for c in calls:
        if c.name not in (OPT + "map", OPT + "and_then") or b.is_cleanup(c.loc.bb) or len(c.args) != 2 or c.dest is None or c.dest["proj"]:
            continue
        src_ok = False
        sd = b.source_def(c.args[0])
        if sd is not None and sd[1] == "call":
            sc = ctx.call_at(b, sd[0].bb)
            if sc.name in (OPT + "as_mut",) and ctx.role(b, sc.arg_path(0)) == "IT_OLD":
                src_ok = True
        polls = False
        if c.closure_args():
            cb = c.closure_args()[0]
            inner = [x for x in ctx.calls(cb) if not cb.is_cleanup(x.loc.bb)]
            polls = len(inner) == 1 and inner[0].method == "next" and inner[0].arg_path(0) is not None and inner[0].arg_path(0).root == 2 \
                and not inner[0].arg_path(0).fields() and inner[0].dest is not None and inner[0].dest["local"] == 0 and not inner[0].dest["proj"]
        elif c.args[1]["k"] == "const" and (c.args[1].get("fn") or "").endswith("::Iterator::next"):
            polls = True
        if src_ok and polls:
            if c.name == OPT + "map":
                old_maps.append(c)
            else:
                old_next.append(c)
    if not main_next or not (old_next or old_maps):
        R.viol(key + ":next-sides", b.where(Loc(0, 0)), "next() of %s does not poll both sides" % adt)
        return {}
    ok_edges = {e for e, v in _old_field_edges(ctx, b).items() if v == N_}
    for c in old_next:
        dls = _copies_of(b, c.dest["local"])
        res_edges = option_test_edges(ctx, b, lambda p, dls=dls: p.root in dls and not p.fields(), ignore_debug=False)
        ok_edges |= {e for e, v in res_edges.items() if v == N_}
    map_some_edges = set()
    for c in old_maps:
        dl = c.dest["local"]
        outer = option_test_edges(ctx, b, lambda p, dl=dl: p.root == dl and not p.fields(), ignore_debug=False)
        inner_e = option_test_edges(ctx, b, lambda p, dl=dl: p.root == dl and [e[2] for e in p.fields()] == [0], ignore_debug=False)
        ok_edges |= {e for e, v in outer.items() if v == N_}        # old side absent
        ok_edges |= {e for e, v in inner_e.items() if v == N_}      # old side exhausted
        map_some_edges |= {e for e, v in inner_e.items() if v == S_}
    for c in main_next:
        w = _variant_search(b, ok_edges, set(), lambda x, c=c: x == c.loc.bb)
        if w is not None:
            R.viol(key + ":main-before-old", c.where(), "the main side is polled on a path (%s) where the old side was neither absent nor exhausted: "
                   "remaining old-table elements would be skipped or the two sides interleaved with a stale length" % " -> ".join("bb%d" % x for x in w))
    # exhaustion: next() may only return without having polled the main side on a path where the old side just yielded an element
    # (the Some edge of its result); returning the old side's unexamined result, or None, while the main side still holds
    # elements ends the iteration early
    some_edges = set()
    for c in old_next:
        dls = _copies_of(b, c.dest["local"])
        res_edges = option_test_edges(ctx, b, lambda p, dls=dls: p.root in dls and not p.fields(), ignore_debug=False)
        some_edges |= {e for e, v in res_edges.items() if v == S_}
    some_edges |= map_some_edges
    main_bbs = {c.loc.bb for c in main_next}
    w = _variant_search(b, some_edges, main_bbs, lambda x: b.term(x)["k"] == "return")
    if w is not None:
        R.viol(key + ":early-none", b.where(Loc(w[-1], 0)), "next() of %s can return (path %s) without polling the main side although the old side did not "
               "just yield an element: with an exhausted or empty old side the iteration ends while the main side still holds elements"
               % (adt, " -> ".join("bb%d" % x for x in w)))
    took = [c for c in calls if c.name in (OPT + "take",) and ctx.role(b, c.arg_path(0)) == "IT_OLD"]
    return {"old_polled_first": True, "old_side_dropped_when_exhausted": bool(took)}


def _check_byref_next(ctx, R, adt, b, key):
    """by-reference composite: the old side is polled only when the main side returned None, and what is returned then comes from the old side"""
    from rules_colour import path_role
    from rules_typestate import option_test_edges, N as N_
    calls = ctx.calls(b)
    main_next = [c for c in calls if c.method == "next" and _side_of_receiver(ctx, b, c) == "IT_MAIN" and not b.is_cleanup(c.loc.bb)]
    if not main_next:
        R.viol(key + ":main-next", b.where(Loc(0, 0)), "by-reference composite next() does not poll the main side in its own body (unproven shape)")
        return {}
    M = main_next[0]
    res = {"shape": None}
    old_here = [c for c in calls if c.method == "next" and _side_of_receiver(ctx, b, c) == "IT_OLD" and not b.is_cleanup(c.loc.bb)]
    if old_here:
        # explicit control flow: every path to the old poll crosses the None edge of main's result
        dl = M.dest["local"]
        none_edges = {e for e, v in option_test_edges(ctx, b, lambda p: p.root == dl and not p.fields(), ignore_debug=False).items() if v == N_}
        for O in old_here:
            seen = set()
            st = [(0, [0])]
            w = None
            while st:
                x, path = st.pop()
                if x in seen:
                    continue
                seen.add(x)
                if x == O.loc.bb:
                    w = path
                    break
                for s_ in b.succs(x):
                    if (x, s_) in none_edges:
                        continue
                    st.append((s_, path + [s_]))
            if w is not None:
                R.viol(key + ":old-before-main", O.where(), "the old side is polled on a path (%s) where the main side has not returned None" % " -> ".join("bb%d" % x for x in w))
        res["shape"] = "explicit: old side polled on main's None edge"
        return res
    for rb in b.return_blocks():
        ret_op = {"k": "copy", "place": {"local": 0, "proj": [], "ty": b.locals[0]["ty"]}}
        chain = slice_calls_deep(ctx, b, Loc(rb, len(b.stmts(rb))), [ret_op])
        has_main = any(c.loc == M.loc and c.body is b for c in chain)
        old_polls = [c for c in chain if c.method == "next" and c.body is not b and path_role(ctx, c.body, c.arg_path(0)) == OLD]
        comb = [c for c in chain if c.body is b and c.name in (OPT + "or_else", OPT + "or") and c.closure_args()]
        if has_main and old_polls and comb:
            res["shape"] = "main.next() … or_else(|| old.next() …)"
        else:
            R.viol(key + ":fallback", b.where(Loc(rb, 0)), "the value returned by next() does not combine main.next() with a fallback that polls the old side "
                   "(main: %s, old polls: %d)" % (has_main, len(old_polls)))
    return res


# ---------------------------------------------------------------------------
# B-empty: is_empty() is exactly "no element in either table"
# ---------------------------------------------------------------------------
def rule_b_empty(ctx):
    R = RuleResult("B-empty", "is_empty() answers exactly `main.len() + old.len() == 0` in every resize state (also with an emptied old table still installed): "
                   "its paths are enumerated symbolically and evaluated for every combination of (old table absent / present, main length, old length) "
                   "over a small range; the answer never depends on anything else")
    from rules_cost import entry_points
    from rules_size import PathExec
    from rules_typestate import N as N_, S as S_
    import sizeexpr as sx
    eps = entry_points(ctx)
    checked = 0
    for name in ("HashMap::is_empty",):
        b = eps.get(name)
        if b is None:
            R.anchor("entry:%s" % name, "entry point %s no longer exists" % name)
            continue
        # follow pure delegation (`self.table.is_empty()`, `self.len() == 0` is handled symbolically below)
        hops = 0
        while hops < 4:
            cs = [c for c in ctx.calls(b) if not b.is_cleanup(c.loc.bb)]
            if len(cs) == 1 and cs[0].local_callee() is not None and cs[0].dest is not None and cs[0].dest["local"] == 0 and not cs[0].dest["proj"] \
                    and ctx.facts.types[cs[0].local_callee().locals[0]["ty"]].get("k") == "bool":
                b = cs[0].local_callee()
                hops += 1
                continue
            break
        key = "%s:%s" % (name, b.path)
        outcomes = []     # (left state, constraints, returned expression)
        bad = None
        for rb in b.return_blocks():
            pe = PathExec(ctx, b)
            paths = pe.run(rb)
            if pe.incomplete:
                bad = "cannot enumerate the paths of %s (%s)" % (b.path, pe.incomplete)
                break
            for p in paths:
                outcomes.append((p["state"]["left"], p["state"]["cmps"], p["env"].get(0), p["trail"]))
        if bad is None and not outcomes:
            bad = "no returning path found in %s" % b.path

        def ev(e, asg):
            k = e[0]
            if k == "const":
                return e[1]
            if k == "var":
                nm = e[1].split("@")[0]
                if nm == "oz":
                    return asg["o"] if asg["left"] == S_ else 0
                if nm in asg:
                    return asg[nm]
                raise KeyError(e[1])
            if k in ("add", "sub", "mul"):
                a, c_ = ev(e[1], asg), ev(e[2], asg)
                return a + c_ if k == "add" else a - c_ if k == "sub" else a * c_
            if k == "cmp":
                a, c_ = ev(e[2], asg), ev(e[3], asg)
                return {"Eq": a == c_, "Ne": a != c_, "Lt": a < c_, "Le": a <= c_, "Gt": a > c_, "Ge": a >= c_}[e[1]]
            raise KeyError(str(e)[:60])
        if bad is None:
            for left in (N_, S_):
                for m in range(3):
                    for o in (range(3) if left == S_ else [0]):
                        asg = {"left": left, "m": m, "o": o}
                        answers = set()
                        for lf, cmps, val, trail in outcomes:
                            if lf in (N_, S_) and lf != left:
                                continue
                            try:
                                if not all(ev(("cmp", op, a, c_), asg) == truth for op, a, c_, truth in cmps):
                                    continue
                                if val is None:
                                    raise KeyError("no return value")
                                answers.add(bool(ev(val, asg)))
                            except KeyError as e:
                                bad = "the answer of %s depends on something other than the two lengths (%s)" % (b.path, e)
                                break
                        if bad:
                            break
                        want = (m + o == 0)
                        if answers != {want}:
                            bad = "with the old table %s, main length %d%s, %s answers %s (expected %s)" % (
                                "absent" if left == N_ else "installed", m, "" if left == N_ else " and old length %d" % o, b.path,
                                sorted(answers) if answers else "nothing (no feasible path)", want)
                            break
                    if bad:
                        break
                if bad:
                    break
        checked += 1
        R.inst(entry=name, decided_in=b.path, paths=len(outcomes), verdict="ok" if not bad else "VIOLATION")
        if bad:
            R.viol(key, b.where(Loc(0, 0)), "%s: %s" % (name, bad))
    return R
