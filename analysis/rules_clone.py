"""C11 — clone / clone_from rules (B-clone-*, CL-*).  Also exports `copiers` used by M-carry."""
from engine import RuleResult, MAIN, LEFT, OLD, CURSOR
from rules_protocol import hb_calls, HBT, HBI


def copiers(ctx):
    """bodies that iterate a *clone* of a cursor and insert Clone::clone results into a table: {path: info}"""
    def build():
        out = {}
        for b in ctx.facts.bodies.values():
            clone_cur = None
            for c in ctx.calls(b):
                if c.tname == HBI + "clone" and ctx.role(b, c.arg_path(0)) == CURSOR:
                    clone_cur = c
            if clone_cur is None:
                continue
            ins = [c for c in ctx.calls(b) if c.tname in (HBT + "insert", HBT + "insert_no_grow")]
            if ins:
                out[b.path] = {"body": b, "cursor_clone": clone_cur, "ins": ins}
        return out
    return ctx.memo("copiers", build)
