"""C15 — rayon: B-par (both tables driven once each, results reduced), P-wrap (public parallel iterators delegate to the raw one),
E9-par (parallel set algebra / predicates equal the definitions = their sequential siblings), Y-state / Y-closure."""
import itertools

from core import Loc
from engine import RuleResult, MAIN, OLD
from symexec import SymExec, Eval, Unknown, has_unknown, show, subsets, api_of
from rules_colour import path_role, op_role
from rules_shape import U, SET_DEFS, BOOL_DEFS, stream_semantics


def strip_ref_ty(T, tid):
    while T[tid].get("k") == "ref":
        tid = T[tid]["inner"]
    return tid


def rule_b_par(ctx):
    R = RuleResult("B-par", "the parallel raw iterator drives the main-table part and the old-table part exactly once each, with two different consumers "
                   "(the split-off left half and the remainder), and returns the reduction of both results; without an old table it drives the main part alone")
    ro = ctx.roles
    par = [a for a, v in ro.composites.items() if v["family"].startswith("par")]
    # an owning parallel composite (two by-value hashbrown parallel iterators) is built from the two tables of one split table
    for b0 in ctx.facts.bodies.values():
        for loc0, st0 in b0.all_assigns():
            rv0 = st0["rv"]
            if rv0["k"] != "aggregate" or rv0.get("adt") not in par or ro.composites[rv0["adt"]]["family"] == "par" or b0.is_cleanup(loc0.bb):
                continue
            comp = ro.composites[rv0["adt"]]
            rm, ro_ = op_role(ctx, b0, rv0["ops"][comp["main"]]), op_role(ctx, b0, rv0["ops"][comp["old"]])
            ok0 = rm == MAIN and ro_ == OLD
            R.inst(fn=b0.path, site=b0.where(loc0), composite=rv0["adt"], main_part_from=str(rm), old_part_from=str(ro_), verdict="ok" if ok0 else "VIOLATION")
            if not ok0:
                R.viol("%s:construct:%s" % (b0.path, rv0["adt"]), b0.where(loc0), "the owning parallel iterator %s is built with a main part coming from %s and an old part "
                       "coming from %s (expected the main table and the old table of one split table)" % (rv0["adt"], rm, ro_))
    if not [a for a in par if ro.composites[a]["family"] == "par"]:
        R.anchor("par-composite", "no parallel composite iterator found (rayon feature not analysed?)")
        return R
    for adt in par:
        bodies = [b for b in ctx.facts.bodies.values() if b.kind != "Closure" and b.name == "drive_unindexed" and "self_ty" in b.raw
                  and ctx.facts.types[b.raw["self_ty"]].get("adt") == adt]
        if len(bodies) != 1:
            R.anchor("drive:%s" % adt, "expected one drive_unindexed for %s" % adt)
            continue
        b = bodies[0]
        key = b.path
        drives = [c for c in ctx.calls(b) if c.method == "drive_unindexed" and not b.is_cleanup(c.loc.bb)]
        splits = [c for c in ctx.calls(b) if c.method == "split_off_left" and not b.is_cleanup(c.loc.bb)]
        reduces = [c for c in ctx.calls(b) if c.method == "reduce" and not b.is_cleanup(c.loc.bb)]
        why = []
        # partition the drives by the edge on IT_OLD's discriminant
        some_bbs, none_bbs = set(), set()
        for bb in b.reachable():
            t = b.term(bb)
            if t["k"] != "switch":
                continue
            d = b.source_def(t["discr"])
            if d is None or d[1] != "assign" or d[2]["rv"]["k"] != "discr":
                continue
            p = b.expand(d[2]["rv"]["place"])
            if [x for x, _ in ro.classify(p)] == ["IT_OLD"]:
                for v, tb in t["targets"]:
                    if v == 1:
                        some_bbs |= {x for x in b.reachable() if x == tb or tb in b.dom().get(x, set())}
                ot = [s_ for s_ in b.succs(bb) if s_ not in [tb for v, tb in t["targets"] if v == 1]]
                for o in ot:
                    none_bbs |= {x for x in b.reachable() if x == o or o in b.dom().get(x, set())}
        none_bbs -= some_bbs
        ds = [c for c in drives if c.loc.bb in some_bbs]
        dn = [c for c in drives if c.loc.bb in none_bbs]
        if len(ds) != 2:
            why.append("with an old table present %d drive_unindexed calls are made (expected 2)" % len(ds))
        else:
            sides = sorted(str(path_role(ctx, b, c.arg_path(0))) for c in ds)
            if sides != ["MAIN", "OLD"]:
                why.append("the two parts driven are %s (expected one main-table part and one old-table part)" % sides)
            # consumers
            cons = []
            for c in ds:
                s, args = b.slice_back(c.loc, [c.args[1]])
                from_split = any(sp.loc in s for sp in splits)
                cons.append("left" if from_split else ("rest" if 2 in args or (c.arg_path(1) is not None and c.arg_path(1).root == 2) else "?"))
            if sorted(cons) != ["left", "rest"]:
                why.append("the two parts are driven with consumers %s (expected the split-off left half and the remaining consumer, each once)" % cons)
            if len(reduces) != 1:
                why.append("%d reduce calls (expected 1)" % len(reduces))
            else:
                r = reduces[0]
                s, _ = b.slice_back(r.loc, r.args[1:])
                if not all(c.loc in s for c in ds):
                    why.append("the reduction does not combine the results of both drives")
                elif len(r.args) == 3 and len(cons) == 2:
                    # rayon's contract: reduce(left result, right result) — the first operand is what the split-off *left* consumer produced
                    left_drive = ds[cons.index("left")] if "left" in cons else None
                    s1, _ = b.slice_back(r.loc, [r.args[1]])
                    if left_drive is not None and left_drive.loc not in s1:
                        why.append("the reduction is handed the right half's result as its left operand")
                if not (r.dest and (r.dest["local"] == 0 or r.dest["local"] in b.ret_locals())):
                    why.append("the reduction is not the returned result")
        if len(dn) != 1:
            why.append("without an old table %d drive_unindexed calls are made (expected 1)" % len(dn))
        else:
            c = dn[0]
            if path_role(ctx, b, c.arg_path(0)) != MAIN:
                why.append("without an old table the part driven is not the main table's")
            if not (c.dest and (c.dest["local"] == 0 or c.dest["local"] in b.ret_locals())):
                why.append("the single drive's result is not returned")
        R.inst(fn=b.path, drives_when_split=len(ds), drives_when_unsplit=len(dn), verdict="ok" if not why else "VIOLATION")
        if why:
            R.viol(key, b.where(Loc(0, 0)), "; ".join(why))
    return R


HB_TABLEISH = ("hashbrown::raw::RawTable", "hashbrown::raw::rayon::RawParIter", "hashbrown::raw::rayon::RawIntoParIter", "hashbrown::raw::rayon::RawParDrain")


def _two_halves_shape(ctx, vb):
    """problems (list) with `vb` as the drive_unindexed of a parallel iterator that owns one table (or hashbrown parallel iterator) in a bare field
    and one in an Option field"""
    T = ctx.facts.types
    why = []
    st = T[strip_ref_ty(T, vb.locals[1]["ty"])]
    adt = ctx.facts.adts.get(st.get("adt"))
    if adt is None or adt["kind"] != "Struct":
        return ["the inner iterator is not a struct of the crate"]
    bare, opt = [], []
    for i, f in enumerate(adt["variants"][0]["fields"]):
        ft = T[f["ty"]]
        if ft.get("adt") in HB_TABLEISH:
            bare.append(i)
        elif ft.get("adt") == "core::option::Option" and ft.get("args") and T[ft["args"][0]].get("adt") in HB_TABLEISH:
            opt.append(i)
    if len(bare) != 1 or len(opt) != 1:
        return ["the inner iterator does not hold exactly one table and one optional table"]
    calls = [c for c in ctx.calls(vb) if not vb.is_cleanup(c.loc.bb)]
    drives = [c for c in calls if c.method == "drive_unindexed"]
    splits = [c for c in calls if c.method == "split_off_left"]
    reduces = [c for c in calls if c.method == "reduce"]

    def fields_of(c):
        s_, _ = vb.slice_back(c.loc, [c.args[0]])
        out = set()
        for l in s_:
            pls = []
            if l.i < len(vb.stmts(l.bb)):
                st_ = vb.stmts(l.bb)[l.i]
                if st_["k"] != "assign":
                    continue
                rv = st_["rv"]
                if "place" in rv:
                    pls.append(rv["place"])
                if rv["k"] == "use" and rv["op"]["k"] in ("copy", "move"):
                    pls.append(rv["op"]["place"])
            else:
                t_ = vb.term(l.bb)
                pls += [a["place"] for a in t_.get("args", []) if a["k"] in ("copy", "move")]
            for pl in pls:
                p = vb.expand(pl)
                if p.root == 1 and p.fields():
                    out.add(p.fields()[0][2])
        return out
    per = [(c, fields_of(c)) for c in drives]
    both = [c for c, fs in per if fs & set(opt)]
    main_only = [c for c, fs in per if fs == set(bare)]
    if len(both) != 1:
        why.append("%d drives of the optional table (expected 1)" % len(both))
    if len(main_only) != 2:
        why.append("%d drives of the bare table (expected one next to the optional table's and one on its own)" % len(main_only))
    if why:
        return why
    O = both[0]
    partner = [c for c in main_only if c.loc.bb in vb.reach_from([0]) and (O.loc.bb in vb.reach_from([c.loc.bb]) or c.loc.bb in vb.reach_from([O.loc.bb]))]
    alone = [c for c in main_only if c not in partner]
    if len(partner) != 1 or len(alone) != 1:
        return ["the drives of the bare table are not one beside the optional table's drive and one without it"]
    cons = []
    for c in (O, partner[0]):
        s_, args = vb.slice_back(c.loc, [c.args[1]])
        cons.append("left" if any(sp.loc in s_ for sp in splits) else "rest" if (2 in args or (c.arg_path(1) is not None and c.arg_path(1).root == 2)) else "?")
    if sorted(cons) != ["left", "rest"]:
        why.append("the two halves are driven with consumers %s (expected the split-off left half and the remainder)" % cons)
    if len(reduces) != 1:
        why.append("%d reduce calls (expected 1)" % len(reduces))
    else:
        r = reduces[0]
        s_, _ = vb.slice_back(r.loc, r.args[1:])
        if not (O.loc in s_ and partner[0].loc in s_):
            why.append("the reduction does not combine both halves")
        if not (r.dest and (r.dest["local"] == 0 or r.dest["local"] in vb.ret_locals())):
            why.append("the reduction is not the returned result")
    a = alone[0]
    if not (a.dest and (a.dest["local"] == 0 or a.dest["local"] in vb.ret_locals())):
        why.append("the lone drive's result is not returned")
    return why


def rule_p_wrap(ctx):
    R = RuleResult("P-wrap", "every public parallel iterator's drive_unindexed is the raw both-tables parallel iterator of its own map, mapped through a field "
                   "projection, driven once with the caller's consumer")
    T = ctx.facts.types
    raw_par = None
    for b in ctx.facts.bodies.values():
        if b.kind != "Closure" and b.name == "par_iter" and "self_ty" in b.raw and T[b.raw["self_ty"]].get("adt") == ctx.roles.S:
            raw_par = b
    if raw_par is None:
        R.anchor("raw-par-iter", "no par_iter on the split table found")
        return R
    n = 0
    for b in ctx.facts.bodies.values():
        if b.kind == "Closure" or b.name != "drive_unindexed" or "self_ty" not in b.raw:
            continue
        adt = T[b.raw["self_ty"]].get("adt", "")
        if not adt.startswith("griddle::external_trait_impls::rayon::map::") and not adt.startswith("griddle::external_trait_impls::rayon::set::"):
            continue
        calls = [c for c in ctx.calls(b) if not b.is_cleanup(c.loc.bb)]
        raw = [c for c in calls if c.local_callee() is not None and c.local_callee().path == raw_par.path]
        comp_fields = [c for c in calls if c.method == "drive_unindexed" and c.arg_path(0) is not None and c.arg_path(0).root == 1 and c.arg_path(0).fields()
                       and T[strip_ref_ty(T, c.args[0]["place"]["ty"])].get("adt") in ctx.roles.composites
                       and ctx.roles.composites[T[strip_ref_ty(T, c.args[0]["place"]["ty"])]["adt"]]["family"].startswith("par")]
        priv = [c for c in calls if c.method == "drive_unindexed" and c.arg_path(0) is not None and c.arg_path(0).root == 1 and c.arg_path(0).fields()
                and c.local_callee() is not None and not ctx.facts.adts.get(T[strip_ref_ty(T, c.args[0]["place"]["ty"])].get("adt"), {"exported": True}).get("exported")]
        if not raw and not comp_fields and len(priv) == 1 and len([c for c in calls if c.method == "drive_unindexed"]) == 1:
            # delegation to a private parallel iterator of the crate that owns the two tables themselves: its own drive_unindexed must have the
            # two-halves shape (both of its table fields driven once each with the split consumer, results reduced; the bare one alone otherwise)
            n += 1
            d = priv[0]
            why = _two_halves_shape(ctx, d.local_callee())
            q = d.arg_path(1)
            if q is None or q.root != 2:
                why.append("not driven with the caller's consumer")
            if not (d.dest and d.dest["local"] in b.ret_locals()):
                why.append("the drive's result is not returned")
            R.inst(fn=b.path, over="private two-table parallel iterator %s" % d.local_callee().path, verdict="ok" if not why else "VIOLATION")
            if why:
                R.viol(b.path, b.where(Loc(0, 0)), "; ".join(why))
            continue
        if not raw and comp_fields:
            # an owning public parallel iterator that holds the raw owning composite in a field: driven once with the caller's consumer, result
            # returned; every construction of the public type fills the field from a split table's own constructor of that composite
            n += 1
            d = comp_fields[0]
            why = []
            if len([c for c in calls if c.method == "drive_unindexed"]) != 1:
                why.append("more than one drive")
            q = d.arg_path(1)
            if q is None or q.root != 2:
                why.append("not driven with the caller's consumer")
            if not (d.dest and d.dest["local"] in b.ret_locals()):
                why.append("the drive's result is not returned")
            fidx = d.arg_path(0).fields()[0][2]
            built = 0
            for b2 in ctx.facts.bodies.values():
                for loc2, st2 in b2.all_assigns():
                    rv2 = st2["rv"]
                    if rv2["k"] == "aggregate" and rv2.get("adt") == adt and not b2.is_cleanup(loc2.bb):
                        built += 1
                        sd = b2.source_def(rv2["ops"][fidx])
                        okc = False
                        if sd is not None and sd[1] == "call":
                            mk = ctx.call_at(b2, sd[0].bb)
                            lc2 = mk.local_callee()
                            rp2 = mk.arg_path(0)
                            if lc2 is not None and "self_ty" in lc2.raw and T[lc2.raw["self_ty"]].get("adt") == ctx.roles.S and rp2 is not None \
                                    and any(e[0] == "field" and e[1] in ctx.roles.holders for e in rp2.elems):
                                okc = True
                        if not okc:
                            why.append("constructed at %s from something else than a map's own split table" % b2.where(loc2))
            if not built:
                why.append("never constructed")
            R.inst(fn=b.path, over="owning raw composite in field %d" % fidx, verdict="ok" if not why else "VIOLATION")
            if why:
                R.viol(b.path, b.where(Loc(0, 0)), "; ".join(why))
            continue
        if not raw:
            # built on another public parallel iterator (set over map keys, set algebra): E9-par covers the algebra; delegation checked here
            deleg = [c for c in calls if c.method in ("drive_unindexed",)]
            srcs = [c for c in calls if c.local_callee() is not None and c.local_callee().name in ("par_keys", "into_par_iter", "par_iter", "par_difference")]
            if not srcs and len(deleg) == 1:
                # the other public parallel iterator is held in a field of self
                s_, args_ = b.slice_back(deleg[0].loc, [deleg[0].args[0]])
                for loc_ in s_:
                    if loc_.i < len(b.stmts(loc_.bb)):
                        rv_ = b.stmts(loc_.bb)[loc_.i]["rv"]
                        pl_ = rv_["op"]["place"] if rv_["k"] == "use" and rv_["op"]["k"] in ("copy", "move") else rv_.get("place")
                        if pl_ is not None and pl_["local"] == 1 and pl_["proj"]:
                            fa = T[strip_ref_ty(T, pl_["ty"])].get("adt", "")
                            if fa.startswith("griddle::external_trait_impls::rayon::") and ctx.facts.adts.get(fa, {}).get("exported"):
                                srcs = [deleg[0]]
            n += 1
            ok = len(deleg) == 1 and deleg[0].dest["local"] in b.ret_locals() and srcs
            R.inst(fn=b.path, over=[c.tname for c in srcs][:2], verdict="ok" if ok else "VIOLATION")
            if not ok:
                R.viol(b.path, b.where(Loc(0, 0)), "parallel iterator is neither built on the raw parallel iterator nor on another public one")
            continue
        n += 1
        why = []
        if len(raw) != 1:
            why.append("%d raw par_iter calls" % len(raw))
        drives = [c for c in calls if c.method == "drive_unindexed"]
        if len(drives) != 1:
            why.append("%d drive_unindexed calls (expected 1)" % len(drives))
        else:
            d = drives[0]
            s, args = b.slice_back(d.loc, [d.args[0]])
            if raw and raw[0].loc not in s:
                why.append("what is driven does not come from the raw parallel iterator")
            q = d.arg_path(1)
            if q is None or q.root != 2:
                why.append("not driven with the caller's consumer")
            if not (d.dest and d.dest["local"] in b.ret_locals()):
                why.append("the drive's result is not returned")
        rp = raw[0].arg_path(0) if raw else None
        if rp is not None and rp.root != 1:
            why.append("the raw iterator is not over self's own table")
        others = [c for c in calls if c not in raw and c not in drives and c.method not in ("map",)]
        if others:
            why.append("extra calls: %s" % [c.tname for c in others][:3])
        R.inst(fn=b.path, verdict="ok" if not why else "VIOLATION")
        if why:
            R.viol(b.path, b.where(Loc(0, 0)), "; ".join(why))
    R.floor(6, "public parallel iterators")
    return R


class ParEval(Eval):
    """stream semantics of rayon structs = the symbolic result of their drive_unindexed"""

    def __init__(self, ctx, sem):
        Eval.__init__(self, sem)
        self.ctx = ctx
        self._drive = {}

    def stream(self, v, model, elem=None):
        if v[0] == "struct" and v[1] not in self.sem:
            adt = v[1]
            if adt not in self._drive:
                T = self.ctx.facts.types
                bodies = [b for b in self.ctx.facts.bodies.values() if b.kind != "Closure" and b.name == "drive_unindexed" and "self_ty" in b.raw
                          and T[b.raw["self_ty"]].get("adt") == adt]
                self._drive[adt] = bodies[0] if bodies else None
            body = self._drive[adt]
            if body is None:
                raise Unknown("no drive_unindexed for %s" % adt)
            res = SymExec(self.ctx).run(body, [v, ("consumer",)])
            if res[0] == "drive_unindexed":
                return self.stream(res[1], model, elem)
            raise Unknown("drive_unindexed of %s evaluates to %s" % (adt, show(res)[:80]))
        return Eval.stream(self, v, model, elem)


def rule_e9_par(ctx):
    R = RuleResult("E9-par", "the parallel set operations and predicates compute the mathematical definitions (hence the same results as their sequential siblings): "
                   "expressions extracted symbolically from the constructors and each drive_unindexed, evaluated for all pairs of subsets of a 4-element universe")
    sem, _ = stream_semantics(ctx)
    ev = ParEval(ctx, sem)
    subs = subsets(U if ctx.tier != "thorough" else U + (4,))
    n = 0
    for b in ctx.facts.bodies.values():
        if b.kind == "Closure":
            continue
        api = api_of(b.path)
        if not api or not api.startswith("HashSet::par_"):
            continue
        name = api.split("::")[1]
        if name in SET_DEFS:
            n += 1
            v = SymExec(ctx).run(b, [("set", "A"), ("set", "B")])
            bad = None
            try:
                u = has_unknown(v)
                if u:
                    raise Unknown(u)
                for a in subs:
                    for bb in subs:
                        got = ev.stream(v, {"A": a, "B": bb})
                        want = SET_DEFS[name](a, bb)
                        if sorted(got) != sorted(want):
                            bad = "for A=%s B=%s it yields %s, the definition gives %s" % (sorted(a), sorted(bb), sorted(got), sorted(want))
                            break
                    if bad:
                        break
            except Unknown as e:
                bad = "cannot extract/evaluate (%s) — unproven" % e
            R.inst(fn=b.path, expr=show(v)[:200], verdict="ok" if not bad else "VIOLATION")
            if bad:
                R.viol(api, b.where(Loc(0, 0)), "%s: %s" % (b.path, bad))
        elif name in BOOL_DEFS:
            n += 1
            v = SymExec(ctx).run(b, [("set", "A"), ("set", "B")])
            bad = None
            try:
                u = has_unknown(v)
                if u:
                    raise Unknown(u)
                for a in subs:
                    for bb in subs:
                        got = bool(ev.val(v, {"A": a, "B": bb}))
                        if got != BOOL_DEFS[name](a, bb):
                            bad = "for A=%s B=%s it returns %s" % (sorted(a), sorted(bb), got)
                            break
                    if bad:
                        break
            except Unknown as e:
                bad = "cannot extract/evaluate (%s) — unproven" % e
            R.inst(fn=b.path, expr=show(v)[:200], verdict="ok" if not bad else "VIOLATION")
            if bad:
                R.viol(api, b.where(Loc(0, 0)), "%s: %s" % (b.path, bad))
    # map par_eq
    keys = (0, 1, 2) if ctx.tier != "thorough" else (0, 1, 2, 3)
    maps = [{k: v for k, v in zip(keys, pres) if v is not None} for pres in itertools.product([None, 0, 1], repeat=len(keys))]
    for b in ctx.facts.bodies.values():
        if b.kind != "Closure" and api_of(b.path) == "HashMap::par_eq":
            n += 1
            v = SymExec(ctx).run(b, [("set", "A"), ("set", "B")])
            bad = None
            try:
                u = has_unknown(v)
                if u:
                    raise Unknown(u)
                for a in maps:
                    for bb in maps:
                        if bool(ev.val(v, {"A": a, "B": bb})) != (a == bb):
                            bad = "for A=%s B=%s it returns %s" % (a, bb, not (a == bb))
                            break
                    if bad:
                        break
            except Unknown as e:
                bad = "cannot extract/evaluate (%s) — unproven" % e
            R.inst(fn=b.path, expr=show(v)[:200], verdict="ok" if not bad else "VIOLATION")
            if bad:
                R.viol("HashMap::par_eq", b.where(Loc(0, 0)), "%s: %s" % (b.path, bad))
    if n < 9:
        R.anchor("par-fns", "expected >= 9 parallel set operations/predicates, found %d" % n)
    return R


def rule_y_state(ctx):
    R = RuleResult("Y-state", "griddle's rayon code holds no schedule-dependent state of its own: no statics, atomics, locks or interior mutability, and no closure "
                   "handed to rayon mutates a map (par_extend collects in parallel, then extends sequentially)")
    T = ctx.facts.types
    for c in ctx.facts.consts.values():
        if c["kind"].startswith("Static"):
            R.viol("static:%s" % c["path"], "%s:%d" % (c["span"]["file"], c["span"]["line"]), "static item %s" % c["path"])
    n = 0
    BAD_TY = ("core::sync::atomic::", "core::cell::", "std::sync::", "Mutex", "RwLock", "UnsafeCell", "thread_local")
    for b in ctx.facts.bodies.values():
        if "external_trait_impls::rayon" not in b.path:
            continue
        n += 1
        for l, d in enumerate(b.locals):
            s = T[d["ty"]]["s"]
            if any(x in s for x in BAD_TY):
                R.viol("%s:type" % b.path, b.where(Loc(0, 0)), "%s uses shared mutable state of type %s" % (b.path, s))
        R.inst(fn=b.path, verdict="ok")
    # closures handed to rayon must not take &mut to a map/table
    m = 0
    for b in ctx.facts.bodies.values():
        for c in ctx.calls(b):
            if not (c.name or "").startswith("rayon::"):
                continue
            for cb in c.closure_args():
                m += 1
                for p in ctx.reachable_bodies(cb.path):
                    pb = ctx.facts.bodies[p]
                    for cc in ctx.calls(pb):
                        lc = cc.local_callee()
                        if lc is None or lc.kind == "Closure" or not cc.args:
                            continue
                        a0 = cc.args[0]
                        if a0["k"] in ("copy", "move"):
                            at = T[a0["place"]["ty"]]
                            if at.get("k") == "ref" and at.get("mut"):
                                inner = T[at["inner"]]
                                if inner.get("adt") in (ctx.roles.S, "griddle::map::HashMap", "griddle::set::HashSet"):
                                    R.viol("%s:mutates-in-parallel" % cb.path, cc.where(), "closure %s, run by rayon (%s), calls %s on a shared map" % (cb.path, c.tname, cc.tname))
    R.notes.append("%d rayon-module bodies, %d closures handed to rayon" % (n, m))
    if n < 10:
        R.anchor("rayon-bodies", "expected >= 10 bodies in the rayon modules, found %d" % n)
    return R


ORDER_REVERSING = {"pop_back", "next_back", "rev", "rfold", "try_rfold", "rfind", "nth_back", "back", "back_mut", "split_off", "reverse", "sort", "sort_by",
                   "sort_by_key", "sort_unstable", "sort_unstable_by", "sort_unstable_by_key", "swap", "swap_remove", "rotate_left", "rotate_right",
                   "last", "rposition", "cursor_back", "cursor_back_mut", "push_front", "prepend", "extract_if", "retain", "dedup"}


def rule_y_order(ctx):
    R = RuleResult("Y-order", "par_extend / from_par_iter hand the collected elements to the sequential extend in the order of the parallel iterator: the helper "
                   "that gathers the chunks appends the right chunk list to the left one, and the chunks are consumed front to back with nothing that reorders them "
                   "(with repeated keys the last occurrence must win, as in sequential extend)")
    n = 0
    for b in ctx.facts.bodies.values():
        if "external_trait_impls::rayon" not in b.path:
            continue
        T_ = ctx.facts.types
        # a body that obtains the list of chunks: from the gathering helper, or (helper merged into it) from the parallel reduction itself
        uses_collect = any(not b.is_cleanup(c.loc.bb) and c.dest is not None and "LinkedList" in T_[c.dest["ty"]]["s"]
                           and ((c.local_callee() is not None and c.local_callee().kind != "Closure") or c.method == "reduce") for c in ctx.calls(b))
        if uses_collect:
            # ... unless it hands that list on to its caller (then it is the gathering helper itself)
            for rb in b.return_blocks():
                ret_op = {"k": "copy", "place": {"local": 0, "proj": [], "ty": b.locals[0]["ty"]}}
                sl, _ = b.slice_back(Loc(rb, len(b.stmts(rb))), [ret_op])
                if any(c.loc in sl for c in ctx.calls(b) if c.dest is not None and "LinkedList" in T_[c.dest["ty"]]["s"] and c.method == "reduce"):
                    uses_collect = False
        # ... and the bodies that take part in gathering them (anything in the rayon modules that touches a LinkedList)
        is_collect_part = "rayon::helpers::" in b.path or any("LinkedList" in (c.tname or "") or "linked_list" in (c.tname or "") for c in ctx.calls(b))
        if not (uses_collect or is_collect_part):
            continue
        n += 1
        why = []
        for c in ctx.calls(b):
            if b.is_cleanup(c.loc.bb):
                continue
            st = c.self_adt or ""
            nm = c.name or ""
            if c.method in ORDER_REVERSING and (nm.startswith(("alloc::", "core::iter", "core::slice", "std::")) or st.startswith("alloc::")):
                why.append("%s @ %s reorders or consumes from the back" % (c.tname, c.where()))
            if c.method == "append" and "LinkedList" in (c.tname or ""):
                p0, p1 = c.arg_path(0), c.arg_path(1)
                first = 2 if b.kind == "Closure" else 1     # closures have their environment as parameter 1
                ok = p0 is not None and p1 is not None and p0.root == first and p1.root == first + 1
                ret_ok = False
                for d in b.defs().get(0, []):
                    if d[1] == "assign" and d[2]["rv"]["k"] == "use":
                        q = b.op_path(d[2]["rv"]["op"])
                        if q is not None and q.root == first:
                            ret_ok = True
                if not (ok and ret_ok):
                    why.append("the reduction does not append the right-hand chunk list to the left-hand one and return the left (order of chunks would change) @ %s" % c.where())
        if uses_collect:
            # the chunk list is consumed by forward iteration feeding Extend::extend
            ext = [(bd, c) for bd in [b] + ctx.facts.closures_of(b) for c in ctx.calls(bd) if c.method == "extend" and not bd.is_cleanup(c.loc.bb)]
            fwd = [c for c in ctx.calls(b) if (c.method in ("next", "for_each", "fold", "try_for_each") and "linked_list" in (c.tname or "").lower()) or
                   (c.method == "pop_front" and "LinkedList" in (c.tname or ""))]
            if not ext or not fwd:
                why.append("the collected chunks are not consumed by a forward iteration feeding extend()")
            else:
                bd, e0 = ext[0]
                if bd is b:
                    s, _ = b.slice_back(e0.loc, e0.args[1:])
                    if not any(f.loc in s for f in fwd):
                        why.append("extend() is not fed the chunk just taken from the front of the list")
                else:
                    q = e0.arg_path(1)
                    if q is None or not (2 <= q.root <= bd.arg_count):
                        why.append("extend() inside the per-chunk closure is not fed the closure's chunk parameter")
        R.inst(fn=b.path, verdict="ok" if not why else "VIOLATION")
        if why:
            R.viol(b.path, b.where(Loc(0, 0)), "; ".join(why))
    R.floor(3, "bodies of the parallel-collect path")
    return R
