"""H-agree — hash values and re-hashing closures handed to the split table are built from the hash builder of the *same* map."""
from core import Loc, Path
from engine import RuleResult


def hash_fns(ctx):
    """local functions that hash with their first parameter as the BuildHasher: {path}"""
    def build():
        out = set()
        for b in ctx.facts.bodies.values():
            if b.kind == "Closure":
                continue
            for c in ctx.calls(b):
                if c.name in ("core::hash::BuildHasher::build_hasher", "core::hash::BuildHasher::hash_one"):
                    p = c.arg_path(0)
                    if p is not None and p.root == 1 and not p.fields():
                        out.add(b.path)
        # wrappers: a function that hands its own first parameter on as the builder of a hashing function
        changed = True
        while changed:
            changed = False
            for b in ctx.facts.bodies.values():
                if b.kind == "Closure" or b.path in out:
                    continue
                for c in ctx.calls(b):
                    lc = c.local_callee()
                    if lc is not None and lc.path in out:
                        p = c.arg_path(0)
                        if p is not None and p.root == 1 and not p.fields():
                            out.add(b.path)
                            changed = True
        return out
    return ctx.memo("hash_fns", build)


def hasher_makers(ctx):
    """local functions returning a closure that hashes with the function's first parameter: {path}"""
    def build():
        out = set()
        hf = hash_fns(ctx)
        for b in ctx.facts.bodies.values():
            if b.kind == "Closure":
                continue
            for loc, st in b.all_assigns():
                rv = st["rv"]
                if rv["k"] == "aggregate" and rv.get("agg") == "closure" and st["place"]["local"] == 0:
                    cb = ctx.facts.by_dpath.get(rv["def"])
                    if cb is None:
                        continue
                    caps = [b.op_path(o) for o in rv["ops"]]
                    for c in ctx.calls(cb):
                        lc = c.local_callee()
                        if (lc is not None and lc.path in hf) or c.name in ("core::hash::BuildHasher::build_hasher", "core::hash::BuildHasher::hash_one"):
                            p = c.arg_path(0)
                            _, p2 = ctx.resolve(cb, p)
                            if p2 is not None and p2.root == 1 and not p2.fields():
                                out.add(b.path)
        return out
    return ctx.memo("hasher_makers", build)


def hash_forms(ctx):
    """{function or closure path: set of forms} — how each hashing function / re-hash closure of the crate turns a builder and a key into a
    hash: 'build_hasher+hash+finish' or 'hash_one' (which a BuildHasher may override, so the two need not agree)"""
    def build():
        direct = {}
        for b in ctx.facts.bodies.values():
            for c in ctx.calls(b):
                if c.name == "core::hash::BuildHasher::build_hasher":
                    direct.setdefault(b.path, set()).add("build_hasher + hash + finish")
                elif c.name == "core::hash::BuildHasher::hash_one":
                    direct.setdefault(b.path, set()).add("hash_one")
        return direct
    return ctx.memo("hash_forms", build)


def holder_prefix(ctx, path):
    """key of the HashMap value a path goes through (up to the holder's field), or None"""
    holders = ctx.roles.holders
    for n, e in enumerate(path.elems):
        if e[0] == "field" and e[1] in holders:
            return Path(path.root, path.elems[:n]).strip_refs().key()
    return None


def siblings(a, b):
    """two paths that are different fields of one and the same struct value: (adt, field index in a, field index in b) or None"""
    if a is None or b is None or a.root != b.root:
        return None
    ea, eb = a.strip_refs().elems, b.strip_refs().elems
    n = 0
    while n < len(ea) and n < len(eb) and ea[n] == eb[n]:
        n += 1
    if n < len(ea) and n < len(eb) and ea[n][0] == "field" and eb[n][0] == "field" and ea[n][1] == eb[n][1] and ea[n][1] is not None \
            and not str(ea[n][1]).startswith(("tuple", "closure:")):
        return (ea[n][1], ea[n][2], eb[n][2])
    return None


def verbatim_copiers(ctx):
    """{path of a split-table method: index of the argument that is the source} for methods that hand their main table to hashbrown's
    clone / clone_from / clone_from_with_hasher: the copy keeps (or may keep) every element in the bucket the *source's* hasher chose"""
    def build():
        from rules_protocol import HBT
        T = ctx.facts.types
        out = {}
        for b in ctx.facts.bodies.values():
            if b.kind == "Closure" or "self_ty" not in b.raw or T[b.raw["self_ty"]].get("adt") != ctx.roles.S:
                continue
            for c in ctx.calls(b):
                if b.is_cleanup(c.loc.bb):
                    continue
                src = None
                if c.tname == HBT + "clone" or (c.name == "core::clone::Clone::clone" and c.self_adt == "hashbrown::raw::RawTable"):
                    src = c.arg_path(0)
                elif c.tname in (HBT + "clone_from", HBT + "clone_from_with_hasher") or (c.name == "core::clone::Clone::clone_from" and c.self_adt == "hashbrown::raw::RawTable"):
                    src = c.arg_path(1)
                if src is not None and ctx.roles.is_main_place(ctx.resolve(b, src)[1]) and 1 <= src.root <= b.arg_count:
                    out[b.path] = src.root - 1
        return out
    return ctx.memo("verbatim_copiers", build)


def rule_h_agree(ctx):
    R = RuleResult("H-agree", "every hash value and re-hashing closure handed to a split-table operation is derived from the hash builder of the same map "
                   "as the table (handles: their table and hash-builder fields are taken from one map; clone/clone_from: the builder that re-hashes the "
                   "copied leftovers is the one stored in the result); a re-hashing closure computes its result from the element it is handed")
    T = ctx.facts.types
    S = ctx.roles.S
    hf, hm = hash_fns(ctx), hasher_makers(ctx)
    if not hf or not hm:
        R.anchor("hash-fns", "no hashing helper / hasher maker found")
        return R
    # one algorithm: `BuildHasher::hash_one` may be overridden, so a table whose elements are placed by one form and re-hashed or looked up by
    # the other loses them for such a builder
    forms = hash_forms(ctx)
    used = sorted({f for fs in forms.values() for f in fs})
    R.inst(fn="(crate)", hashing_forms=used, verdict="ok" if len(used) <= 1 else "VIOLATION")
    if len(used) > 1:
        by = {f: sorted(p for p, fs in forms.items() if f in fs)[:4] for f in used}
        R.viol("hash-forms:mixed", "-", "hashes are computed in two ways — %s — which a BuildHasher that overrides hash_one need not make agree: an element placed "
               "with one and re-hashed or looked up with the other is lost" % "; ".join("%s in %s" % (f, ", ".join(ps)) for f, ps in by.items()))
    handle_pairs = {}   # adt -> set of (table_field, builder_field or hash_field, kind)
    n = 0
    for b in ctx.facts.bodies.values():
        own = ctx.facts.closure_parent(b)
        if "self_ty" in own.raw and T[own.raw["self_ty"]].get("adt") in (S, ctx.roles.O):
            continue
        if own.path.startswith(ctx.core_module() + "::"):
            continue
        for c in ctx.calls(b):
            lc = c.local_callee()
            if lc is None or "self_ty" not in lc.raw or T[lc.raw["self_ty"]].get("adt") != S or not c.args:
                continue
            recv = c.arg_path(0)
            if recv is None:
                continue
            rkey = holder_prefix(ctx, recv)
            vc = verbatim_copiers(ctx)
            if lc.path in vc and b.kind != "Closure":
                # a verbatim table copy keeps the source's placement: the hasher handed along — which is the one the receiving map goes on
                # using (first clause below) — must be the source map's builder or a clone of it
                srcp = c.arg_path(vc[lc.path])
                skey = holder_prefix(ctx, srcp) if srcp is not None else None
                for a in c.args[1:]:
                    d = b.source_def(a)
                    if d is None or d[1] != "call":
                        continue
                    x = ctx.call_at(b, d[0].bb)
                    xl = x.local_callee()
                    if xl is None or xl.path not in hm:
                        continue
                    bp0 = x.arg_path(0)
                    origin = None
                    if bp0 is not None:
                        origin = holder_prefix(ctx, bp0)
                        if origin is None and not (1 <= bp0.root <= b.arg_count):
                            dd = b.unique_def(bp0.strip_refs().root)
                            if dd is not None and dd[1] == "call":
                                cc = ctx.call_at(b, dd[0].bb)
                                if cc.name == "core::clone::Clone::clone" and cc.arg_path(0) is not None:
                                    origin = holder_prefix(ctx, cc.arg_path(0))
                    if origin != skey and origin is not None and bp0 is not None:
                        # the receiving map's own builder, but only just replaced by a clone of the source's
                        bk = bp0.strip_refs().key()
                        for loc2, st2 in b.all_assigns():
                            if b.is_cleanup(loc2.bb) or not st2["place"]["proj"] or st2["rv"]["k"] != "use" or not b.dominates(loc2, c.loc):
                                continue
                            if b.expand(st2["place"]).strip_refs().key() != bk:
                                continue
                            sd2 = b.source_def(st2["rv"]["op"])
                            if sd2 is not None and sd2[1] == "call":
                                cc = ctx.call_at(b, sd2[0].bb)
                                if cc.name == "core::clone::Clone::clone" and cc.arg_path(0) is not None and holder_prefix(ctx, cc.arg_path(0)) == skey:
                                    origin = skey
                    n += 1
                    okv = skey is not None and origin == skey
                    R.inst(fn=b.path, site=c.where(), callee=lc.name, copies_from=str(srcp), builder_from=str(bp0), verdict="ok: the source's builder" if okv else "VIOLATION")
                    if not okv:
                        R.viol("%s:%s:source-builder" % (b.path, lc.name), c.where(), "%s copies the table of %s bucket for bucket (every element stays where %s's hasher put it) "
                               "but goes on with a hasher built from %s: lookups in the copy hash differently from its layout whenever the two builders differ"
                               % (lc.path, srcp, srcp, bp0))
            for i, a in enumerate(c.args[1:], 1):
                d = b.source_def(a)
                hcall = None
                if d is not None and d[1] == "call":
                    x = ctx.call_at(b, d[0].bb)
                    xl = x.local_callee()
                    if xl is not None and (xl.path in hf or xl.path in hm):
                        hcall = x
                aty = T[a["place"]["ty"]] if a["k"] in ("copy", "move") else None
                if hcall is None:
                    # a hash passed on from a handle field / parameter
                    if aty is not None and aty["s"] == "u64":
                        p = b.op_path(a)
                        sib = siblings(recv, p)
                        if p is not None and p.fields() and 1 <= p.root <= b.arg_count and sib is not None:
                            # field of a handle next to the table: obligation at construction
                            f = p.fields()[-1]
                            handle_pairs.setdefault(sib[0], set()).add((sib[1], sib[2], "hash"))
                            n += 1
                            R.inst(fn=b.path, site=c.where(), arg="hash", source="handle field %s" % f[3], verdict="checked at construction")
                        elif p is not None and 1 <= p.root <= b.arg_count and not p.fields():
                            R.inst(fn=b.path, site=c.where(), arg="hash", source="parameter (caller-supplied by API contract)", verdict="exempt")
                    continue
                n += 1
                bp = hcall.arg_path(0)
                key = "%s:%s:arg%d" % (b.path, lc.name, i)
                bkey = holder_prefix(ctx, bp) if bp is not None else None
                if b.kind == "Closure" and bp is not None and (bkey is None or rkey is None):
                    # table and builder captured separately (`|k| { make_hash(&self.hash_builder, k); self.table.find(..) }`): compare
                    # what the captures are in the enclosing function
                    b2, recv2 = ctx.resolve(b, recv)
                    b3, bp2 = ctx.resolve(b, bp)
                    if b2 is b3 and b2 is not b and recv2 is not None and bp2 is not None:
                        k1, k2 = holder_prefix(ctx, recv2), holder_prefix(ctx, bp2)
                        if k1 is not None and k2 is not None:
                            ok = k1 == k2
                            R.inst(fn=b.path, site=c.where(), callee=lc.name, builder=str(bp2), table=str(recv2), verdict="ok" if ok else "VIOLATION")
                            if not ok:
                                R.viol(key, c.where(), "%s is given a hash(er) built from %s while the table is %s: lookups/re-hashing would use another map's hasher"
                                       % (lc.path, bp2, recv2))
                            continue
                if bkey is not None and rkey is not None:
                    ok = bkey == rkey
                    R.inst(fn=b.path, site=c.where(), callee=lc.name, builder=str(bp), table=str(recv), verdict="ok" if ok else "VIOLATION")
                    if not ok:
                        R.viol(key, c.where(), "%s is given a %s built from %s while the table is %s: lookups/re-hashing would use another map's hasher"
                               % (lc.path, "hash" if aty and aty["s"] == "u64" else "hasher", bp, recv))
                    continue
                sib = siblings(recv, bp)
                if bp is not None and 1 <= bp.root <= b.arg_count and sib is not None and bkey is None and rkey is None:
                    # two fields of a handle (table: &mut RawTable, hash_builder: &S)
                    handle_pairs.setdefault(sib[0], set()).add((sib[1], sib[2], "builder"))
                    R.inst(fn=b.path, site=c.where(), callee=lc.name, builder=str(bp), table=str(recv), verdict="checked at construction")
                    continue
                # builder is a local value (clone of a builder): must end up stored with the table
                if bp is not None and not (1 <= bp.root <= b.arg_count):
                    ok, why = _local_builder_paired(ctx, b, c, bp, recv, rkey)
                    R.inst(fn=b.path, site=c.where(), callee=lc.name, builder="local %s" % b.local_name(bp.root), verdict="ok: " + why if ok else "VIOLATION")
                    if not ok:
                        R.viol(key, c.where(), "the elements copied by %s are hashed with a local builder that %s" % (lc.name, why))
                    continue
                R.inst(fn=b.path, site=c.where(), callee=lc.name, builder=str(bp), table=str(recv), verdict="VIOLATION")
                R.viol(key + ":unproven", c.where(), "cannot relate the hash builder %s to the table %s (unproven)" % (bp, recv))
    # H-stable: the hash builder of an existing map is only ever replaced by the builder that hashed the table's present contents
    builder_fields = set()
    for adt, idx in ctx.roles.holders.items():
        a = ctx.facts.adts[adt]
        for i, f in enumerate(a["variants"][0]["fields"]):
            if i != idx and T[f["ty"]].get("k") == "param":
                builder_fields.add((adt, i))
    for b in ctx.facts.bodies.values():
        if b.kind == "Closure":
            pass
        writes = []
        for loc, st in b.all_assigns():
            if b.is_cleanup(loc.bb) or not st["place"]["proj"]:
                continue
            pth = b.expand(st["place"], alias=True)
            fs = pth.fields()
            if fs and (fs[-1][1], fs[-1][2]) in builder_fields and 1 <= pth.root <= b.arg_count:
                writes.append((loc, "assign", st, pth))
        for c in ctx.calls(b):
            if b.is_cleanup(c.loc.bb):
                continue
            for i, a in enumerate(c.args):
                if a["k"] not in ("copy", "move"):
                    continue
                at = T[a["place"]["ty"]]
                if at.get("k") == "ref" and at.get("mut"):
                    pth = c.arg_path(i)
                    fs = pth.fields() if pth is not None else []
                    if fs and (fs[-1][1], fs[-1][2]) in builder_fields:
                        writes.append((c.loc, "call", c, pth))
        for loc, kind, obj, pth in writes:
            n += 1
            key = "%s:builder-write" % b.path
            if kind == "call":
                R.inst(fn=b.path, site=b.where(loc), write="&mut builder passed to %s" % obj.tname, verdict="VIOLATION")
                R.viol(key + ":" + str(obj.tname), b.where(loc), "the map's hash builder is modified in place by %s: elements already in the table were hashed with the previous builder" % obj.tname)
                continue
            # assignment: the assigned value must be the local builder that hashed the contents (checked by _local_builder_paired) —
            # i.e. some split-table call in this body took a hasher made from the same local
            src = b.op_path(obj["rv"]["op"]) if obj["rv"]["k"] == "use" else None
            ok = False
            if src is not None:
                for c in ctx.calls(b):
                    lc = c.local_callee()
                    if lc is None or "self_ty" not in lc.raw or T[lc.raw["self_ty"]].get("adt") != S or not b.dominates(c.loc, loc):
                        continue
                    for a in c.args[1:]:
                        d = b.source_def(a)
                        if d is not None and d[1] == "call":
                            x = ctx.call_at(b, d[0].bb)
                            xl = x.local_callee()
                            if xl is not None and (xl.path in hf or xl.path in hm) and x.arg_path(0) is not None and x.arg_path(0).root == src.root:
                                ok = True
            if not ok:
                # alternative: the builder is installed first and the table's contents are then replaced wholesale, hashed with the installed builder
                from rules_protocol import hb_calls, HBT
                wholesale = set()
                for hb_body, hc, hrole, _ in hb_calls(ctx):
                    if hrole == "MAIN" and hc.tname in (HBT + "clone_from", HBT + "clone_from_with_hasher", HBT + "clear"):
                        wholesale.add(ctx.facts.closure_parent(hb_body).path)
                hk = Path(pth.root, pth.elems[:-1]).strip_refs().key()
                for c in ctx.calls(b):
                    lc = c.local_callee()
                    if lc is None or lc.path not in wholesale or not b.dominates(loc, c.loc):
                        continue
                    rk = holder_prefix(ctx, c.arg_path(0)) if c.arg_path(0) is not None else None
                    if rk != hk:
                        continue
                    for a in c.args[1:]:
                        d = b.source_def(a)
                        if d is not None and d[1] == "call":
                            x = ctx.call_at(b, d[0].bb)
                            xl = x.local_callee()
                            if xl is not None and (xl.path in hf or xl.path in hm) and x.arg_path(0) is not None and holder_prefix(ctx, x.arg_path(0)) == hk:
                                ok = True
            R.inst(fn=b.path, site=b.where(loc), write="builder := %s" % (b.local_name(src.root) if src is not None else "?"), verdict="ok" if ok else "VIOLATION")
            if not ok:
                R.viol(key, b.where(loc), "the map's hash builder is replaced by a value that did not hash the table's contents")
    # handle constructions (worklist: a handle built from another handle's fields moves the obligation to that handle)
    done = set()
    while True:
        todo = [(adt, pr) for adt, prs in list(handle_pairs.items()) for pr in list(prs) if (adt, pr) not in done]
        if not todo:
            break
        for adt, pr in todo:
            done.add((adt, pr))
            _check_handle(ctx, R, hf, handle_pairs, adt, {pr})
    if n < 10:
        R.anchor("sites", "expected >= 10 hash/hasher arguments at split-table calls, found %d" % n)
    # a re-hashing closure hashes the element it is handed: a closure of the crate of shape Fn(&T) -> u64 that is passed to a split-table operation
    # and returns on some path must compute its result from its argument (`|x| hasher(&x.0)`), not hand back a captured value (`|_| hash`: every
    # element moved during that call would be filed under the new key's hash).  The stub `|_| unreachable!()` never returns.
    nre = 0
    for b in ctx.facts.bodies.values():
        for c in ctx.calls(b):
            lc = c.local_callee()
            if lc is None or b.is_cleanup(c.loc.bb) or "self_ty" not in lc.raw or T[lc.raw["self_ty"]].get("adt") != S:
                continue
            for cb in c.closure_args():
                if cb.arg_count != 2 or T[cb.locals[0]["ty"]].get("s") != "u64" or not cb.return_blocks():
                    continue
                nre += 1
                dep = False
                for rb in cb.return_blocks():
                    ret_op = {"k": "copy", "place": {"local": 0, "proj": [], "ty": cb.locals[0]["ty"]}}
                    _, args_ = cb.slice_back(Loc(rb, len(cb.stmts(rb))), [ret_op])
                    if 2 in args_:
                        dep = True
                if not dep:
                    # hashed through a `&mut` state (`val.0.hash(&mut state); state.finish()`): the element is at least read by a call
                    for x_ in ctx.calls(cb):
                        for i_ in range(len(x_.args)):
                            q_ = x_.arg_path(i_)
                            if q_ is not None and q_.strip_refs().root == 2:
                                dep = True
                R.inst(fn=b.path, site=c.where(), rehasher=cb.path, verdict="ok: computed from the element" if dep else "VIOLATION")
                if not dep:
                    R.viol("%s:rehasher-ignores-element" % cb.path, c.where(), "the re-hashing closure %s handed to %s does not compute its result from the element it is "
                           "given: elements moved or re-hashed during that call are filed under a hash that is not theirs" % (cb.path, lc.path))

    return R


def _check_handle(ctx, R, hf, handle_pairs, adt, pairs):
    if True:
        for b in ctx.facts.bodies.values():
            for loc, st in b.all_assigns():
                rv = st["rv"]
                if rv["k"] != "aggregate" or rv.get("adt") != adt:
                    continue
                for tf, of, kind in pairs:
                    top, oop = rv["ops"][tf], rv["ops"][of]
                    tp = b.op_path(top)
                    key = "%s:construct:%s" % (b.path, adt)
                    tk = holder_prefix(ctx, tp) if tp is not None else None
                    if tk is None and tp is not None:
                        # the table field may hold the whole map (&mut HashMap): its own path is the holder
                        tk = tp.strip_refs().key()
                    if kind == "builder":
                        op_ = b.op_path(oop)
                        ok = False
                        if op_ is not None and tp is not None:
                            ok_ = holder_prefix(ctx, op_)
                            ok = ok_ is not None and ok_ == holder_prefix(ctx, tp)
                            if not ok:
                                # copied together from another handle of a sibling kind: both are fields of the same source value
                                sib = siblings(tp, op_)
                                if sib is not None:
                                    handle_pairs.setdefault(sib[0], set()).add((sib[1], sib[2], "builder"))
                                    ok = True
                        R.inst(fn=b.path, site=b.where(loc), handle=adt, verdict="ok" if ok else "VIOLATION")
                        if not ok:
                            R.viol(key, b.where(loc), "%s is built with a table and a hash builder that do not come from the same map" % adt)
                    else:
                        d = b.source_def(oop)
                        ok = False
                        why = "hash is not computed at the construction"
                        if d is not None and d[1] == "call":
                            x = ctx.call_at(b, d[0].bb)
                            xl = x.local_callee()
                            if xl is not None and xl.path in hf:
                                bk = holder_prefix(ctx, x.arg_path(0))
                                ok = bk is not None and bk == tk
                                why = "hash built from %s, table %s" % (x.arg_path(0), tp)
                        else:
                            q = b.op_path(oop)
                            if q is not None and 1 <= q.root <= b.arg_count and not q.fields():
                                ok = True   # caller-supplied hash (raw-entry API contract)
                            elif siblings(tp, q) is not None:
                                # copied together with the table from another handle: the obligation moves to that handle's constructions
                                sib = siblings(tp, q)
                                handle_pairs.setdefault(sib[0], set()).add((sib[1], sib[2], "hash"))
                                ok = True
                                why = "copied with the table from %s" % sib[0]
                        R.inst(fn=b.path, site=b.where(loc), handle=adt, verdict="ok" if ok else "VIOLATION")
                        if not ok:
                            R.viol(key + ":hash", b.where(loc), "%s stores a hash that was not computed with the hash builder of the map it stores (%s)" % (adt, why))


def _local_builder_paired(ctx, b, c, bp, recv, rkey):
    """clone: HashMap { hash_builder: hb, table: result }; clone_from: recv_holder.hash_builder = hb after the call, last effect"""
    hb = bp.root
    holders = ctx.roles.holders
    # (i) aggregate
    for loc, st in b.all_assigns():
        rv = st["rv"]
        if rv["k"] == "aggregate" and rv.get("adt") in holders:
            roots = [b.op_path(o).root if b.op_path(o) is not None else None for o in rv["ops"]]
            if hb in roots and c.dest is not None and c.dest["local"] in roots:
                return True, "is stored next to the new table in the returned map"
    # (ii) assignment to the holder's builder field after the call
    for loc, st in b.all_assigns():
        if b.is_cleanup(loc.bb) or not st["place"]["proj"]:
            continue
        p = b.expand(st["place"])
        if p.fields() and p.fields()[-1][1] in holders and p.fields()[-1][2] != holders[p.fields()[-1][1]]:
            hk = Path(p.root, p.elems[:-1]).strip_refs().key()
            src = b.op_path(st["rv"]["op"]) if st["rv"]["k"] == "use" else None
            if src is not None and src.root == hb and hk == rkey:
                if not b.dominates(c.loc, loc):
                    return False, "is installed in the destination *before* the copy (a panic while cloning leaves the destination with a hasher that does not match its elements)"
                # nothing that can unwind after the assignment
                after = b.reach_from([loc.bb])
                for x in after:
                    t = b.term(x)
                    if t["k"] == "call" and x != loc.bb:
                        return False, "is installed but further calls follow the installation"
                # installed on every normal path
                if not all(loc.bb in b.dom().get(rb, set()) for rb in b.return_blocks()):
                    return False, "is not installed in the destination on every path"
                return True, "is installed as the destination's builder after the copy, as the last effect"
    return False, "is never stored in the map that receives the copies"
