"""C13 — D-set: HashSet methods are thin delegations to the corresponding HashMap operation with the same key."""
from core import Loc
from engine import RuleResult
from symexec import api_of

# set method -> (map method(s) acceptable, index of the key/argument parameter in the set method or None, result adapter)
DELEGATION = {
    "insert": (["HashMap::insert"], 2, "is_none"),
    "remove": (["HashMap::remove"], 2, "is_some"),
    "contains": (["HashMap::contains_key"], 2, None),
    "get": (["HashMap::get_key_value"], 2, None),
    "take": (["HashMap::remove_entry"], 2, None),
    "len": (["HashMap::len"], None, None),
    "is_empty": (["HashMap::is_empty"], None, None),
    "capacity": (["HashMap::capacity"], None, None),
    "clear": (["HashMap::clear"], None, None),
    "iter": (["HashMap::keys"], None, None),
    "drain": (["HashMap::drain"], None, None),
    "retain": (["HashMap::retain"], None, None),
    "reserve": (["HashMap::reserve"], 2, None),
    "try_reserve": (["HashMap::try_reserve"], 2, None),
    "shrink_to_fit": (["HashMap::shrink_to_fit"], None, None),
    "shrink_to": (["HashMap::shrink_to"], 2, None),
    "hasher": (["HashMap::hasher"], None, None),
    "replace": (["HashMap::entry"], 2, None),
    "get_or_insert": (["HashMap::raw_entry_mut"], None, None),
    "get_or_insert_owned": (["HashMap::raw_entry_mut"], None, None),
    "get_or_insert_with": (["HashMap::raw_entry_mut"], None, None),
    "with_capacity_and_hasher": (["HashMap::with_capacity_and_hasher"], 1, None),
    "with_hasher": (["HashMap::with_hasher"], 1, None),
}


def rule_d_set(ctx):
    R = RuleResult("D-set", "each HashSet operation is one call of the corresponding HashMap operation on the set's own map, with the caller's key passed "
                   "through, reached on every path, and with the documented result adapter (insert: is_none, remove: is_some)")
    found = 0
    for b in ctx.facts.bodies.values():
        if b.kind == "Closure":
            continue
        api = api_of(b.path)
        if not api or not api.startswith("HashSet::"):
            continue
        m = api.split("::")[1]
        if m not in DELEGATION:
            continue
        found += 1
        targets, kidx, adapter = DELEGATION[m]
        key = "HashSet::%s" % m
        calls = [c for c in ctx.calls(b) if not b.is_cleanup(c.loc.bb) and c.local_callee() is not None and api_of(c.local_callee().path) in targets]
        if len(calls) != 1:
            R.inst(fn=b.path, verdict="VIOLATION")
            R.viol(key + ":delegate", b.where(Loc(0, 0)), "%s makes %d calls of %s (expected exactly one)" % (b.path, len(calls), " / ".join(targets)))
            continue
        c = calls[0]
        ok = True
        why = []
        # receiver: self.map (for constructors there is no receiver)
        if m not in ("with_capacity_and_hasher", "with_hasher"):
            rp = c.arg_path(0)
            if rp is None or rp.root != 1 or len(rp.fields()) != 1:
                ok = False
                why.append("receiver is not the set's own map")
        # reached on every path
        if not b.return_blocks() or not all(c.loc.bb in b.dom().get(rb, set()) for rb in b.return_blocks()):
            ok = False
            why.append("the map operation is not executed on every path to the return")
        # key passed through
        if kidx is not None:
            ai = 1 if m not in ("with_capacity_and_hasher", "with_hasher") else 0
            ap = c.arg_path(ai) if ai < len(c.args) else None
            want = kidx if m not in ("with_capacity_and_hasher", "with_hasher") else 1
            if ap is None or ap.root != want or ap.fields():
                ok = False
                why.append("argument %d of the map call is not the set method's own parameter" % ai)
        if adapter:
            ad = [x for x in ctx.calls(b) if x.name == "core::option::Option::" + adapter and x.dest and x.dest["local"] == 0]
            src_ok = False
            for x in ad:
                p = x.arg_path(0)
                if p is not None and p.root == c.dest["local"]:
                    src_ok = True
            if not src_ok:
                # the same adapter written as a match: `match map_call { None => true, Some(_) => false }` (is_none) or the reverse
                from rules_typestate import option_test_edges, N as N_, S as S_
                dl = c.dest["local"]
                edges = option_test_edges(ctx, b, lambda p, dl=dl: p.root == dl and not p.fields(), ignore_debug=False)
                want = {N_: 1, S_: 0} if adapter == "is_none" else {N_: 0, S_: 1}
                rl = b.ret_locals()
                vals = {}
                for (x, s_), v in edges.items():
                    region = {y for y in b.reachable() if y == s_ or s_ in b.dom().get(y, set())} if b.preds(s_, True) == [x] else set()
                    for loc2, st2 in b.all_assigns():
                        if loc2.bb in region and st2["place"]["local"] in rl and not st2["place"]["proj"] and st2["rv"]["k"] == "use" \
                                and st2["rv"]["op"]["k"] == "const" and "val" in st2["rv"]["op"]:
                            vals.setdefault(v, set()).add(st2["rv"]["op"]["val"])
                # every value that reaches the return place is one of those constants
                other = False
                for rb in b.return_blocks():
                    for d in b.defs_reaching(Loc(rb, len(b.stmts(rb))), 0):
                        if d[3] == "assign" and d[4]["rv"]["k"] == "use" and d[4]["rv"]["op"]["k"] == "const":
                            continue
                        if d[3] == "assign" and d[4]["rv"]["k"] == "use" and d[4]["rv"]["op"]["k"] in ("copy", "move") \
                                and not d[4]["rv"]["op"]["place"]["proj"] and d[4]["rv"]["op"]["place"]["local"] in rl:
                            continue
                        other = True
                src_ok = not other and vals.get(N_) == {want[N_]} and vals.get(S_) == {want[S_]}
            if not src_ok:
                ok = False
                why.append("result is not `%s()` of the map call's result" % adapter)
        R.inst(fn=b.path, delegates_to=c.tname, verdict="ok" if ok else "VIOLATION")
        if not ok:
            R.viol(key, c.where(), "%s does not delegate faithfully to %s: %s" % (b.path, c.tname, "; ".join(why)))
    if found < 20:
        R.anchor("methods", "expected >= 20 delegating HashSet methods, found %d" % found)
    return R


# ---------------------------------------------------------------------------
# D-ext: bulk insertion is repeated insert
# ---------------------------------------------------------------------------
def rule_d_ext(ctx):
    R = RuleResult("D-ext", "extend / from_iter of maps and sets are `insert` applied to every element (after an up-front reserve): their bodies and closures "
                   "reach the raw table only through the public insert / reserve / constructors or another bulk insertion, never by looking up, erasing or "
                   "inserting raw entries themselves — so a key that is already present keeps its stored key whichever table it lives in")
    from rules_cost import api_name
    from rules_handle import s_method, _adds_or_removes
    T = ctx.facts.types
    ar = _adds_or_removes(ctx)
    ALLOWED = {"HashMap::insert", "HashSet::insert", "HashMap::reserve", "HashSet::reserve", "HashMap::is_empty", "HashSet::is_empty", "HashMap::len",
               "HashSet::len", "HashMap::with_capacity_and_hasher", "HashSet::with_capacity_and_hasher", "HashMap::with_hasher", "HashSet::with_hasher",
               "HashMap::default", "HashSet::default"}
    n = 0
    for b in ctx.facts.bodies.values():
        if b.kind == "Closure" or "self_ty" not in b.raw:
            continue
        tr = b.raw.get("trait") or ""
        if not ((tr == "core::iter::Extend" and b.name == "extend") or (tr == "core::iter::FromIterator" and b.name == "from_iter")):
            continue
        if T[b.raw["self_ty"]].get("adt") not in ctx.roles.holders and not any(T[b.raw["self_ty"]].get("adt") == h for h in ("griddle::set::HashSet",)) \
                and "HashSet" not in T[b.raw["self_ty"]]["s"]:
            continue
        n += 1
        bad = []
        feeds = False
        for bd in [b] + ctx.facts.closures_of(b):
            for c in ctx.calls(bd):
                if bd.is_cleanup(c.loc.bb):
                    continue
                lc = c.local_callee()
                if lc is None or lc.kind == "Closure":
                    continue
                an = api_name(lc.path)
                ltr = lc.raw.get("trait") or ""
                if an in ("HashMap::insert", "HashSet::insert") or (ltr in ("core::iter::Extend", "core::iter::FromIterator")):
                    feeds = True
                    continue
                if an in ALLOWED or ltr == "core::default::Default":
                    continue
                if s_method(ctx, c) is not None or lc.path in ar:
                    bad.append("%s @ %s" % (c.tname, c.where()))
        R.inst(fn=b.path, feeds_insert=feeds, verdict="ok" if (feeds and not bad) else "VIOLATION")
        if bad:
            R.viol("%s:raw" % b.path, b.where(Loc(0, 0)), "%s works on the raw table itself (%s) instead of going through insert: what happens to a key that is "
                   "already present then depends on this code, not on insert (which keeps the stored key)" % (b.path, "; ".join(bad[:4])))
        elif not feeds:
            R.viol("%s:no-insert" % b.path, b.where(Loc(0, 0)), "%s does not hand its elements to insert or to another bulk insertion" % b.path)
    R.floor(4, "bulk insertions")
    return R


# ---------------------------------------------------------------------------------------------------------------------
# D-map: the map's own one-line operations really perform the split-table operation they stand for
# ---------------------------------------------------------------------------------------------------------------------
D_MAP_TABLE = {
    # API function: name(s) of the operation that must be reached on every path (a method of the split table, or of the map itself
    # that in turn is in this table), applied to (part of) self
    "HashMap::clear": ("clear",),
    "HashMap::reserve": ("reserve",),
    "HashMap::try_reserve": ("try_reserve",),
    "HashMap::shrink_to": ("shrink_to",),
    "HashMap::shrink_to_fit": ("shrink_to", "shrink_to_fit"),
    "HashMap::drain": ("drain",),
    "HashMap::remove_entry": ("remove_entry", "remove?found"),
    "HashMap::remove": ("remove_entry", "remove", "remove?found"),
}
# `name?found`: the split table's bucket-level operation, required only on the paths where the lookup found a bucket (the `None` edge of a test
# of an Option<located bucket> is a path on which there is nothing to act on)


PERFORMS = [
    # (self type's short name or None, function name, path suffix or None) -> the operation(s) one of which every path must reach
    (("HashMap", "clone_from", None), ("clone_from_with_hasher", "clone_from@table")),
    (("HashMap", "clone", None), ("clone_with_hasher", "clone@table")),
    (("HashSet", "clone_from", None), ("clone_from@table",)),
    (("HashSet", "clone", None), ("clone@table",)),
    (("@S", "clear", None), ("clear",)),
    (("@S", "shrink_to", None), ("shrink_to",)),
    (("@S", "drain", None), ("drain",)),
    (("HashMap", "from_iter", None), ("insert", "extend")),
    (("HashSet", "from_iter", None), ("extend", "insert")),
    (("HashMap", "extend", None), ("insert", "extend")),
    (("HashSet", "extend", None), ("extend", "insert")),
    (("HashMap", "par_extend", None), ("extend",)),
    (("HashSet", "par_extend", None), ("extend",)),
    (("HashMap", "from_par_iter", None), ("par_extend", "extend")),
    (("HashSet", "from_par_iter", None), ("par_extend", "extend")),
    ((None, "extend", "rayon::map::extend"), ("extend",)),
    ((None, "extend", "rayon::set::extend"), ("extend",)),
]


def _performs(ctx, b, names, depth=0):
    """None if every path of b from entry to a normal return performs one of `names` (a call of a method so named — not b itself — or a call
    that is handed a closure / function every path of which does; a `for` loop whose body does counts for the loop), else a witness path"""
    from rules_typestate import _must_pass
    done = set()
    polls = []
    for c in ctx.calls(b):
        if b.is_cleanup(c.loc.bb):
            continue
        lc = c.local_callee()
        plain = {x for x in names if "@" not in x}
        on_table = {x.split("@")[0] for x in names if x.endswith("@table")}
        if c.method in plain and not (lc is not None and lc.path == b.path):
            done.add(c.loc.bb)
            continue
        if c.method in on_table and c.arg_path(0) is not None:
            # applied to the table (or the map) held in a field of self — not to, say, the hash builder
            T_ = ctx.facts.types
            q = c.arg_path(0)
            fs = q.fields()
            tid = c.args[0]["place"]["ty"] if c.args[0]["k"] in ("copy", "move") else None
            while tid is not None and T_[tid].get("k") == "ref":
                tid = T_[tid]["inner"]
            if q.strip_refs().root == 1 and fs and tid is not None and (T_[tid].get("adt") == ctx.roles.S or T_[tid].get("adt") in ctx.roles.holders):
                done.add(c.loc.bb)
                continue
        if depth < 3:
            subs = c.closure_args() + c.fn_value_args()
            if subs and all(_performs(ctx, cb, names, depth + 1) is None for cb in subs):
                done.add(c.loc.bb)
                continue
            # a private helper of the same type that does it on every path (`self.insert_pairs(iter)`, `self.extend_pairs(iter)`)
            if lc is not None and lc.kind != "Closure" and lc.path != b.path and not lc.raw.get("exported"):
                if _performs(ctx, lc, names, depth + 1) is None:
                    done.add(c.loc.bb)
                    continue
        if c.method == "next" and c.dest is not None and c.target is not None:
            polls.append(c)
    for P in polls:
        t = b.term(P.target)
        if t["k"] != "switch":
            continue
        some = [tb for v, tb in t["targets"] if v == 1]
        if some and _must_pass_or_back(b, some, done, P.loc.bb) is None:
            done.add(P.loc.bb)
    return _must_pass(b, [0], done, set())


def _must_pass_or_back(b, starts, done, head):
    """a path from `starts` that comes back to `head`, or reaches a return, without passing `done`; None if there is none"""
    seen, st = set(), [(x, [x]) for x in starts]
    while st:
        x, path = st.pop()
        if x in seen or x in done:
            continue
        seen.add(x)
        if x == head or b.term(x)["k"] == "return":
            return path
        for s_ in b.succs(x):
            st.append((s_, path + [s_]))
    return None


def rule_d_map(ctx):
    R = RuleResult("D-map", "the map's delegating operations perform the split-table operation they stand for on every path (clear, reserve, try_reserve, shrink_to, "
                   "shrink_to_fit, drain, remove, remove_entry: a frozen table read off the tree); every `insert*` operation of the map and of its entry handles "
                   "moves the value it is given into the table (or hands it back) on every path — it is never just dropped; an allocation is pre-sized from the "
                   "lower bound of a caller's size_hint only")
    from rules_cost import entry_points
    from rules_typestate import _must_pass
    T = ctx.facts.types
    eps = entry_points(ctx)
    n = 0
    for api, names in D_MAP_TABLE.items():
        b = eps.get(api)
        if b is None:
            R.anchor("entry:%s" % api, "entry point %s no longer exists" % api)
            continue
        n += 1
        done = set()
        plain = {x for x in names if "?" not in x}
        found_only = {x.split("?")[0] for x in names if x.endswith("?found")}
        absent = set()
        for bd in [b]:
            for c in ctx.calls(bd):
                lc = c.local_callee()
                if lc is None or lc.kind == "Closure" or bd.is_cleanup(c.loc.bb) or lc.path == b.path:
                    continue
                p = c.arg_path(0)
                if lc.name in plain and p is not None and p.strip_refs().root == 1:
                    done.add(c.loc.bb)
                elif lc.name in found_only and p is not None and p.strip_refs().root == 1 and "self_ty" in lc.raw and T[lc.raw["self_ty"]].get("adt") == ctx.roles.S \
                        and any(T[a_["place"]["ty"]].get("adt") == ctx.roles.B for a_ in c.args[1:] if a_["k"] in ("copy", "move")):
                    done.add(c.loc.bb)
                    # the edges on which a lookup came back empty
                    for x in b.reachable():
                        tx = b.term(x)
                        if tx["k"] != "switch":
                            continue
                        dd = b.source_def(tx["discr"])
                        if dd is None or dd[1] != "assign" or dd[2]["rv"]["k"] != "discr":
                            continue
                        pt = T[dd[2]["rv"]["place"]["ty"]]
                        if pt.get("adt") == "core::option::Option" and pt.get("args") and T[pt["args"][0]].get("adt") == ctx.roles.B:
                            for v, tb in tx["targets"]:
                                if v == 0:
                                    absent.add((x, tb))
                            if not any(v == 0 for v, _ in tx["targets"]):
                                absent.add((x, tx["otherwise"]))
        w = _must_pass(b, [0], done, absent) if done else [0]
        R.inst(api=api, fn=b.path, performs=list(names), verdict="ok" if w is None else "VIOLATION")
        if w is not None:
            R.viol("%s:not-performed" % api, b.where(Loc(w[-1], 0)), "%s can return (path %s) without applying %s to its own table: the operation does nothing there"
                   % (api, " -> ".join("bb%d" % x for x in w), " / ".join(names)))
    # the same for trait implementations, the split table's own wholesale operations and the parallel-extend helpers
    S = ctx.roles.S
    for (tyname, fname, suffix), names in PERFORMS:
        hits = 0
        for b in ctx.facts.bodies.values():
            if b.kind == "Closure" or b.name != fname:
                continue
            if suffix is not None:
                if not b.path.endswith(suffix):
                    continue
            else:
                st = T[b.raw["self_ty"]] if "self_ty" in b.raw else {}
                adt = st.get("adt", "")
                if tyname == "@S":
                    if adt != S:
                        continue
                elif adt.rsplit("::", 1)[-1] != tyname or adt not in ctx.roles.holders and not any(adt in hs for hs in [ctx.roles.holders]) and \
                        not any(ctx.facts.types[f["ty"]].get("adt") in ctx.roles.holders for v in ctx.facts.adts.get(adt, {"variants": []})["variants"] for f in v["fields"]):
                    continue
            hits += 1
            n += 1
            w = _performs(ctx, b, names)
            R.inst(fn=b.path, performs=list(names), verdict="ok" if w is None else "VIOLATION")
            if w is not None:
                R.viol("%s:not-performed" % b.path, b.where(Loc(w[-1], 0)), "%s can return (path %s) without performing %s: the operation does nothing on that path"
                       % (b.path, " -> ".join("bb%d" % x for x in w), " / ".join(names)))
        if not hits and suffix is None and tyname != "@S" and fname in ("clone_from", "from_iter", "extend"):
            R.anchor("performs:%s::%s" % (tyname, fname), "no implementation of %s for %s found" % (fname, tyname))
    # insert*: the value goes somewhere
    m = 0
    for b in ctx.facts.bodies.values():
        if b.kind == "Closure" or not b.name.startswith("insert") or not b.raw.get("exported") or not b.path.startswith(ctx.facts.crate + "::map"):
            continue
        for l in range(1, b.arg_count + 1):
            t = T[b.locals[l]["ty"]]
            if t.get("k") != "param" or t.get("name") != "V":
                continue
            m += 1
            moved = set()
            for bb in b.reachable():
                if b.is_cleanup(bb):
                    continue
                for st in b.stmts(bb):
                    if st["k"] == "assign":
                        rv = st["rv"]
                        ops = [rv.get("op"), rv.get("a"), rv.get("b")] + list(rv.get("ops", []))
                        if any(isinstance(o, dict) and o.get("k") == "move" and o["place"]["local"] == l and not o["place"]["proj"] for o in ops):
                            moved.add(bb)
                tt = b.term(bb)
                if tt["k"] == "call" and any(a["k"] == "move" and a["place"]["local"] == l and not a["place"]["proj"] for a in tt["args"]):
                    moved.add(bb)
            w = _must_pass(b, [0], moved, set())
            R.inst(fn=b.path, value_parameter=b.local_name(l), verdict="ok" if w is None else "VIOLATION")
            if w is not None:
                R.viol("%s:value-dropped" % b.path, b.where(Loc(w[-1], 0)), "%s can return (path %s) without having moved its value argument anywhere: the value the caller "
                       "asked to store is dropped" % (b.path, " -> ".join("bb%d" % x for x in w)))
    R.floor(6, "delegating map operations")
    if m < 5:
        R.anchor("insert-ops", "expected >= 5 insert operations taking a value, found %d" % m)
    # pre-sizing uses the LOWER bound of a caller's size_hint only: the upper bound is advisory and may be usize::MAX for a short iterator
    # (`(0..usize::MAX).take_while(..)`), so sizing an allocation from it panics with "capacity overflow" (or allocates without bound) where a
    # reference map just collects the few elements
    npre = 0
    for b in ctx.facts.bodies.values():
        hints = [c for c in ctx.calls(b) if c.method == "size_hint" and c.unresolved and c.dest is not None and not c.dest["proj"] and not b.is_cleanup(c.loc.bb)]
        if not hints:
            continue
        hl = {c.dest["local"] for c in hints}
        for c in ctx.calls(b):
            lc = c.local_callee()
            if lc is None or b.is_cleanup(c.loc.bb) or not (lc.name.startswith("with_capacity") or lc.name in ("reserve", "try_reserve")):
                continue
            T_ = ctx.facts.types
            caps = [a for i_, a in enumerate(c.args) if a["k"] in ("copy", "move") and T_[a["place"]["ty"]].get("s") == "usize"]
            for a in caps:
                npre += 1
                sl, _ = b.slice_back(c.loc, [a])
                upper = None
                for l_ in sl:
                    ops = []
                    if l_.i < len(b.stmts(l_.bb)):
                        st_ = b.stmts(l_.bb)[l_.i]
                        if st_["k"] == "assign":
                            rv_ = st_["rv"]
                            ops = [x for x in (rv_.get("op"), rv_.get("a"), rv_.get("b")) if isinstance(x, dict)] + list(rv_.get("ops", []))
                    elif b.term(l_.bb)["k"] == "call":
                        ops = list(b.term(l_.bb).get("args", []))
                    for o in ops:
                        if o.get("k") in ("copy", "move") and o["place"]["local"] in hl and o["place"]["proj"] and o["place"]["proj"][0].get("k") == "field" \
                                and o["place"]["proj"][0].get("i") == 1:
                            upper = l_
                R.inst(fn=b.path, site=c.where(), presizing=lc.name, verdict="ok: from the lower bound" if upper is None else "VIOLATION")
                if upper is not None:
                    R.viol("%s:presized-from-upper-bound" % b.path, c.where(), "%s sizes %s from the upper bound of the caller's size_hint: advisory, possibly usize::MAX for a "
                           "short iterator — a capacity-overflow panic or an unbounded allocation where a reference map collects the elements" % (b.path, lc.name))

    return R
