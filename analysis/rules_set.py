"""C13 — D-set: HashSet methods are thin delegations to the corresponding HashMap operation with the same key."""
from core import Loc
from engine import RuleResult
from symexec import api_of

# set method -> (map method(s) acceptable, index of the key/argument parameter in the set method or None, result adapter)
DELEGATION = {
    "insert": (["HashMap::insert"], 2, "is_none"),
    "remove": (["HashMap::remove"], 2, "is_some"),
    "contains": (["HashMap::contains_key"], 2, None),
    "get": (["HashMap::get_key_value"], 2, None),
    "take": (["HashMap::remove_entry"], 2, None),
    "len": (["HashMap::len"], None, None),
    "is_empty": (["HashMap::is_empty"], None, None),
    "capacity": (["HashMap::capacity"], None, None),
    "clear": (["HashMap::clear"], None, None),
    "iter": (["HashMap::keys"], None, None),
    "drain": (["HashMap::drain"], None, None),
    "retain": (["HashMap::retain"], None, None),
    "reserve": (["HashMap::reserve"], 2, None),
    "try_reserve": (["HashMap::try_reserve"], 2, None),
    "shrink_to_fit": (["HashMap::shrink_to_fit"], None, None),
    "shrink_to": (["HashMap::shrink_to"], 2, None),
    "hasher": (["HashMap::hasher"], None, None),
    "replace": (["HashMap::entry"], 2, None),
    "get_or_insert": (["HashMap::raw_entry_mut"], None, None),
    "get_or_insert_owned": (["HashMap::raw_entry_mut"], None, None),
    "get_or_insert_with": (["HashMap::raw_entry_mut"], None, None),
    "with_capacity_and_hasher": (["HashMap::with_capacity_and_hasher"], 1, None),
    "with_hasher": (["HashMap::with_hasher"], 1, None),
}


def rule_d_set(ctx):
    R = RuleResult("D-set", "each HashSet operation is one call of the corresponding HashMap operation on the set's own map, with the caller's key passed "
                   "through, reached on every path, and with the documented result adapter (insert: is_none, remove: is_some)")
    found = 0
    for b in ctx.facts.bodies.values():
        if b.kind == "Closure":
            continue
        api = api_of(b.path)
        if not api or not api.startswith("HashSet::"):
            continue
        m = api.split("::")[1]
        if m not in DELEGATION:
            continue
        found += 1
        targets, kidx, adapter = DELEGATION[m]
        key = "HashSet::%s" % m
        calls = [c for c in ctx.calls(b) if not b.is_cleanup(c.loc.bb) and c.local_callee() is not None and api_of(c.local_callee().path) in targets]
        if len(calls) != 1:
            R.inst(fn=b.path, verdict="VIOLATION")
            R.viol(key + ":delegate", b.where(Loc(0, 0)), "%s makes %d calls of %s (expected exactly one)" % (b.path, len(calls), " / ".join(targets)))
            continue
        c = calls[0]
        ok = True
        why = []
        # receiver: self.map (for constructors there is no receiver)
        if m not in ("with_capacity_and_hasher", "with_hasher"):
            rp = c.arg_path(0)
            if rp is None or rp.root != 1 or len(rp.fields()) != 1:
                ok = False
                why.append("receiver is not the set's own map")
        # reached on every path
        if not b.return_blocks() or not all(c.loc.bb in b.dom().get(rb, set()) for rb in b.return_blocks()):
            ok = False
            why.append("the map operation is not executed on every path to the return")
        # key passed through
        if kidx is not None:
            ai = 1 if m not in ("with_capacity_and_hasher", "with_hasher") else 0
            ap = c.arg_path(ai) if ai < len(c.args) else None
            want = kidx if m not in ("with_capacity_and_hasher", "with_hasher") else 1
            if ap is None or ap.root != want or ap.fields():
                ok = False
                why.append("argument %d of the map call is not the set method's own parameter" % ai)
        if adapter:
            ad = [x for x in ctx.calls(b) if x.name == "core::option::Option::" + adapter and x.dest and x.dest["local"] == 0]
            src_ok = False
            for x in ad:
                p = x.arg_path(0)
                if p is not None and p.root == c.dest["local"]:
                    src_ok = True
            if not src_ok:
                ok = False
                why.append("result is not `%s()` of the map call's result" % adapter)
        R.inst(fn=b.path, delegates_to=c.tname, verdict="ok" if ok else "VIOLATION")
        if not ok:
            R.viol(key, c.where(), "%s does not delegate faithfully to %s: %s" % (b.path, c.tname, "; ".join(why)))
    if found < 20:
        R.anchor("methods", "expected >= 20 delegating HashSet methods, found %d" % found)
    return R
