"""Thorough tier: re-derive from hashbrown's own MIR the contract facts the griddle rules depend on (DESIGN §4 'cross-check')."""
import os
import shutil
import subprocess
import tempfile

from core import Facts, Loc
from engine import RuleResult, strip_generics


def hashbrown_facts(ctx):
    def build():
        import extract
        work = tempfile.mkdtemp(prefix="hbfacts-", dir=extract.scratch_root())
        try:
            out = os.path.join(work, "hb.json")
            env = extract.offline_env()
            env["LD_LIBRARY_PATH"] = os.path.join(extract.nightly_sysroot(), "lib") + ":" + env.get("LD_LIBRARY_PATH", "")
            env["RUSTFLAGS"] = "-Zmir-opt-level=0 -Awarnings"
            env["RUSTC_WRAPPER"] = extract.build_driver()
            env.pop("RUSTC_WORKSPACE_WRAPPER", None)
            env["VERIF_CRATE"] = "hashbrown"
            env["VERIF_FACTS_OUT"] = out
            env["CARGO_TARGET_DIR"] = os.path.join(work, "target")
            p = subprocess.run(["cargo", "+nightly", "check", "--offline", "--lib", "--features", "rayon,serde"], cwd=ctx.repo, capture_output=True, text=True, env=env)
            if p.returncode != 0 or not os.path.exists(out):
                return None, p.stderr[-2000:]
            return Facts(out), None
        finally:
            shutil.rmtree(work, ignore_errors=True)
    return ctx.memo("hb_facts", build)


def _body(f, suffix):
    c = [b for p, b in f.bodies.items() if strip_generics(p).endswith(suffix) and b.kind != "Closure"]
    return c[0] if len(c) == 1 else None


def _calls(b, name_part):
    return [(loc, t) for loc, t in b.calls() if name_part in (strip_generics(t.get("callee")) or "") and not b.is_cleanup(loc.bb)]


def rule_x_contract(ctx):
    R = RuleResult("X-contract", "contract facts about hashbrown 0.14.5 that the griddle rules rely on, re-derived from hashbrown's own MIR on this run")
    f, err = hashbrown_facts(ctx)
    if f is None:
        R.anchor("extract", "could not extract hashbrown facts: %s" % err)
        return R

    def fact(key, ok, text):
        R.inst(fact=key, verdict="ok" if ok else "VIOLATION", text=text)
        if not ok:
            R.viol(key, "hashbrown-0.14.5/src/raw/mod.rs", "contract fact no longer holds: %s — the contract table (DESIGN §4) is stale, dependent checks cannot be trusted" % text)

    # (i) replace_bucket_with removes first, then calls the closure
    b = _body(f, "RawTable::replace_bucket_with")
    ok = False
    if b is not None:
        rem = _calls(b, "RawTable::remove")
        usr = [(loc, t) for loc, t in b.calls() if t.get("resolved") is None and "call_once" in (t.get("callee") or "")]
        ok = bool(rem) and bool(usr) and all(b.dominates(rem[0][0], u[0]) for u in usr)
    fact("replace_bucket_with:remove-before-closure", ok, "RawTable::replace_bucket_with removes the element before calling the user closure")
    # (ii) reflect_toggle_full measures pointer distance without a zero-size guard
    b = _body(f, "RawIter::reflect_toggle_full")
    ok = False
    if b is not None:
        off = _calls(b, "offset_from")
        guarded = False
        for loc, t in off:
            for bb in b.dom().get(loc.bb, set()):
                tt = b.term(bb)
                if tt["k"] == "switch" and tt["discr"]["k"] == "const" and "ZERO_SIZED" in tt["discr"].get("text", ""):
                    guarded = True
        ok = bool(off) and not guarded
    fact("reflect_toggle_full:offset_from-unguarded", ok, "RawIter::reflect_* computes offset_from between buckets with no zero-size guard (panics for zero-sized T): P-zst is needed")
    # (iii) RawIter::next returns None on items == 0 before touching memory
    b = _body(f, "<raw::inner::RawIter<T> as core::iter::Iterator>::next") or next((bb for p, bb in f.bodies.items() if "RawIter<T> as core::iter::Iterator>::next" in p), None)
    ok = False
    if b is not None:
        ni = _calls(b, "next_impl")
        for bb in b.reachable():
            tt = b.term(bb)
            if tt["k"] != "switch":
                continue
            d = b.source_def(tt["discr"])
            if d is not None and d[1] == "assign" and d[2]["rv"]["k"] == "binop" and d[2]["rv"]["op"] == "Eq" and b.op_const(d[2]["rv"]["b"]) == 0:
                zero = [tb for v, tb in tt["targets"] if v == 0]
                if ni and zero and all(z == n[0].bb or z in b.dom().get(n[0].bb, set()) for z in zero for n in ni):
                    ok = True
    fact("RawIter::next:items-zero-early-return", ok, "RawIter::next returns None when its item count is 0 without reading the table")
    # (iv) erase marks the slot free, then drops
    b = _body(f, "RawTable::erase")
    ok = False
    if b is not None:
        e, d = _calls(b, "erase_no_drop"), _calls(b, "Bucket::drop")
        ok = bool(e) and bool(d) and b.dominates(e[0][0], d[0][0])
    fact("erase:free-then-drop", ok, "RawTable::erase marks the slot free before dropping the element in place")
    # (v) insert_no_grow neither reallocates nor calls user code
    b = _body(f, "RawTable::insert_no_grow")
    ok = False
    if b is not None:
        bad = [t for loc, t in b.calls() if t.get("resolved") is None or any(x in (t.get("callee") or "") for x in ("reserve", "resize", "rehash"))]
        ok = not bad
    fact("insert_no_grow:no-realloc-no-user-code", ok, "RawTable::insert_no_grow calls neither reserve/resize/rehash nor user code")
    # (vi) reserve / try_reserve only rehash when additional > growth_left
    for nm in ("reserve", "try_reserve"):
        b = _body(f, "RawTable::%s" % nm)
        ok = False
        if b is not None:
            rr = _calls(b, "reserve_rehash")
            for bb in b.reachable():
                tt = b.term(bb)
                if tt["k"] != "switch":
                    continue
                d = b.source_def(tt["discr"])
                if d is not None and d[1] == "call":
                    d = b.source_def(d[2]["args"][0]) if d[2]["args"] else None
                if d is not None and d[1] == "assign" and d[2]["rv"]["k"] == "binop" and d[2]["rv"]["op"] == "Gt":
                    p = b.op_path(d[2]["rv"]["b"])
                    if p is not None and p.fields() and p.fields()[-1][3] == "growth_left" and rr:
                        tru = tt["otherwise"]
                        if all(tru == r[0].bb or tru in b.dom().get(r[0].bb, set()) for r in rr):
                            ok = True
        fact("%s:in-place-when-room" % nm, ok, "RawTable::%s rehashes/reallocates (and calls the hasher) only if additional > growth_left" % nm)
    # (vii) capacity = items + growth_left
    b = _body(f, "RawTable::capacity")
    ok = False
    if b is not None:
        for loc, st in b.all_assigns():
            rv = st["rv"]
            if rv["k"] == "binop" and rv["op"].startswith("Add"):
                names = set()
                for o in (rv["a"], rv["b"]):
                    p = b.op_path(o)
                    if p is not None and p.fields():
                        names.add(p.fields()[-1][3])
                if names == {"items", "growth_left"}:
                    ok = True
    fact("capacity:items+growth_left", ok, "RawTable::capacity() = len() + growth_left")
    # (viii) remove: erase_no_drop then read
    b = _body(f, "RawTable::remove")
    ok = False
    if b is not None:
        e, r = _calls(b, "erase_no_drop"), _calls(b, "Bucket::read")
        ok = bool(e) and bool(r)
    fact("remove:free-and-return", ok, "RawTable::remove marks the slot free and returns the element by value")
    # (ix) into_iter_from trusts the iterator it is given: the owning iterator yields (and later drops) exactly what that iterator covers
    b = _body(f, "RawTable::into_iter_from")
    ok = False
    if b is not None:
        for loc, st in b.all_assigns():
            rv = st["rv"]
            if rv["k"] == "aggregate" and rv.get("agg") == "adt" and (rv.get("adt") or "").endswith("RawIntoIter"):
                for nm, o in zip(rv.get("fields", []), rv["ops"]):
                    if nm == "iter":
                        q = b.op_path(o)
                        ok = q is not None and q.root == 2 and not q.fields()
    fact("into_iter_from:uses-given-iterator", ok, "RawTable::into_iter_from builds the owning iterator around the very iterator it is handed (so it must be the table's own, complete cursor: B-into)")
    R.floor(10, "contract facts")
    return R
