"""Rule-engine plumbing: context, call wrapper, closure capture resolution, results."""
import os
import re
from collections import defaultdict

from core import Facts, Body, Loc, Path, AnalysisError, fmt_term, fmt_place, fmt_op, fmt_rv
from roles import Roles, MAIN, LEFT, OLD, CURSOR


def strip_generics(s):
    """hashbrown::raw::RawTable::<T, A>::erase -> hashbrown::raw::RawTable::erase"""
    if s is None:
        return None
    out = []
    depth = 0
    i = 0
    while i < len(s):
        c = s[i]
        if c == "<":
            # drop a preceding '::'
            if depth == 0 and len(out) >= 2 and out[-1] == ":" and out[-2] == ":":
                out.pop(); out.pop()
            depth += 1
        elif c == ">" and depth > 0 and not (i > 0 and s[i - 1] == "-"):
            depth -= 1
        elif depth == 0:
            out.append(c)
        i += 1
    return "".join(out)


class Call:
    """A call terminator with a canonical callee name.

    name: generic def-path without generic arguments.  For trait methods whose Self type
    is an ADT the *type-qualified* name `<adt path>::<method>` is in `tname`
    (e.g. hashbrown::raw::RawIter::next for <RawIter<T> as Iterator>::next).
    """

    def __init__(self, ctx, body, loc, t):
        self.ctx, self.body, self.loc, self.t = ctx, body, loc, t
        self.name = strip_generics(t.get("callee"))
        self.trait = t.get("trait")
        self.method = self.name.rsplit("::", 1)[-1] if self.name else None
        self.args = t["args"]
        self.resolved = t.get("resolved")
        self.unresolved = self.resolved is None
        self.target = t.get("target")
        self.dest = t.get("dest")
        self.tname = self.name
        self.self_adt = None
        if self.trait and t.get("targs"):
            st = ctx.facts.types[t["targs"][0]]
            while st.get("k") in ("ref",):
                st = ctx.facts.types[st["inner"]]
            if st.get("k") == "adt":
                self.self_adt = st["adt"]
                self.tname = "%s::%s" % (st["adt"], self.method)
        self.indirect = self.name is None

    @property
    def is_unsafe(self):
        return bool(self.t.get("unsafe"))

    def arg_path(self, i):
        if i >= len(self.args):
            return None
        return self.body.op_path(self.args[i])

    def local_callee(self):
        """Body of a resolved griddle-local callee, else None"""
        r = self.resolved
        if r and r.get("local") and r["kind"] == "Item":
            return self.ctx.facts.bodies.get(r["path"])
        return None

    def where(self):
        return self.body.where(self.loc)

    def fn_value_args(self):
        """bodies of griddle functions passed by name (as values) to this call, e.g. `.map(OldTable::into_unmoved)`"""
        out = []
        for a in self.args:
            if a["k"] == "const" and a.get("fn"):
                want = strip_generics(a["fn"])
                for b in self.ctx.facts.bodies.values():
                    if b.kind != "Closure" and strip_generics(b.path) == want:
                        out.append(b)
        return out

    def closure_args(self):
        """closure bodies passed (directly) as arguments of this call"""
        out = []
        for a in self.args:
            b = self.ctx.closure_of_operand(self.body, a)
            if b is not None:
                out.append(b)
        return out

    def __repr__(self):
        return "%s @ %s" % (self.tname or "<indirect>", self.where())


class Violation:
    def __init__(self, rule, key, where, why, props=None):
        self.rule, self.key, self.where, self.why = rule, key, where, why
        self.props = props

    def to_json(self):
        return {"rule": self.rule, "key": self.key, "where": self.where, "why": self.why}


class RuleResult:
    def __init__(self, rule, text):
        self.rule = rule
        self.text = text
        self.instances = []      # list of dicts (samples)
        self.violations = []
        self.obligations = 0
        self.notes = []

    def inst(self, **kw):
        self.instances.append(kw)
        self.obligations += 1

    def viol(self, key, where, why):
        self.violations.append(Violation(self.rule, "%s:%s" % (self.rule, key), where, why))

    def anchor(self, what, why):
        self.violations.append(Violation(self.rule, "ANCHOR:%s:%s" % (self.rule, what), "-", why))

    def floor(self, n, what="instances"):
        if len(self.instances) < n:
            self.anchor(what, "rule %s matched %d %s, fewer than the minimum of %d without which the rule would pass vacuously" % (self.rule, len(self.instances), what, n))


class Ctx:
    def __init__(self, facts, repo="/repo", tier="quick", others=None):
        self.facts = facts
        self.repo = repo
        self.tier = tier
        self.others = others or {}     # config id -> Facts
        self.roles = Roles(facts)
        # private structs that merely carry values from one helper to another (a plan, a lookup result): a field read of a value built
        # in the same body is the operand stored there.  Never the types whose fields have a role by position (the split table, the old-table
        # record, located buckets, composite iterators, handles, holders).
        ro = self.roles
        keep = {ro.S, ro.O, ro.B} | set(ro.composites) | set(ro.handles) | set(ro.holders)
        facts.plain_structs = {p_ for p_, a in facts.adts.items() if a.get("kind") == "Struct" and p_.startswith(facts.crate + "::") and p_ not in keep}
        self._calls = {}
        self._closure_site = None
        self._cache = {}
        # private accessors that hand out the old table (`fn old_table(&self) -> Option<&RawTable<T>>`): their result is followed like the
        # projection it is
        facts.old_accessors = {}
        try:
            from rules_size import _old_table_accessors
            A = facts.adts
            sname = A[ro.S]["variants"][0]["fields"]
            oname = A[ro.O]["variants"][0]["fields"]
            desc = {"left": ("field", ro.S, ro.S_left, sname[ro.S_left]["name"]),
                    "tail": [("downcast", "Some"), ("field", "core::option::Option", 0, None), ("field", ro.O, ro.O_table, oname[ro.O_table]["name"])]}
            found = _old_table_accessors(self)
            facts.old_accessors = {p_: desc for p_ in found}
            if found:
                for b_ in facts.bodies.values():
                    b_.__dict__.pop("_expand_cache", None)
                self._cache.clear()
                self._calls.clear()
        except Exception:
            facts.old_accessors = {}

    # ------------------------------------------------------------------
    def calls(self, body):
        if body.path not in self._calls:
            self._calls[body.path] = [Call(self, body, loc, t) for loc, t in body.calls()]
        return self._calls[body.path]

    def call_at(self, body, bb):
        for c in self.calls(body):
            if c.loc.bb == bb:
                return c
        return None

    def all_calls(self):
        for b in self.facts.bodies.values():
            for c in self.calls(b):
                yield c

    # ------------------------------------------------------------------
    # closures
    def closure_sites(self):
        """closure dpath -> (parent Body, Loc, aggregate stmt)"""
        if self._closure_site is None:
            m = {}
            for b in self.facts.bodies.values():
                for loc, st in b.all_assigns():
                    rv = st["rv"]
                    if rv["k"] == "aggregate" and rv["agg"] == "closure":
                        m[rv["def"]] = (b, loc, st)
            self._closure_site = m
        return self._closure_site

    def closure_of_operand(self, body, op):
        """if operand is (a move/copy of) a closure value created in this body, return the closure Body"""
        if op["k"] not in ("copy", "move"):
            return None
        pl = op["place"]
        ty = self.facts.types[pl["ty"]]
        while ty.get("k") == "ref":
            ty = self.facts.types[ty["inner"]]
        if ty.get("k") == "closure":
            return self.facts.by_dpath.get(ty["def"])
        return None

    def resolve(self, body, path, depth=0):
        """Substitute closure captures: a path rooted at the closure environment (_1.<i>) is replaced by
        the origin path of the captured operand in the parent.  Returns (body, path)."""
        if body.kind != "Closure" or path.root != 1 or depth > 8:
            return body, path
        elems = list(path.elems)
        # env may be by value (_1.i) or by reference ((*_1).i)
        j = 0
        if elems and elems[0][0] == "deref":
            j = 1
        if j < len(elems) and elems[j][0] == "field" and str(elems[j][1]).startswith("closure:"):
            idx = elems[j][2]
            site = self.closure_sites().get(body.dpath)
            if site is None:
                return body, path
            pb, ploc, st = site
            ops = st["rv"]["ops"]
            if idx >= len(ops):
                return body, path
            base = pb.op_path(ops[idx])
            if base is None:
                return body, path
            p = base
            for e in elems[j + 1:]:
                p = p.extend(e)
            return self.resolve(pb, p, depth + 1)
        return body, path

    def role(self, body, path):
        if path is None:
            return None
        r = self.roles.role(path)
        if r is None and body.kind == "Closure":
            b2, p2 = self.resolve(body, path)
            if p2 is not path:
                r = self.roles.role(p2)
        return r

    def call_graph(self):
        """local call graph: body path -> set of callee body paths (resolved local items + closures created)"""
        if "cg" not in self._cache:
            g = defaultdict(set)
            for b in self.facts.bodies.values():
                for c in self.calls(b):
                    lc = c.local_callee()
                    if lc is not None:
                        g[b.path].add(lc.path)
                for loc, st in b.all_assigns():
                    rv = st["rv"]
                    if rv["k"] == "aggregate" and rv["agg"] == "closure":
                        cb = self.facts.by_dpath.get(rv["def"])
                        if cb is not None:
                            g[b.path].add(cb.path)
            self._cache["cg"] = g
        return self._cache["cg"]

    def reachable_bodies(self, start_path):
        g = self.call_graph()
        seen = {start_path}
        st = [start_path]
        while st:
            x = st.pop()
            for y in g.get(x, ()):
                if y not in seen:
                    seen.add(y)
                    st.append(y)
        return seen

    def batch_const(self):
        """value of the batch-size constant (the property's R): the crate's usize constant named `R` wherever it lives, else the only
        crate-level usize constant"""
        cs = [c for c in self.facts.consts.values() if c.get("ty") == "usize" and c.get("val") is not None]
        named = [c for c in cs if c["path"].rsplit("::", 1)[-1] == "R"]
        pick = named if len(named) == 1 else (cs if len(cs) == 1 else [])
        return pick[0]["val"] if pick else None

    def core_module(self):
        """definition module of the split table (griddle::raw), from the ADT's own path"""
        return self.roles.S.rsplit("::", 1)[0]

    def memo(self, key, fn):
        if key not in self._cache:
            self._cache[key] = fn()
        return self._cache[key]


def in_macro(span, *names):
    return any(m in names or m.split("::")[-1] in names for m in span["macros"])


# ---------------------------------------------------------------------------
# running a rule, with equivalent views of the program as fallback (inline.py)
# ---------------------------------------------------------------------------
NO_VIEW_RULES = {"W-witness", "X-contract", "F-diff", "V-own", "V-unsafe", "V-impl", "RO-layout"}


def _apply(ctx, rid):
    import importlib
    import traceback
    import registry
    mod, fn = registry.RULES[rid].split(".")
    m = importlib.import_module(mod)
    try:
        return getattr(m, fn)(ctx)
    except AnalysisError as e:
        R = RuleResult(rid, "(anchor not found)")
        R.anchor("anchor", str(e))
        return R
    except Exception:
        R = RuleResult(rid, "(rule crashed)")
        R.anchor("crash", "rule %s raised: %s" % (rid, traceback.format_exc()[-1500:]))
        return R


def view_ctx(ctx, policy):
    """Ctx over the view of ctx's program in which private helpers are inlined (None when the view equals the program)"""
    views = ctx.__dict__.setdefault("_views", {})
    if policy not in views:
        import inline
        try:
            protect = set()
            if policy == "module":
                # functions the rules anchor on (movers, replacers, hashing helpers, copiers, accessors) keep their own bodies
                from rules_typestate import movers, takers, replacer_sites, ret_is_some_fns, installs_left
                from rules_hasher import hash_fns, hasher_makers
                from rules_clone import copiers
                protect = set(movers(ctx)) | set(takers(ctx)) | {b.path for b, _, _ in replacer_sites(ctx)} | set(ret_is_some_fns(ctx)) \
                    | {b.path for b, _ in installs_left(ctx)} | set(hash_fns(ctx)) | set(hasher_makers(ctx)) | set(copiers(ctx))
                # ... and the functions that build both-tables iterators or entry handles (the delegation rules start from them)
                for b in ctx.facts.bodies.values():
                    for loc, st in b.all_assigns():
                        rv = st["rv"]
                        if rv["k"] == "aggregate" and rv.get("agg") == "adt" and (rv.get("adt") in ctx.roles.composites or rv.get("adt") in ctx.roles.handles
                                                                                   or (rv.get("adt") or "").startswith(ctx.facts.crate + "::external_trait_impls::rayon::raw::")):
                            protect.add(b.path)
            # accessors that hand out the old table are followed as projections (core.expand): they keep their bodies in every view
            protect = set(protect) | set(getattr(ctx.facts, "old_accessors", {}) or {})
            try:
                from rules_size import _pending_len_fns
                protect |= set(_pending_len_fns(ctx))          # "old length or 0" helpers are read as that quantity where they are called
            except Exception:
                pass
            f2, done = inline.build_view(ctx.facts, policy, roles=ctx.roles, protect=protect)
        except Exception:
            import traceback
            import sys
            sys.stderr.write("view %s could not be built: %s\n" % (policy, traceback.format_exc()[-600:]))
            f2, done = None, []
        c2 = None
        if f2 is not None:
            try:
                c2 = Ctx(f2, repo=ctx.repo, tier=ctx.tier, others=ctx.others)
                for k in ("verif", "hashbrown_versions"):
                    if hasattr(ctx, k):
                        setattr(c2, k, getattr(ctx, k))
                c2.view = policy
                c2.inlined = done
            except AnalysisError:
                c2 = None
        views[policy] = c2
    return views[policy]


def _body_of_key(ctx, key):
    """the griddle function a violation key is about (longest body path occurring as a ':'-delimited component of the key)"""
    best = None
    for p in ctx.facts.bodies:
        if (":" + p + ":") in (key + ":") and (best is None or len(p) > len(best)):
            best = p
    return best


def run_rule(ctx, rid, cache=None, views=True):
    """Run a rule; when it reports violations, re-run it on the inlined views and accept the first view on which it holds
    (inlining preserves behaviour, so a rule that holds on a view holds on the program)."""
    if cache is not None and rid in cache:
        return cache[rid]
    R = _apply(ctx, rid)
    if R.violations and views and rid not in NO_VIEW_RULES and not getattr(ctx, "view", None) and not os.environ.get("VERIF_NOVIEWS"):
        import inline
        remaining = list(R.violations)
        discharged = []
        for policy in inline.VIEWS:
            c2 = view_ctx(ctx, policy)
            if c2 is None:
                continue
            R2 = _apply(c2, rid)
            if R2.violations and os.environ.get("DEBUGVIEWS"):
                import sys
                for v in R2.violations:
                    sys.stderr.write("      [view %s] %s @ %s\n            %s\n" % (policy, v.key, v.where, v.why[:300]))
            if not R2.violations:
                R2.notes.append("decided on the view of the program in which %d calls of private helper functions are inlined (policy `%s`); "
                                "on the program as written the rule reported: %s" % (len(c2.inlined), policy, "; ".join(v.key for v in R.violations[:4])))
                R2.view = policy
                R = R2
                remaining = None
                break
            # function by function: what the rule reports about a function on the program as written is discharged by a view in which
            # that same function (now containing its helpers' code) still exists, the rule found its anchors, and the rule reports
            # nothing at all about that function; what the view reports about *other* functions, which the rule accepted as written,
            # is discharged by the program as written in the same way
            if any(v.key.startswith("ANCHOR:") for v in R2.violations):
                continue
            b2 = {_body_of_key(c2, v.key) for v in R2.violations}
            if None in b2:
                continue          # the view reports something that is not tied to one function: no function-wise comparison
            # a helper that the view inlined at every call site (and so has no body of its own any more) has handed its obligations to the
            # functions it now lives in: what was reported about it is discharged when the view reports nothing about any of those
            into = {}
            for caller_, callee_ in getattr(c2, "inlined", []) or []:
                into.setdefault(callee_, set()).add(caller_)

            def hosts(fn, seen=None):
                seen = seen if seen is not None else set()
                out = set()
                for h in into.get(fn, ()):
                    if h in seen:
                        continue
                    seen.add(h)
                    if h in c2.facts.bodies:
                        out.add(h)
                    else:
                        out |= hosts(h, seen)
                return out
            keep = []
            for v in remaining:
                bp = _body_of_key(ctx, v.key)
                if not v.key.startswith("ANCHOR:") and bp is not None and bp in c2.facts.bodies and bp not in b2:
                    discharged.append((v.key, policy))
                elif not v.key.startswith("ANCHOR:") and bp is not None and bp not in c2.facts.bodies and hosts(bp) and not (hosts(bp) & b2):
                    discharged.append((v.key, policy))
                else:
                    keep.append(v)
            remaining = keep
            if not remaining:
                break
        if remaining is not None and not remaining:
            R.notes.append("obligations reported on the program as written and discharged on an inlined view of the same function: %s"
                           % "; ".join("%s [%s]" % d for d in discharged[:8]))
            R.violations = []
            R.view = "+".join(sorted({p for _, p in discharged}))
    if cache is not None:
        cache[rid] = R
    return R
