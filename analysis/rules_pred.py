"""C09 — polarity of retain / drain_filter, laziness of the constructor, Drop drains (E9 polarity, R-lazy, R-drop)."""
from core import Loc
from engine import RuleResult
from symexec import api_of


def _pred_calls(ctx, b):
    """unresolved calls of a user predicate (FnMut returning bool) in b"""
    out = []
    for c in ctx.calls(b):
        if c.unresolved and c.name in ("core::ops::FnMut::call_mut", "core::ops::Fn::call", "core::ops::FnOnce::call_once") and c.dest is not None:
            if ctx.facts.types[c.dest["ty"]]["s"] == "bool":
                out.append(c)
    return out


def _raw_rem_calls(ctx, b):
    S = ctx.roles.S
    out = []
    for c in ctx.calls(b):
        lc = c.local_callee()
        if lc is not None and "self_ty" in lc.raw and ctx.facts.types[lc.raw["self_ty"]].get("adt") == S and lc.name in ("erase", "remove"):
            out.append(c)
    return out


def _find_form(ctx, b, rems, comp_iter):
    """drain_filter's step written with Iterator::find: (ok, why, predicate call, removal) or None if the body has another shape"""
    from rules_typestate import option_test_edges, S as S_
    finds = [c for c in ctx.calls(b) if c.method == "find" and c.self_adt in comp_iter and not b.is_cleanup(c.loc.bb) and c.closure_args()]
    if len(finds) != 1 or len(rems) != 1:
        return None
    F, X = finds[0], rems[0]
    cb = F.closure_args()[0]
    why = []
    ps = _pred_calls(ctx, cb)
    if len(ps) != 1 or cb.loops():
        return False, ["the closure given to find() calls the predicate %d times (expected exactly once, outside any loop)" % len(ps)], None, X
    P = ps[0]
    if not all(P.loc.bb == rb or P.loc.bb in cb.dom().get(rb, set()) for rb in cb.return_blocks()):
        why.append("an element can be examined without calling the predicate")
    s, args = cb.slice_back(P.loc, P.args[1:])
    if 2 not in args:
        why.append("the predicate is not applied to the element find() is looking at")
    # the closure returns the predicate's verdict unchanged (find keeps the first element for which it is true)
    rl = cb.ret_locals()
    if not (P.dest is not None and not P.dest["proj"] and P.dest["local"] in rl):
        why.append("the closure does not return the predicate's result unchanged (removal would happen on the wrong outcome)")
    # the removal takes the bucket find() returned, on its Some outcome, and its result is returned
    s2, _ = b.slice_back(X.loc, X.args[1:])
    if F.loc not in s2:
        why.append("the removed bucket is not the one find() returned")
    dl = F.dest["local"]
    holders = {dl}      # (a `?` on it is understood by option_test_edges itself)
    edges = option_test_edges(ctx, b, lambda p: p.root in holders and not p.fields(), ignore_debug=False)
    some_t = [e[1] for e, v in edges.items() if v == S_]
    if not any(x == X.loc.bb or x in b.dom().get(X.loc.bb, set()) for x in some_t):
        why.append("the removal is not confined to the outcome where find() found an element")
    flows = False
    for rb in b.return_blocks():
        ret_op = {"k": "copy", "place": {"local": 0, "proj": [], "ty": b.locals[0]["ty"]}}
        s3, _ = b.slice_back(Loc(rb, len(b.stmts(rb))), [ret_op])
        if X.loc in s3:
            flows = True
    if not flows:
        why.append("the removed element is not returned")
    return (not why), why, P, X


def rule_e9_polarity(ctx):
    R = RuleResult("E9-pol", "retain calls its predicate exactly once per yielded element and erases that element on exactly the `false` outcome; "
                   "drain_filter's step calls it exactly once per yielded element and removes-and-returns that element on exactly the `true` outcome")
    comp_iter = [a for a, v in ctx.roles.composites.items() if v["family"] == "iter"]
    n = 0
    for b in ctx.facts.bodies.values():
        if b.kind == "Closure":
            continue
        preds = _pred_calls(ctx, b)
        rems = _raw_rem_calls(ctx, b)
        ret_s = ctx.facts.types[b.locals[0]["ty"]]["s"]
        yields = ret_s.startswith(("core::option::Option<", "Option<"))
        if rems and not preds and "self_ty" in b.raw and yields:
            # the search loop handed to the standard library: `let item = self.iter.find(|item| pred(item))?; remove(item)`
            r_ = _find_form(ctx, b, rems, comp_iter)
            if r_ is not None:
                n += 1
                ok_, why_, P_, X_ = r_
                R.inst(fn=b.path, expected="remove-on-true", shape="Iterator::find on the both-tables iterator", verdict="ok" if ok_ else "VIOLATION")
                if not ok_:
                    R.viol(b.path, X_.where(), "%s: %s" % (b.path, "; ".join(why_)))
                continue
        if not preds or not rems:
            continue
        st_ty = ctx.facts.types[b.raw["self_ty"]]["s"] if "self_ty" in b.raw else ""
        # what the operation promises is read off its signature: a step that hands back an element (drain_filter, extract_if, ..) removes on
        # `true`; an operation returning nothing is a retain (std's meaning: keep on `true`) when it is named so — other unit-returning
        # predicate loops state their polarity nowhere the rule could read it, and are not decided
        if ret_s == "()" and "retain" in b.name:
            want = "erase-on-false"
        elif yields:
            want = "remove-on-true"
        else:
            continue
        n += 1
        key = "%s" % b.path
        why = []
        if len(preds) != 1 or len(rems) != 1:
            why.append("%d predicate calls and %d removals in the loop body (expected one of each)" % (len(preds), len(rems)))
            R.inst(fn=b.path, verdict="VIOLATION")
            R.viol(key, b.where(Loc(0, 0)), "; ".join(why))
            continue
        P, X = preds[0], rems[0]
        # the element source: next() of the by-reference composite iterator
        ys = [c for c in ctx.calls(b) if c.method == "next" and c.self_adt in comp_iter]
        if len(ys) != 1:
            why.append("expected exactly one poll of the both-tables iterator, found %d" % len(ys))
            R.inst(fn=b.path, verdict="VIOLATION")
            R.viol(key, b.where(Loc(0, 0)), "; ".join(why))
            continue
        Y = ys[0]
        loops = [(h, bl) for h, bl in b.loops() if Y.loc.bb in bl]
        if not loops:
            why.append("the element poll is not in a loop")
            bl = set()
        else:
            bl = loops[0][1]
        # the traversal is never restarted: the iterator being polled is not re-assigned once polling has begun
        ip = Y.arg_path(0)
        if ip is not None:
            ikey = ip.strip_refs().key()
            for loc2, st2 in b.all_assigns():
                if b.is_cleanup(loc2.bb):
                    continue
                if st2["place"]["proj"]:
                    q = b.expand(st2["place"], alias=True)
                    same = q.strip_refs().key() == ikey
                else:
                    same = st2["place"]["local"] == ip.root and not ip.fields()
                if not same:
                    continue
                if loc2.bb in bl or (ip.fields() and 1 <= ip.root <= b.arg_count):
                    why.append("the iterator over the elements is re-created at %s while the traversal is in progress: elements already visited are visited again" % b.where(loc2))
            for c2 in ctx.calls(b):
                if c2.dest is not None and not b.is_cleanup(c2.loc.bb) and c2.loc.bb in bl:
                    if c2.dest["proj"]:
                        hit = b.expand(c2.dest, alias=True).strip_refs().key() == ikey
                    else:
                        hit = c2.dest["local"] == ip.root and not ip.fields()
                    if hit:
                        why.append("the iterator over the elements is re-created at %s while the traversal is in progress" % c2.where())
        # predicate gets the yielded element
        s, _ = b.slice_back(P.loc, P.args[1:])
        if Y.loc not in s:
            why.append("the predicate is not applied to the element just yielded")
        # removal is of the yielded bucket
        s2, _ = b.slice_back(X.loc, X.args[1:])
        if Y.loc not in s2:
            why.append("the removed bucket is not the one just yielded")
        # predicate exactly once per iteration: every path from the Some edge to the next poll / return passes P; P not nested in inner loop
        sw = Y.target
        t = b.term(sw)
        some = [tb for v, tb in t["targets"] if v == 1] if t["k"] == "switch" else []
        for st_bb in some:
            seen = set()
            stack = [st_bb]
            while stack:
                x = stack.pop()
                if x in seen or x == P.loc.bb:
                    continue
                seen.add(x)
                if x == Y.loc.bb or b.term(x)["k"] == "return":
                    why.append("an element can be processed without calling the predicate (path reaches bb%d)" % x)
                    break
                stack.extend(b.succs(x))
        inner = [h for h, l2 in b.loops() if P.loc.bb in l2 and l2 < bl]
        if inner:
            why.append("the predicate call sits in an inner loop (may be called more than once per element)")
        # after P no second call of P before the next poll: P.bb not reachable from P.target without passing Y
        reach = b.reach_from([P.target], stop={Y.loc.bb})
        if P.loc.bb in reach and P.loc.bb != Y.loc.bb:
            why.append("the predicate can be called again for the same element")
        # polarity
        sw2 = None
        for bb in b.reachable():
            tt = b.term(bb)
            if tt["k"] == "switch":
                d = b.source_def(tt["discr"])
                neg = False
                if d is not None and d[1] == "assign" and d[2]["rv"]["k"] == "unop" and d[2]["rv"]["op"] == "Not":
                    d = b.source_def(d[2]["rv"]["a"])
                    neg = True
                if d is not None and d[1] == "call" and d[0] == P.loc:
                    sw2 = (bb, tt, neg)
        if sw2 is None:
            why.append("the predicate's result does not decide a branch")
        else:
            bb, tt, neg = sw2
            zero = [tb for v, tb in tt["targets"] if v == 0]
            edges = {"false": zero[0] if zero else None, "true": tt["otherwise"]}
            if neg:
                edges = {"false": edges["true"], "true": edges["false"]}
            acts = {}
            for nm, start in edges.items():
                if start is None:
                    acts[nm] = None
                    continue
                reach2 = b.reach_from([start], stop={Y.loc.bb})
                acts[nm] = X.loc.bb in reach2
            got = "erase-on-false" if (acts.get("false") and not acts.get("true")) else "remove-on-true" if (acts.get("true") and not acts.get("false")) else "both-or-neither"
            if got != want:
                why.append("removal happens on the wrong outcome of the predicate (%s, expected %s)" % (got, want))
            if want == "remove-on-true":
                # the removed element is returned at once
                rets = [x for x in b.reach_from([X.target]) if b.term(x)["k"] == "return"] if X.target is not None else []
                if Y.loc.bb in b.reach_from([X.target], stop=set()) and not rets:
                    why.append("the removed element is not returned")
        R.inst(fn=b.path, expected=want, predicate=P.where(), removal=X.where(), verdict="ok" if not why else "VIOLATION")
        if why:
            R.viol(key, P.where(), "%s: %s" % (b.path, "; ".join(why)))
    if n < 2:
        R.anchor("loops", "expected retain and the drain_filter step, found %d predicate loops" % n)
    # predicate-adapting closures of the set: |k, _| f(k) returns f's result unchanged
    m = 0
    for b in ctx.facts.bodies.values():
        if b.kind != "Closure":
            continue
        par = ctx.facts.closure_parent(b)
        if "self_ty" not in par.raw or "set::" not in ctx.facts.types[par.raw["self_ty"]]["s"]:
            continue
        if par.name not in ("retain", "next"):
            continue
        ps = _pred_calls(ctx, b)
        if not ps:
            continue
        m += 1
        P = ps[0]
        # what the adapter is handed to decides the polarity it must have: the map's retain / the draining step keep the user's meaning
        # (result unchanged); `retain` written over drain_filter (which removes on `true`) needs exactly one negation
        handed = None
        for loc, st in par.all_assigns():
            rv = st["rv"]
            if rv["k"] == "aggregate" and rv["agg"] == "closure" and rv.get("def") == b.dpath:
                cl = st["place"]["local"]
                for c in ctx.calls(par):
                    for i in range(len(c.args)):
                        ap = c.arg_path(i)
                        if ap is not None and ap.strip_refs().root == cl:
                            handed = c
        want_pol = "neg" if (handed is not None and handed.method == "drain_filter" and par.name == "retain") else "same"
        if P.dest["local"] == 0 and not P.dest["proj"]:
            pol = "same"
        else:
            pol = None
            for loc, st in b.all_assigns():
                rv = st["rv"]
                if st["place"]["local"] == 0 and not st["place"]["proj"] and rv["k"] == "unop" and rv["op"] == "Not" \
                        and rv["a"].get("k") in ("move", "copy") and rv["a"]["place"]["local"] == P.dest["local"] and not rv["a"]["place"]["proj"]:
                    pol = "neg"
        ok = pol == want_pol and len(ps) == 1
        R.inst(fn=b.path, adapter=True, handed_to=handed.tname if handed is not None else None, polarity=pol, expected=want_pol, verdict="ok" if ok else "VIOLATION")
        if not ok:
            R.viol("%s:adapter" % b.path, P.where(), "the set's predicate adapter does not hand on the user predicate's result with the meaning its callee expects "
                   "(got %s, expected %s)" % ({"same": "unchanged", "neg": "negated", None: "something else"}[pol], {"same": "unchanged", "neg": "negated"}[want_pol]))
    if m < 2:
        R.anchor("adapters", "expected the set's two predicate adapters, found %d" % m)
    return R


def rule_r_lazy_drop(ctx):
    R = RuleResult("R-lazy/R-drop", "constructing a DrainFilter removes nothing (no poll, no removal in the constructor); dropping one polls next() until None")
    n = 0
    for b in ctx.facts.bodies.values():
        if b.kind == "Closure":
            continue
        api = api_of(b.path)
        if api in ("HashMap::drain_filter", "HashSet::drain_filter"):
            n += 1
            bad = [c for bd in [b] + ctx.facts.closures_of(b) for c in ctx.calls(bd)
                   if (c.method in ("next", "erase", "remove", "remove_entry", "retain", "for_each") and c.local_callee() is not None) or c.unresolved]
            R.inst(fn=b.path, kind="constructor", verdict="ok" if not bad else "VIOLATION")
            if bad:
                R.viol("%s:eager" % api, bad[0].where(), "%s performs %s while constructing the iterator: elements would be removed even if the iterator is forgotten" % (b.path, bad[0].tname))
        if b.name == "drop" and b.raw.get("trait") == "core::ops::Drop" and "DrainFilter<" in ctx.facts.types[b.raw["self_ty"]]["s"] \
                and "ConsumeAllOnDrop" not in ctx.facts.types[b.raw["self_ty"]]["s"]:
            n += 1
            nx = [c for c in ctx.calls(b) if c.method == "next" and c.local_callee() is not None and c.arg_path(0) is not None and c.arg_path(0).root == 1]
            why = []
            db = b
            if not nx:
                # the draining loop shared in a generic helper: `fn drop(&mut self) { drop_remaining(self) }` with
                # `fn drop_remaining<I: Iterator>(iter: &mut I) { while let Some(x) = iter.next() { .. } }` — decided on the helper
                cs = [c for c in ctx.calls(b) if not b.is_cleanup(c.loc.bb)]
                if len(cs) == 1 and cs[0].local_callee() is not None and cs[0].local_callee().kind != "Closure" and len(cs[0].args) == 1 \
                        and cs[0].arg_path(0) is not None and cs[0].arg_path(0).strip_refs().root == 1 and not cs[0].arg_path(0).fields():
                    db = cs[0].local_callee()
                    nx = [c for c in ctx.calls(db) if c.method == "next" and not db.is_cleanup(c.loc.bb) and c.arg_path(0) is not None
                          and c.arg_path(0).strip_refs().root == 1 and not c.arg_path(0).fields()]
            b_, b = b, db
            if len(nx) != 1:
                why.append("drop does not poll self.next() in a single loop")
            else:
                N_ = nx[0]
                loops = [(h, bl) for h, bl in b.loops() if N_.loc.bb in bl]
                if not loops:
                    why.append("self.next() is not polled in a loop")
                else:
                    bl = loops[0][1]
                    # exits of the loop only through the None edge of next()'s result
                    t = b.term(N_.target)
                    some_t = [tb for v, tb in t["targets"] if v == 1] if t["k"] == "switch" else []
                    none_targets = [s_ for s_ in b.succs(N_.target) if s_ not in some_t] if t["k"] == "switch" else []
                    for x in bl:
                        for s_ in b.succs(x):
                            if s_ not in bl and s_ not in none_targets and b.term(s_)["k"] != "unreachable":
                                why.append("the draining loop can be left (bb%d -> bb%d) before next() returned None" % (x, s_))
            b = b_
            R.inst(fn=b.path, kind="drop", loop_in=db.path, verdict="ok" if not why else "VIOLATION")
            if why:
                R.viol("%s:drop" % b.path, b.where(Loc(0, 0)), "; ".join(why))
    if n < 4:
        R.anchor("sites", "expected 2 constructors and 2 Drop impls, found %d" % n)
    return R
