"""A tiny symbolic interpreter for loop-free MIR bodies (E9 — SHAPE).

Used to *extract* the boolean skeleton / lazy set expression a function computes in terms of a handful of
primitives (len, iter, contains, get, chain, all, comparisons).  The extracted expression is then evaluated
exhaustively over all pairs of subsets of a small universe and compared with the mathematical definition.
No griddle code is executed: only the extracted expression tree is evaluated.
"""
import itertools
import re

from core import Loc

PRIM_API = {
    "HashSet::len": "len", "HashMap::len": "len",
    "HashSet::is_empty": "is_empty", "HashMap::is_empty": "is_empty",
    "HashSet::iter": "iter", "HashMap::iter": "iter", "HashMap::keys": "keys",
    "HashSet::contains": "contains", "HashMap::contains_key": "contains",
    "HashMap::get": "get", "HashSet::get": "getkey",
    # parallel siblings
}


class Unknown(Exception):
    pass


VARIANT_INDEX = {("core::option::Option", "None"): 0, ("core::option::Option", "Some"): 1,
                 ("core::result::Result", "Ok"): 0, ("core::result::Result", "Err"): 1}


def api_of(path):
    m = re.match(r"^griddle::(?!external_trait_impls::)(?:\w+::)*?(\w+)::<(?!impl ).*?>::(\w+)(?:::<.*>)?$", path)
    if m:
        return "%s::%s" % (m.group(1), m.group(2))
    # an inherent impl block placed in another module than the type (`impl HashMap { .. }` in map/raw_entry.rs, the rayon methods)
    m = re.match(r"^griddle::(?:external_trait_impls::rayon::)?(?:\w+::)*<impl (?:\w+::)*(\w+)<.*>>::(\w+)$", path)
    if m and " for " not in path and (not path.startswith("griddle::external_trait_impls::") or path.startswith("griddle::external_trait_impls::rayon::")):
        return "%s::%s" % (m.group(1), m.group(2))
    m = re.match(r"^griddle::<&'?\w* ?(?:\w+::)*(\w+)<.*> as rayon::iter::IntoParallelIterator>::into_par_iter$", path)
    if m:
        return "%s::into_par_iter" % m.group(1)
    return None


class SymExec:
    def __init__(self, ctx, max_depth=6, max_steps=4000):
        self.ctx = ctx
        self.max_depth = max_depth
        self.steps = 0
        self.max_steps = max_steps

    # ------------------------------------------------------------------
    def run(self, body, args, depth=0):
        if depth > self.max_depth:
            return ("unknown", "depth")
        env = {i + 1: a for i, a in enumerate(args)}
        return self.block(body, 0, env, depth, ())

    def place(self, body, env, pl):
        v = env.get(pl["local"], ("unknown", "uninit _%d" % pl["local"]))
        for e in pl["proj"]:
            k = e["k"]
            if k == "deref":
                continue
            if k == "field":
                v = self.project(v, e["i"], e)
            elif k == "downcast":
                v = ("downcast", v, e.get("variant"))
            else:
                v = ("unknown", "proj " + k)
        return v

    def project(self, v, i, e=None):
        if v[0] == "tuple":
            return v[1][i]
        if v[0] == "struct":
            return v[3][i]
        if v[0] == "closure":
            return v[2][i]
        if v[0] == "ite":
            return ("ite", v[1], self.project(v[2], i, e), self.project(v[3], i, e))
        if v[0] == "downcast":
            # (x as Some).0  -> payload of x
            if v[1][0] == "struct" and i < len(v[1][3]):
                return v[1][3][i]
            return ("payload", v[1], v[2], i)
        if v[0] == "set":
            return v      # a field of the collection (its map / its table) stands for the collection's contents
        return ("field", v, i)

    def operand(self, body, env, op):
        if op["k"] in ("copy", "move"):
            return self.place(body, env, op["place"])
        if op["k"] == "const":
            if "val" in op:
                return ("const", op["val"])
            if op.get("fn"):
                return ("fnitem", op["fn"])
            return ("constx", op.get("text"))
        return ("unknown", "operand")

    def rvalue(self, body, env, rv):
        k = rv["k"]
        if k in ("use", "cast"):
            return self.operand(body, env, rv["op"])
        if k in ("ref", "rawptr", "copy_for_deref"):
            return self.place(body, env, rv["place"])
        if k == "binop":
            return ("cmp", rv["op"], self.operand(body, env, rv["a"]), self.operand(body, env, rv["b"]))
        if k == "unop":
            if rv["op"] == "Not":
                return ("not", self.operand(body, env, rv["a"]))
            return ("unknown", "unop")
        if k == "aggregate":
            ops = [self.operand(body, env, o) for o in rv["ops"]]
            if rv["agg"] == "tuple":
                return ("tuple", ops)
            if rv["agg"] == "adt":
                return ("struct", rv["adt"], rv["variant"], ops)
            if rv["agg"] == "closure":
                return ("closure", rv["def"], ops)
            return ("unknown", "aggregate")
        if k == "discr":
            return ("discr", self.place(body, env, rv["place"]))
        return ("unknown", "rvalue " + k)

    def block(self, body, bb, env, depth, trail):
        self.steps += 1
        if self.steps > self.max_steps:
            return ("unknown", "budget")
        if (body.path, bb) in getattr(self, "_active_heads", ()):
            return ("continue",)
        if bb in trail:
            return ("unknown", "loop")
        if bb not in getattr(self, "_no_summary", ()):
            heads = self._loop_heads(body)
            if bb in heads:
                r = self.loop_summary(body, bb, heads[bb], env, depth)
                if r is not None:
                    return r
        trail = trail + (bb,)
        env = dict(env)
        for st in body.stmts(bb):
            if st["k"] != "assign":
                continue
            pl = st["place"]
            val = self.rvalue(body, env, st["rv"])
            if not pl["proj"]:
                env[pl["local"]] = val
            else:
                env[pl["local"]] = ("unknown", "partial write")
        t = body.term(bb)
        k = t["k"]
        if k == "goto":
            return self.block(body, t["target"], env, depth, trail)
        if k == "return":
            return env.get(0, ("unknown", "no return value"))
        if k in ("drop", "assert"):
            return self.block(body, t["target"], env, depth, trail)
        if k == "call":
            c = self.ctx.call_at(body, bb)
            val = self.call(body, env, c, depth)
            if c.target is None:
                return ("diverge",)
            if c.dest is not None:
                if c.dest["proj"]:
                    env[c.dest["local"]] = ("unknown", "partial call dest")
                else:
                    env[c.dest["local"]] = val
            return self.block(body, c.target, env, depth, trail)
        if k == "switch":
            cond = self.operand(body, env, t["discr"])
            if cond[0] == "const":
                for v, tb in t["targets"]:
                    if v == cond[1]:
                        return self.block(body, tb, env, depth, trail)
                return self.block(body, t["otherwise"], env, depth, trail)
            # boolean switch: [0: F, otherwise: T]
            if [v for v, _ in t["targets"]] == [0]:
                f = self.block(body, t["targets"][0][1], env, depth, trail)
                tr = self.block(body, t["otherwise"], env, depth, trail)
                return ("ite", cond, tr, f)
            if cond[0] == "discr" and cond[1][0] == "struct" and (cond[1][1], cond[1][2]) in VARIANT_INDEX:
                want = VARIANT_INDEX[(cond[1][1], cond[1][2])]
                for v, tb in t["targets"]:
                    if v == want:
                        return self.block(body, tb, env, depth, trail)
                return self.block(body, t["otherwise"], env, depth, trail)
            if cond[0] == "discr":
                # option-like: build ite on "is variant v"
                res = self.block(body, t["otherwise"], env, depth, trail)
                for v, tb in reversed(t["targets"]):
                    if body.term(tb)["k"] == "unreachable":
                        continue
                    res = ("ite", ("isvariant", cond[1], v), self.block(body, tb, env, depth, trail), res)
                return res
            return ("unknown", "switch on %s" % (cond[0],))
        if k == "unreachable":
            return ("diverge",)
        return ("unknown", "terminator " + k)

    # -- loops: `for x in it { if c(x) { return K1 } } K2`  ==>  if any(it, c) { K1 } else { K2 } ---------------------------------------
    def _loop_heads(self, body):
        cache = self.__dict__.setdefault("_heads", {})
        if body.path not in cache:
            cache[body.path] = {h: bl for h, bl in body.loops()}
        return cache[body.path]

    def loop_summary(self, body, head, blocks, env, depth):
        """Summarise a search loop over an iterator: every iteration either returns one fixed value or continues; when the iterator
        is exhausted the loop is left.  Returns the value of the function from the loop head onward, or None if the loop has another shape."""
        nexts = [c for c in self.ctx.calls(body) if c.loc.bb in blocks and c.method == "next" and not body.is_cleanup(c.loc.bb) and c.dest is not None
                 and not c.dest["proj"]]
        if len(nexts) != 1 or nexts[0].target is None:
            return None
        N_ = nexts[0]
        # straight line from the head to the poll
        env1 = dict(env)
        x = head
        hops = 0
        while True:
            for st in body.stmts(x):
                if st["k"] == "assign":
                    if st["place"]["proj"]:
                        env1[st["place"]["local"]] = ("unknown", "partial write")
                    else:
                        env1[st["place"]["local"]] = self.rvalue(body, env1, st["rv"])
            if x == N_.loc.bb:
                break
            t = body.term(x)
            if t["k"] != "goto" or hops > 6:
                return None
            x = t["target"]
            hops += 1
        it = self.operand(body, env1, N_.args[0])
        if it[0] == "unknown":
            return None
        self.fresh = getattr(self, "fresh", 0) + 1
        vid = self.fresh
        d = N_.dest["local"]
        active = self.__dict__.setdefault("_active_heads", set())
        nosum = self.__dict__.setdefault("_no_summary", set())
        active.add((body.path, head))
        try:
            env_s = dict(env1)
            env_s[d] = ("struct", "core::option::Option", "Some", [("elem", vid)])
            r_some = self.block(body, N_.target, env_s, depth, ())
            env_n = dict(env1)
            env_n[d] = ("struct", "core::option::Option", "None", [])
            r_none = self.block(body, N_.target, env_n, depth, ())
        finally:
            active.discard((body.path, head))

        leaves = []

        def collect(v):
            if v[0] == "ite":
                collect(v[2]); collect(v[3])
            else:
                leaves.append(v)
        collect(r_some)
        rets = [l for l in leaves if l != ("continue",) and l != ("diverge",)]
        if ("continue",) not in leaves or not rets or any(r != rets[0] for r in rets) or rets[0][0] == "unknown":
            return None

        def contains_continue(v):
            return v == ("continue",) or (isinstance(v, tuple) and any(isinstance(x_, tuple) and contains_continue(x_) for x_ in v))
        if contains_continue(r_none):
            return None

        def cond_of(v):
            if v[0] == "ite":
                return ("ite", v[1], cond_of(v[2]), cond_of(v[3]))
            return ("const", 0) if v in (("continue",), ("diverge",)) else ("const", 1)
        return ("ite", ("any", it, ("lam", vid, cond_of(r_some))), rets[0], r_none)

    def call(self, body, env, c, depth):
        args = [self.operand(body, env, a) for a in c.args]
        lc = c.local_callee()
        name = c.name or ""
        if lc is not None:
            if c.trait == "core::ops::Deref" and len(args) == 1:
                return args[0]      # Deref of the located bucket to the raw bucket: same element
            api = api_of(lc.path)
            if api in PRIM_API:
                return (PRIM_API[api],) + tuple(args)
            if lc.name == "par_iter" and "self_ty" in lc.raw and self.ctx.facts.types[lc.raw["self_ty"]].get("adt") == self.ctx.roles.S:
                return ("iter", args[0])     # the raw both-tables parallel iterator (B-par / K-field) over the collection's contents
            if lc.kind == "Closure":
                return self.apply_closure(args[0], args[1:], depth)
            return self.run(lc, args, depth + 1)
        m = c.method
        if name.startswith("core::iter::") or name.startswith("rayon::iter::"):
            if m == "drive_unindexed":
                return ("drive_unindexed", args[0], args[1])
            if m in ("all", "any", "chain", "cloned", "copied", "collect", "into_iter", "map", "filter", "into_par_iter", "par_iter"):
                if m in ("all", "any"):
                    return (m, args[0], self.closure_pred(args[1], depth))
                if m == "filter":
                    return ("filter", args[0], self.closure_pred(args[1], depth))
                if m == "map":
                    return ("map", args[0], self.closure_pred(args[1], depth))
                if m in ("cloned", "copied", "into_iter", "into_par_iter", "par_iter"):
                    return args[0]
                return (m,) + tuple(args)
        if name.startswith("core::option::Option::"):
            if m == "map_or":
                return ("map_or", args[0], args[1], self.closure_pred(args[2], depth))
            if m == "is_some_and":
                return ("map_or", args[0], ("const", 0), self.closure_pred(args[1], depth))
            if m == "is_none_or":
                return ("map_or", args[0], ("const", 1), self.closure_pred(args[1], depth))
            if m == "is_some":
                return ("is_some", args[0])
            if m == "is_none":
                return ("not", ("is_some", args[0]))
        if name in ("core::ops::Deref::deref", "hashbrown::raw::Bucket::as_ref", "hashbrown::raw::Bucket::as_mut") or \
                (lc is None and m in ("deref", "as_ref", "as_mut") and len(args) == 1):
            return args[0]
        if name in ("core::cmp::PartialEq::eq",):
            return ("eq", args[0], args[1])
        if name in ("core::cmp::PartialEq::ne",):
            return ("not", ("eq", args[0], args[1]))
        if name in ("core::ops::Fn::call", "core::ops::FnMut::call_mut", "core::ops::FnOnce::call_once"):
            if args and args[0][0] == "closure":
                rest = args[1][1] if len(args) > 1 and args[1][0] == "tuple" else args[1:]
                return self.apply_closure(args[0], list(rest), depth)
        if m == "len" and c.trait == "core::iter::ExactSizeIterator":
            return ("len", args[0])
        return ("unknown", "call %s" % (c.tname or "<indirect>"))

    def closure_pred(self, clo, depth):
        """apply a closure value to a fresh bound variable; returns ('lam', id, body)"""
        if clo[0] not in ("closure", "fnitem"):
            return ("unknown", "not a closure")
        self.fresh = getattr(self, "fresh", 0) + 1
        vid = self.fresh
        return ("lam", vid, self.apply_closure(clo, [("elem", vid)], depth))

    def apply_closure(self, clo, params, depth):
        if clo[0] == "fnitem":
            from engine import strip_generics
            want = strip_generics(clo[1])
            fb = [b for p_, b in self.ctx.facts.bodies.items() if b.kind != "Closure" and strip_generics(p_) == want]
            if len(fb) != 1:
                return ("unknown", "function value %s" % clo[1])
            return self.run(fb[0], list(params), depth + 1)
        if clo[0] != "closure":
            return ("unknown", "call of non-closure")
        cb = self.ctx.facts.by_dpath.get(clo[1])
        if cb is None:
            return ("unknown", "closure body missing")
        # a closure taking a pattern (key, value) receives one tuple param
        return self.run(cb, [clo] + list(params), depth + 1)


# ---------------------------------------------------------------------------
# concrete evaluation of extracted expressions
# ---------------------------------------------------------------------------
class Eval:
    """Evaluate an extracted expression on a concrete model {name: frozenset or dict}.  `stream_sem` gives the meaning of
    griddle's lazy iterator structs: adt -> ('filter', 'in'|'notin', iter_idx, other_idx) | ('wrap', iter_idx)"""

    def __init__(self, stream_sem):
        self.sem = stream_sem

    def apply(self, lam, model, env, arg):
        if lam[0] != "lam":
            raise Unknown("not a lambda")
        e2 = dict(env or {})
        e2[lam[1]] = arg
        return self.val(lam[2], model, e2)

    def val(self, v, model, elem=None):
        k = v[0]
        if k == "set":
            return model[v[1]]
        if k == "const":
            return v[1]
        if k == "ite":
            c = self.val(v[1], model, elem)
            return self.val(v[2] if c else v[3], model, elem)
        if k == "not":
            return not self.val(v[1], model, elem)
        if k == "len":
            x = self.val(v[1], model, elem)
            return len(x)
        if k == "is_empty":
            return len(self.val(v[1], model, elem)) == 0
        if k == "cmp":
            a, b = self.val(v[2], model, elem), self.val(v[3], model, elem)
            op = v[1]
            return {"Le": a <= b, "Lt": a < b, "Ge": a >= b, "Gt": a > b, "Eq": a == b, "Ne": a != b}[op]
        if k == "elem":
            if elem is None or v[1] not in elem:
                raise Unknown("unbound variable")
            return elem[v[1]]
        if k in ("field", "payload"):
            base = self.val(v[1], model, elem)
            idx = v[2] if k == "field" else v[3]
            if k == "payload" and isinstance(base, tuple) and base and base[0] == "some":
                return base[1]
            if isinstance(base, tuple):
                return base[idx]
            if k == "payload":
                return base
            if idx == 0:
                return base       # element of a set seen as a (key, ()) pair
            if idx == 1:
                return ()
            raise Unknown("field of non-tuple")
        if k == "contains":
            s = self.val(v[1], model, elem)
            e = self.val(v[2], model, elem)
            return e in s
        if k in ("get", "getkey"):
            s = self.val(v[1], model, elem)
            e = self.val(v[2], model, elem)
            if isinstance(s, dict):
                return ("some", s[e]) if e in s else None
            return ("some", e) if e in s else None
        if k == "is_some":
            return self.val(v[1], model, elem) is not None
        if k == "isvariant":
            x = self.val(v[1], model, elem)
            if x is None or (isinstance(x, tuple) and x and x[0] == "some"):
                return (1 if x is not None else 0) == v[2]
            raise Unknown("discriminant of a non-option value")
        if k == "map_or":
            o = self.val(v[1], model, elem)
            if o is None:
                return self.val(v[2], model, elem)
            return self.apply(v[3], model, elem, o[1])
        if k == "eq":
            return self.val(v[1], model, elem) == self.val(v[2], model, elem)
        if k in ("all", "any"):
            items = self.stream(v[1], model, elem)
            f = all if k == "all" else any
            return f(self.apply(v[2], model, elem, e) for e in items)
        if k in ("iter", "keys", "chain", "struct", "collect", "filter", "map"):
            return self.stream(v, model, elem)
        if k == "tuple":
            return tuple(self.val(x, model, elem) for x in v[1])
        raise Unknown("cannot evaluate %s" % (v[:2],))

    def stream(self, v, model, elem=None):
        k = v[0]
        if k == "ite":
            c = self.val(v[1], model, elem)
            return self.stream(v[2] if c else v[3], model, elem)
        if k == "iter":
            s = self.val(v[1], model, elem)
            if isinstance(s, dict):
                return sorted(s.items())
            if isinstance(s, list):
                return s
            return sorted(s)
        if k == "keys":
            s = self.val(v[1], model, elem)
            return sorted(s.keys()) if isinstance(s, dict) else sorted(s)
        if k == "chain":
            return self.stream(v[1], model, elem) + self.stream(v[2], model, elem)
        if k == "collect":
            return self.stream(v[1], model, elem)
        if k == "filter":
            return [e for e in self.stream(v[1], model, elem) if self.apply(v[2], model, elem, e)]
        if k == "map":
            return [self.apply(v[2], model, elem, e) for e in self.stream(v[1], model, elem)]
        if k == "struct":
            sem = self.sem.get(v[1])
            if sem is None:
                raise Unknown("no stream semantics for %s" % v[1])
            if sem[0] == "wrap":
                return self.stream(v[3][sem[1]], model, elem)
            if sem[0] == "filter":
                items = self.stream(v[3][sem[2]], model, elem)
                other = self.val(v[3][sem[3]], model, elem)
                if sem[1] == "in":
                    return [e for e in items if e in other]
                return [e for e in items if e not in other]
        if k == "set":
            return sorted(model[v[1]])
        raise Unknown("not a stream: %s" % (v[:2],))


def has_unknown(v, depth=0):
    if not isinstance(v, tuple):
        if isinstance(v, list):
            return next((u for x in v for u in [has_unknown(x, depth + 1)] if u), None)
        return None
    if v and v[0] == "unknown":
        return v[1]
    for x in v[1:]:
        if isinstance(x, (tuple, list)):
            u = has_unknown(x, depth + 1)
            if u:
                return u
    return None


def show(v, depth=0):
    """compact rendering of an extracted expression for evidence"""
    if not isinstance(v, tuple):
        return str(v)
    k = v[0]
    if k == "set":
        return v[1]
    if k == "const":
        return str(v[1])
    if k == "elem":
        return "x%d" % v[1]
    if k == "lam":
        return "|x%d| %s" % (v[1], show(v[2]))
    if k == "ite":
        return "(if %s then %s else %s)" % (show(v[1]), show(v[2]), show(v[3]))
    if k == "cmp":
        return "(%s %s %s)" % (show(v[2]), {"Le": "<=", "Lt": "<", "Ge": ">=", "Gt": ">", "Eq": "==", "Ne": "!="}.get(v[1], v[1]), show(v[3]))
    if k == "not":
        return "!%s" % show(v[1])
    if k == "len":
        return "|%s|" % show(v[1])
    if k == "struct":
        return "%s{%s}" % (v[1].split("::")[-1], ", ".join(show(x) for x in v[3]))
    if k == "tuple":
        return "(%s)" % ", ".join(show(x) for x in v[1])
    if k in ("field", "payload"):
        return "%s.%s" % (show(v[1]), v[2] if k == "field" else v[3])
    if k == "closure":
        return "|..|"
    return "%s(%s)" % (k, ", ".join(show(x) for x in v[1:]))


def subsets(universe):
    out = []
    for r in range(len(universe) + 1):
        for c in itertools.combinations(universe, r):
            out.append(frozenset(c))
    return out
