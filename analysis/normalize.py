"""MIR normalisations applied to every body before any rule looks at it.

thread_flags: a boolean that is computed on several arms, joined, and only then tested

        let emptied = match self.old { Some(ref o) => o.table.len() == 0, None => false };
        if emptied { .. }

hides the test from rules that read branch conditions (the condition of the `if` is a multiply-defined local).  The join block is
threaded: every arm gets its own single-definition copy of the flag and its own copy of the test (a constant arm jumps straight to
the successor its constant selects).  The original flag keeps its value (`f = copy f_i`) for later readers.  Nothing else changes:
no statement is removed, the set of executions is the same."""
import copy


def _succs(t):
    k = t["k"]
    if k == "goto":
        return [t["target"]]
    if k == "switch":
        return [tb for _, tb in t["targets"]] + [t["otherwise"]]
    out = []
    for f in ("target",):
        if t.get(f) is not None and isinstance(t.get(f), int):
            out.append(t[f])
    return out


def _all_succs(t):
    out = list(_succs(t))
    u = t.get("unwind")
    if isinstance(u, int):
        out.append(u)
    return out


def thread_flags(raw, types):
    if raw.get("_threaded"):
        return 0
    raw["_threaded"] = True
    blocks = raw["blocks"]
    n_threaded = 0
    for _round in range(4):
        changed = False
        preds = {}
        for i, blk in enumerate(blocks):
            for s_ in _all_succs(blk["term"]):
                preds.setdefault(s_, []).append(i)
        for J, blk in enumerate(blocks):
            t = blk["term"]
            if t["k"] != "switch" or blk.get("cleanup"):
                continue
            d = t["discr"]
            if d["k"] not in ("copy", "move") or d["place"]["proj"]:
                continue
            stmts = [s for s in blk["stmts"] if s["k"] != "nop"]
            f = d["place"]["local"]
            tmp = None
            if len(stmts) == 1 and stmts[0]["k"] == "assign" and not stmts[0]["place"]["proj"] and stmts[0]["place"]["local"] == f \
                    and stmts[0]["rv"]["k"] == "use" and stmts[0]["rv"]["op"]["k"] in ("copy", "move") and not stmts[0]["rv"]["op"]["place"]["proj"]:
                tmp = f
                f = stmts[0]["rv"]["op"]["place"]["local"]
            elif stmts:
                continue
            if types[raw["locals"][f]["ty"]].get("k") != "bool" or f <= raw["arg_count"]:
                continue
            ps = preds.get(J, [])
            if len(ps) < 2 or J in ps:
                continue
            plan = []
            for P in ps:
                pb = blocks[P]
                pt = pb["term"]
                if pt["k"] == "goto" and pt["target"] == J:
                    # the last whole definition of f in P
                    idx = None
                    for i, s in enumerate(pb["stmts"]):
                        if s["k"] == "assign" and s["place"]["local"] == f:
                            idx = i if not s["place"]["proj"] else None
                    if idx is None:
                        plan = None
                        break
                    plan.append((P, "stmt", idx))
                elif pt["k"] == "call" and pt.get("target") == J and pt.get("dest") is not None and not pt["dest"]["proj"] and pt["dest"]["local"] == f:
                    plan.append((P, "call", None))
                else:
                    plan = None
                    break
            if not plan:
                continue
            # at least one arm must be a constant, otherwise there is nothing to gain
            def is_const(P, kind, idx):
                return kind == "stmt" and blocks[P]["stmts"][idx]["rv"]["k"] == "use" and blocks[P]["stmts"][idx]["rv"]["op"]["k"] == "const" \
                    and "val" in blocks[P]["stmts"][idx]["rv"]["op"]
            if not any(is_const(*x) for x in plan):
                continue
            bty = raw["locals"][f]["ty"]
            for P, kind, idx in plan:
                pb = blocks[P]
                if is_const(P, kind, idx):
                    v = pb["stmts"][idx]["rv"]["op"]["val"]
                    tg = [tb for x, tb in t["targets"] if x == v]
                    dest = tg[0] if tg else t["otherwise"]
                    new_stmts = []
                    if tmp is not None:
                        new_stmts.append(copy.deepcopy(stmts[0]))
                    pb["stmts"].extend(new_stmts)
                    pb["term"] = {"k": "goto", "target": dest, "span": pb["term"].get("span")}
                    continue
                fi = len(raw["locals"])
                raw["locals"].append({"ty": bty, "mut": False})
                fpl = {"local": fi, "proj": [], "ty": bty}
                back = {"k": "assign", "place": {"local": f, "proj": [], "ty": bty}, "rv": {"k": "use", "op": {"k": "copy", "place": dict(fpl)}}}
                sw = copy.deepcopy(t)
                sw["discr"] = {"k": "copy", "place": dict(fpl)}
                if kind == "stmt":
                    s = pb["stmts"][idx]
                    s["place"] = dict(fpl)
                    back["span"] = s.get("span")
                    pb["stmts"].insert(idx + 1, back)
                    if tmp is not None:
                        pb["stmts"].append(copy.deepcopy(stmts[0]))
                    pb["term"] = sw
                else:
                    pt = pb["term"]
                    pt["dest"] = dict(fpl)
                    back["span"] = pt.get("span")
                    nb = {"cleanup": False, "stmts": [back] + ([copy.deepcopy(stmts[0])] if tmp is not None else []), "term": sw}
                    blocks.append(nb)
                    pt["target"] = len(blocks) - 1
            n_threaded += 1
            changed = True
            break
        if not changed:
            break
    return n_threaded
