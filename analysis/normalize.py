"""MIR normalisations applied to every body before any rule looks at it.

thread_flags: a boolean that is computed on several arms, joined, and only then tested

        let emptied = match self.old { Some(ref o) => o.table.len() == 0, None => false };
        if emptied { .. }

hides the test from rules that read branch conditions (the condition of the `if` is a multiply-defined local).  The join block is
threaded: every arm gets its own single-definition copy of the flag and its own copy of the test (a constant arm jumps straight to
the successor its constant selects).  The original flag keeps its value (`f = copy f_i`) for later readers.  Nothing else changes:
no statement is removed, the set of executions is the same."""
import copy


def _succs(t):
    k = t["k"]
    if k == "goto":
        return [t["target"]]
    if k == "switch":
        return [tb for _, tb in t["targets"]] + [t["otherwise"]]
    out = []
    for f in ("target",):
        if t.get(f) is not None and isinstance(t.get(f), int):
            out.append(t[f])
    return out


def _all_succs(t):
    out = list(_succs(t))
    u = t.get("unwind")
    if isinstance(u, int):
        out.append(u)
    return out


def fold_literal_switches(raw):
    """`if false { .. }` / `if true { .. }` written as a literal in the source (not the value of `cfg!(..)`, which the debug/release rules need to
    see as a test): the test has one outcome"""
    n = 0
    for blk in raw["blocks"]:
        t = blk["term"]
        if t["k"] == "switch" and t["discr"]["k"] == "const" and "val" in t["discr"] and not t["discr"].get("span") \
                and not (t.get("span") or {}).get("exp"):
            v = t["discr"]["val"]
            tg = [tb for x, tb in t["targets"] if x == v]
            blk["term"] = {"k": "goto", "target": tg[0] if tg else t["otherwise"], "span": t.get("span"), "folded": v}
            n += 1
    return n


def _no_def_after(raw, agg_stmt, local):
    """no assignment to `local` is reachable once the statement agg_stmt has executed"""
    blocks = raw["blocks"]
    home = next((i for i, blk in enumerate(blocks) if any(st is agg_stmt for st in blk["stmts"])), None)
    if home is None:
        return False

    def writes(blk, from_idx=0):
        for st in blk["stmts"][from_idx:]:
            if st["k"] in ("assign", "set_discr") and st["place"]["local"] == local:
                return True
        t = blk["term"]
        return t["k"] == "call" and t.get("dest") is not None and t["dest"]["local"] == local
    idx = next(i for i, st in enumerate(blocks[home]["stmts"]) if st is agg_stmt)
    if writes(blocks[home], idx + 1):
        return False
    seen, work = set(), list(_all_succs(blocks[home]["term"]))
    while work:
        x = work.pop()
        if x in seen:
            continue
        seen.add(x)
        if writes(blocks[x]):
            return False
        work.extend(_all_succs(blocks[x]["term"]))
    return True


def scalarize_plain_aggregates(raw, types):
    """A tuple or a struct of plain scalars (bool / integers, e.g. a private `ShrinkPlan { drop_leftovers: bool, min_size: usize }`) that is
    built once in this body, only moved around as a whole and read field by field, is its fields: every read `p.i` becomes a read of the
    operand stored at i.  (After a decide/apply pair of helpers is inlined, the flag the first computed is then the flag the second tests.)"""
    if raw.get("_sroa"):
        return 0
    raw["_sroa"] = True

    def plain(ti, depth=0):
        t = types[ti]
        k = t.get("k")
        if k in ("bool", "int", "uint", "char") or t.get("s") in ("bool", "usize", "isize", "u8", "u16", "u32", "u64", "u128", "i8", "i16", "i32", "i64", "i128", "char", "()"):
            return True
        return False
    nargs = raw["arg_count"]
    defs, uses_other = {}, set()
    for blk in raw["blocks"]:
        for st in blk["stmts"]:
            if st["k"] == "assign" and not st["place"]["proj"]:
                defs.setdefault(st["place"]["local"], []).append(st)
            elif st["k"] in ("assign", "set_discr"):
                uses_other.add(st["place"]["local"])       # written through a projection
        t = blk["term"]
        if t["k"] == "call" and t.get("dest") is not None:
            if t["dest"]["proj"]:
                uses_other.add(t["dest"]["local"])
            else:
                defs.setdefault(t["dest"]["local"], []).append(None)
    # candidate aggregates
    cands = {}
    for l, ds in defs.items():
        if l == 0 or l <= nargs or len(ds) != 1 or ds[0] is None:
            continue
        rv = ds[0]["rv"]
        if rv["k"] != "aggregate" or rv.get("agg") not in ("tuple", "adt") or not rv.get("ops"):
            continue
        if rv.get("agg") == "adt" and (rv.get("adt") in ("core::option::Option", "core::result::Result") or rv.get("variant") is None):
            continue
        ok = True
        for o in rv["ops"]:
            if o["k"] == "const":
                continue
            if o["k"] not in ("copy", "move") or o["place"]["proj"]:
                ok = False
                break
            if not plain(o["place"]["ty"]):
                ok = False
                break
            od = defs.get(o["place"]["local"], [])
            if o["place"]["local"] <= nargs or not od:
                ok = False
                break
            if len(od) != 1 and not _no_def_after(raw, ds[0], o["place"]["local"]):
                ok = False          # the stored local may be given another value after the aggregate was built
                break
        if ok:
            cands[l] = rv
    if not cands:
        return 0
    # alias classes: whole-local moves of a candidate
    alias = {l: l for l in cands}
    changed = True
    while changed:
        changed = False
        for l, ds in defs.items():
            if l in alias or l == 0 or l <= nargs or len(ds) != 1 or ds[0] is None:
                continue
            rv = ds[0]["rv"]
            if rv["k"] == "use" and rv["op"]["k"] in ("copy", "move") and not rv["op"]["place"]["proj"] and rv["op"]["place"]["local"] in alias:
                alias[l] = alias[rv["op"]["place"]["local"]]
                changed = True
    # every other use of a member disqualifies its class
    bad = set()

    def see_op(o, field_read_ok):
        if o.get("k") in ("copy", "move"):
            l = o["place"]["local"]
            if l in alias:
                pr = o["place"]["proj"]
                if pr and pr[0]["k"] == "field" and field_read_ok:
                    return
                if not pr and field_read_ok == "whole":
                    return
                bad.add(alias[l])

    def see_place(pl):
        if pl["local"] in alias:
            bad.add(alias[pl["local"]])
    for blk in raw["blocks"]:
        for st in blk["stmts"]:
            if st["k"] == "assign":
                rv = st["rv"]
                k = rv["k"]
                if st["place"]["proj"] and st["place"]["local"] in alias:
                    bad.add(alias[st["place"]["local"]])
                if k == "use":
                    whole_move = not st["place"]["proj"] and st["place"]["local"] in alias
                    see_op(rv["op"], "whole" if whole_move else True)
                    if not whole_move and rv["op"].get("k") in ("copy", "move") and not rv["op"]["place"]["proj"] and rv["op"]["place"]["local"] in alias:
                        bad.add(alias[rv["op"]["place"]["local"]])
                elif k in ("ref", "rawptr", "discr", "copy_for_deref", "len"):
                    see_place(rv["place"])
                elif k in ("cast", "repeat", "wrap_binder"):
                    see_op(rv["op"], False)
                elif k == "binop":
                    see_op(rv["a"], True); see_op(rv["b"], True)
                elif k == "unop":
                    see_op(rv["a"], True)
                elif k == "aggregate":
                    for o in rv["ops"]:
                        see_op(o, True)
            elif st["k"] == "set_discr":
                see_place(st["place"])
        t = blk["term"]
        if t["k"] == "call":
            for a in t.get("args", []):
                see_op(a, True)
            see_op(t["func"], False) if isinstance(t.get("func"), dict) else None
        elif t["k"] == "switch":
            see_op(t["discr"], True)
        elif t["k"] == "drop":
            see_place(t["place"])
        elif t["k"] == "assert":
            see_op(t["cond"], True)
    for l in uses_other:
        if l in alias:
            bad.add(alias[l])
    n = 0

    def rewrite(o):
        nonlocal n
        if o.get("k") in ("copy", "move"):
            l = o["place"]["local"]
            pr = o["place"]["proj"]
            if l in alias and alias[l] not in bad and pr and pr[0]["k"] == "field":
                src = cands[alias[l]]["ops"][pr[0]["i"]] if pr[0]["i"] < len(cands[alias[l]]["ops"]) else None
                if src is None:
                    return
                if src["k"] == "const":
                    if len(pr) == 1:
                        o.clear(); o.update(src)
                        n += 1
                    return
                o["k"] = "copy"
                o["place"] = {"local": src["place"]["local"], "proj": list(pr[1:]), "ty": o["place"]["ty"]}
                n += 1
    for blk in raw["blocks"]:
        for st in blk["stmts"]:
            if st["k"] == "assign":
                rv = st["rv"]
                for key in ("op", "a", "b"):
                    if isinstance(rv.get(key), dict):
                        rewrite(rv[key])
                for o in rv.get("ops", []):
                    rewrite(o)
        t = blk["term"]
        if t["k"] == "call":
            for a in t.get("args", []):
                rewrite(a)
        elif t["k"] == "switch":
            rewrite(t["discr"])
        elif t["k"] == "assert":
            rewrite(t["cond"])
    return n


def thread_flags(raw, types):
    if raw.get("_threaded"):
        return 0
    raw["_threaded"] = True
    fold_literal_switches(raw)
    blocks = raw["blocks"]
    n_threaded = 0
    for _round in range(4):
        changed = False
        preds = {}
        for i, blk in enumerate(blocks):
            for s_ in _all_succs(blk["term"]):
                preds.setdefault(s_, []).append(i)
        for J, blk in enumerate(blocks):
            t = blk["term"]
            if t["k"] != "switch" or blk.get("cleanup"):
                continue
            d = t["discr"]
            if d["k"] not in ("copy", "move") or d["place"]["proj"]:
                continue
            stmts = [s for s in blk["stmts"] if s["k"] != "nop"]
            f = d["place"]["local"]
            tmp = None
            if len(stmts) == 1 and stmts[0]["k"] == "assign" and not stmts[0]["place"]["proj"] and stmts[0]["place"]["local"] == f \
                    and stmts[0]["rv"]["k"] == "use" and stmts[0]["rv"]["op"]["k"] in ("copy", "move") and not stmts[0]["rv"]["op"]["place"]["proj"]:
                tmp = f
                f = stmts[0]["rv"]["op"]["place"]["local"]
            elif stmts:
                continue
            if types[raw["locals"][f]["ty"]].get("k") != "bool" or f <= raw["arg_count"]:
                continue
            ps = preds.get(J, [])
            if len(ps) < 2 or J in ps:
                continue
            plan = []
            partial = False
            for P in ps:
                pb = blocks[P]
                pt = pb["term"]
                if pt["k"] == "goto" and pt["target"] == J:
                    # the last whole definition of f in P
                    idx = None
                    for i, s in enumerate(pb["stmts"]):
                        if s["k"] == "assign" and s["place"]["local"] == f:
                            idx = i if not s["place"]["proj"] else None
                    if idx is None:
                        partial = True          # f comes from further up on this edge: left alone
                        continue
                    plan.append((P, "stmt", idx))
                elif pt["k"] == "call" and pt.get("target") == J and pt.get("dest") is not None and not pt["dest"]["proj"] and pt["dest"]["local"] == f:
                    plan.append((P, "call", None))
                else:
                    partial = True
            if partial:
                # only the edges on which the flag has just been set to a constant are threaded (`exhausted = true; break`)
                plan = [x for x in plan if x[1] == "stmt" and blocks[x[0]]["stmts"][x[2]]["rv"]["k"] == "use"
                        and blocks[x[0]]["stmts"][x[2]]["rv"]["op"]["k"] == "const" and "val" in blocks[x[0]]["stmts"][x[2]]["rv"]["op"]]
            if not plan:
                continue
            # at least one arm must be a constant, otherwise there is nothing to gain
            def is_const(P, kind, idx):
                return kind == "stmt" and blocks[P]["stmts"][idx]["rv"]["k"] == "use" and blocks[P]["stmts"][idx]["rv"]["op"]["k"] == "const" \
                    and "val" in blocks[P]["stmts"][idx]["rv"]["op"]
            if not any(is_const(*x) for x in plan):
                continue
            bty = raw["locals"][f]["ty"]
            for P, kind, idx in plan:
                pb = blocks[P]
                if is_const(P, kind, idx):
                    v = pb["stmts"][idx]["rv"]["op"]["val"]
                    tg = [tb for x, tb in t["targets"] if x == v]
                    dest = tg[0] if tg else t["otherwise"]
                    new_stmts = []
                    if tmp is not None:
                        new_stmts.append(copy.deepcopy(stmts[0]))
                    pb["stmts"].extend(new_stmts)
                    pb["term"] = {"k": "goto", "target": dest, "span": pb["term"].get("span")}
                    continue
                fi = len(raw["locals"])
                raw["locals"].append({"ty": bty, "mut": False})
                fpl = {"local": fi, "proj": [], "ty": bty}
                back = {"k": "assign", "place": {"local": f, "proj": [], "ty": bty}, "rv": {"k": "use", "op": {"k": "copy", "place": dict(fpl)}}}
                sw = copy.deepcopy(t)
                sw["discr"] = {"k": "copy", "place": dict(fpl)}
                if kind == "stmt":
                    s = pb["stmts"][idx]
                    s["place"] = dict(fpl)
                    back["span"] = s.get("span")
                    pb["stmts"].insert(idx + 1, back)
                    if tmp is not None:
                        pb["stmts"].append(copy.deepcopy(stmts[0]))
                    pb["term"] = sw
                else:
                    pt = pb["term"]
                    pt["dest"] = dict(fpl)
                    back["span"] = pt.get("span")
                    nb = {"cleanup": False, "stmts": [back] + ([copy.deepcopy(stmts[0])] if tmp is not None else []), "term": sw}
                    blocks.append(nb)
                    pt["target"] = len(blocks) - 1
            n_threaded += 1
            changed = True
            if partial:
                _fold_if_constant(raw, J, f, t)
            break
        if not changed:
            break
    return n_threaded


def _fold_if_constant(raw, J, f, t):
    """after some edges into J were threaded away: if every definition of the flag from which J can still be reached sets the same
    constant, J's test has one outcome"""
    blocks = raw["blocks"]

    def reach(starts):
        seen, st = set(), list(starts)
        while st:
            x = st.pop()
            if x in seen:
                continue
            seen.add(x)
            st.extend(_all_succs(blocks[x]["term"]))
        return seen
    vals = set()
    for i, blk in enumerate(blocks):
        for s in blk["stmts"]:
            if s["k"] == "assign" and s["place"]["local"] == f:
                if s["place"]["proj"] or s["rv"]["k"] != "use" or s["rv"]["op"]["k"] != "const" or "val" not in s["rv"]["op"]:
                    if J in reach(_all_succs(blk["term"])) or i == J:
                        return
                    continue
                if i == J or J in reach(_all_succs(blk["term"])):
                    vals.add(s["rv"]["op"]["val"])
        tt = blk["term"]
        if tt["k"] == "call" and tt.get("dest") is not None and tt["dest"]["local"] == f and J in reach(_all_succs(tt)):
            return
    if len(vals) != 1 or f <= raw["arg_count"]:
        return
    v = vals.pop()
    tg = [tb for x, tb in t["targets"] if x == v]
    blocks[J]["term"] = {"k": "goto", "target": tg[0] if tg else t["otherwise"], "span": t.get("span"), "folded": v}


HB_TABLE = "hashbrown::raw::RawTable"


def desugar_option_like(d):
    """A two-variant enum of the crate with one unit variant and one variant holding exactly one value, that value being a record
    with a hashbrown table in it (`enum Resize<T> { Idle, Moving(OldTable<T>) }`), *is* `Option<OldTable<T>>` under another name.
    The facts are rewritten to say so — types, aggregates, downcasts, field projections, discriminant values — so that every rule
    reads the resize state the way it reads `Option<OldTable<T>>`.  The enum's own helper methods stay ordinary functions of the
    crate (the inlined views look through them).  Returns the list of enums rewritten."""
    if d.get("_optlike"):
        return d["_optlike"]
    T = d["types"]
    adts = {a["path"]: a for a in d["adts"]}
    done = []
    for a in d["adts"]:
        if a.get("kind") != "Enum" or len(a["variants"]) != 2 or not a["path"].startswith(d["crate"] + "::"):
            continue
        nf = [len(v["fields"]) for v in a["variants"]]
        if sorted(nf) != [0, 1]:
            continue
        pidx = nf.index(1)
        pf = a["variants"][pidx]["fields"][0]
        pt0 = T[pf["ty"]]
        # the payload may be the record itself or a borrow of it (`enum Phase<'a, T> { Settled, Moving(&'a OldTable<T>) }`, a view of the state)
        refs = []
        pt = pt0
        while pt.get("k") == "ref":
            refs.append(bool(pt.get("mut")))
            pt = T[pt["inner"]]
        pa = adts.get(pt.get("adt"))
        if pt.get("k") != "adt" or pa is None or pa.get("kind") != "Struct":
            continue
        if not any(T[f["ty"]].get("adt") == HB_TABLE for f in pa["variants"][0]["fields"]):
            continue
        E = a["path"]
        names = {a["variants"][pidx]["name"]: "Some", a["variants"][1 - pidx]["name"]: "None"}
        # types
        e_ids = set()
        for i, t in enumerate(list(T)):
            if t.get("k") == "adt" and t.get("adt") == E:
                e_ids.add(i)
                args = t.get("args", [])
                inner = None
                if args == pt.get("args", []):
                    inner = pf["ty"]
                else:
                    for j, u in enumerate(T):
                        if u.get("k") == "adt" and u.get("adt") == pt["adt"] and u.get("args", []) == args:
                            inner = j
                    if inner is None:
                        T.append({"s": "%s<%s>" % (pt["adt"].split("::", 1)[-1], ", ".join(T[x]["s"] for x in args)), "has_param": t.get("has_param"),
                                  "k": "adt", "adt": pt["adt"], "args": list(args)})
                        inner = len(T) - 1
                    for m_ in reversed(refs):
                        found = None
                        for j, u in enumerate(T):
                            if u.get("k") == "ref" and bool(u.get("mut")) == m_ and u.get("inner") == inner:
                                found = j
                        if found is None:
                            T.append({"s": "&%s%s" % ("mut " if m_ else "", T[inner]["s"]), "has_param": t.get("has_param"), "k": "ref", "mut": m_, "inner": inner})
                            found = len(T) - 1
                        inner = found
                t["desugared_from"] = E
                t["adt"] = "core::option::Option"
                t["args"] = [inner]
                t["s"] = "core::option::Option<%s>" % T[inner]["s"]
        a["kind"] = "EnumDesugared"

        def fix_proj(proj):
            for i, e in enumerate(proj):
                if e.get("k") == "field" and e.get("adt") == E:
                    if i > 0 and proj[i - 1].get("k") == "downcast":
                        proj[i - 1]["variant"] = names.get(proj[i - 1].get("variant"), proj[i - 1].get("variant"))
                        proj[i - 1]["vidx"] = 1 if proj[i - 1]["variant"] == "Some" else 0
                    e["adt"] = "core::option::Option"
                    e["variant"] = "Some"

        def walk(x):
            if isinstance(x, dict):
                if x.get("k") == "aggregate" and x.get("adt") == E:
                    x["adt"] = "core::option::Option"
                    x["variant"] = names.get(x.get("variant"), x.get("variant"))
                    x["vidx"] = 1 if x["variant"] == "Some" else 0
                if isinstance(x.get("proj"), list):
                    fix_proj(x["proj"])
                for v in x.values():
                    walk(v)
            elif isinstance(x, list):
                for v in x:
                    walk(v)
        walk(d["bodies"])
        if pidx != 1:
            # discriminant values: the payload variant must read as 1 (Some), the unit variant as 0 (None)
            for b in d["bodies"]:
                dl = set()
                for blk in b["blocks"]:
                    for st in blk["stmts"]:
                        if st.get("k") == "assign" and st["rv"].get("k") == "discr" and st["rv"]["place"].get("ty") in e_ids and not st["place"]["proj"]:
                            dl.add(st["place"]["local"])
                        if st.get("k") == "set_discr" and st["place"].get("ty") in e_ids and "variant_index" in st:
                            st["variant_index"] = 1 - st["variant_index"]
                grew = True
                while grew:
                    grew = False
                    for blk in b["blocks"]:
                        for st in blk["stmts"]:
                            if st.get("k") == "assign" and st["rv"].get("k") == "use" and st["rv"]["op"].get("k") in ("copy", "move") \
                                    and not st["rv"]["op"]["place"]["proj"] and st["rv"]["op"]["place"]["local"] in dl \
                                    and not st["place"]["proj"] and st["place"]["local"] not in dl:
                                dl.add(st["place"]["local"])
                                grew = True
                for blk in b["blocks"]:
                    t = blk["term"]
                    if t.get("k") == "switch" and t["discr"].get("k") in ("copy", "move") and not t["discr"]["place"]["proj"] and t["discr"]["place"]["local"] in dl:
                        t["targets"] = [[1 - v if v in (0, 1) else v, tb] for v, tb in t["targets"]]
        done.append({"enum": E, "payload": pt["adt"], "some": a["variants"][pidx]["name"], "none": a["variants"][1 - pidx]["name"]})
    d["_optlike"] = done
    return done


def replace_none_is_take(raw, types):
    """`mem::replace(&mut x, None)` on an Option is `x.take()`: rewritten so, for every rule that knows `take`."""
    if raw.get("_rnt"):
        return 0
    raw["_rnt"] = True
    defs = {}
    for blk in raw["blocks"]:
        for st in blk["stmts"]:
            if st["k"] == "assign" and not st["place"]["proj"]:
                defs.setdefault(st["place"]["local"], []).append(st)
        t = blk["term"]
        if t["k"] == "call" and t.get("dest") is not None and not t["dest"]["proj"]:
            defs.setdefault(t["dest"]["local"], []).append(None)
    n = 0
    for blk in raw["blocks"]:
        t = blk["term"]
        if t["k"] != "call" or t.get("callee") != "core::mem::replace" or len(t["args"]) != 2 or not t.get("targs"):
            continue
        ty = types[t["targs"][0]]
        if ty.get("adt") != "core::option::Option":
            continue
        a = t["args"][1]
        if a["k"] not in ("copy", "move") or a["place"]["proj"]:
            continue
        ds = [x for x in defs.get(a["place"]["local"], [])]
        if len(ds) != 1 or ds[0] is None or ds[0]["rv"].get("k") != "aggregate" or ds[0]["rv"].get("adt") != "core::option::Option" \
                or ds[0]["rv"].get("variant") != "None":
            continue
        ds[0]["k"] = "nop"          # the `None` that was handed in: consumed by the call, nothing else reads it
        ds[0]["was"] = "assign None (argument of mem::replace)"
        t["rewritten_from"] = "core::mem::replace(_, None)"
        t["callee"] = "core::option::Option::<T>::take"
        t["callee_args"] = "core::option::Option::<%s>::take" % ty["s"]
        t["callee_dpath"] = "core::option::{impl#0}::take"
        t["resolved"] = {"path": "core::option::Option::<T>::take", "dpath": "core::option::{impl#0}::take", "kind": "Item", "local": False}
        t["func"] = {"k": "const", "ty": t["func"].get("ty"), "text": t["callee_args"], "fn": t["callee"], "fn_args": t["callee_args"]}
        t["targs"] = list(ty.get("args", []))
        t["args"] = [t["args"][0]]
        n += 1
    return n


def lower_identity_calls(raw, types):
    """`Iterator::by_ref(&mut it)` returns its argument, and so does the blanket `IntoIterator::into_iter` of an iterator; for a `&mut I` (the
    `for x in it.by_ref()` / `for x in &mut it` forms) the call is written as the move it is, so the loop's `next` is seen on `it` itself."""
    if raw.get("_lic"):
        return 0
    raw["_lic"] = True
    n = 0
    for blk in raw["blocks"]:
        t = blk["term"]
        if t["k"] != "call" or len(t.get("args", [])) != 1 or t.get("dest") is None or t.get("target") is None:
            continue
        res = t.get("resolved") or {}
        ident = False
        if t.get("callee") == "core::iter::Iterator::by_ref" and res.get("path") == "core::iter::Iterator::by_ref":
            ident = True
        elif t.get("callee") == "core::iter::IntoIterator::into_iter" and res.get("path") == "<I as core::iter::IntoIterator>::into_iter" \
                and t.get("targs") and types[t["targs"][0]].get("k") == "ref" and types[t["targs"][0]].get("mut"):
            ident = True
        if (t.get("resolved") or {}).get("path") == "<core::option::Option<T> as core::ops::FromResidual<core::option::Option<core::convert::Infallible>>>::from_residual":
            # the `?` operator on an Option: the residual of an Option is None, and so is what is made of it
            blk["stmts"].append({"k": "assign", "place": t["dest"], "rv": {"k": "aggregate", "agg": "adt", "adt": "core::option::Option", "variant": "None",
                                                                             "vidx": 0, "fields": [], "ops": []}, "span": t["span"], "lowered_from": t.get("callee")})
            blk["term"] = {"k": "goto", "target": t["target"], "span": t["span"], "rewritten_from": t.get("callee")}
            n += 1
            continue
        if not ident or t["args"][0]["k"] not in ("move", "copy"):
            continue
        blk["stmts"].append({"k": "assign", "place": t["dest"], "rv": {"k": "use", "op": t["args"][0]}, "span": t["span"], "lowered_from": t.get("callee")})
        blk["term"] = {"k": "goto", "target": t["target"], "span": t["span"], "rewritten_from": t.get("callee")}
        n += 1
    return n


def lower_option_replace(raw, types):
    """`opt.replace(v)` and `mem::replace(&mut opt, v)` on an Option place are `old = move opt; opt = Some(v)` (resp. `opt = v`): written as the two
    assignments, for every rule that knows assignments to the place (neither call can unwind)."""
    if raw.get("_lor"):
        return 0
    raw["_lor"] = True
    defs = {}
    for blk in raw["blocks"]:
        for st in blk["stmts"]:
            if st["k"] == "assign" and not st["place"]["proj"]:
                defs.setdefault(st["place"]["local"], []).append(st)
        t = blk["term"]
        if t["k"] == "call" and t.get("dest") is not None and not t["dest"]["proj"]:
            defs.setdefault(t["dest"]["local"], []).append(None)

    def ref_target(local):
        ds = defs.get(local, [])
        if len(ds) != 1 or ds[0] is None or ds[0]["rv"].get("k") != "ref" or not ds[0]["rv"].get("mut"):
            return None, None
        return ds[0], ds[0]["rv"]["place"]
    n = 0
    for blk in raw["blocks"]:
        t = blk["term"]
        if t["k"] != "call" or len(t.get("args", [])) != 2 or t.get("dest") is None or t.get("target") is None:
            continue
        if t.get("callee") == "core::option::Option::<T>::replace":
            wrap = True
        elif t.get("callee") == "core::mem::replace" and t.get("targs") and types[t["targs"][0]].get("adt") == "core::option::Option":
            wrap = False
        else:
            continue
        a0 = t["args"][0]
        if a0["k"] not in ("move", "copy") or a0["place"]["proj"]:
            continue
        st0, P = ref_target(a0["place"]["local"])
        if P is None or st0 not in blk["stmts"]:
            continue
        used = [st0]
        hops = 0
        while P["proj"] and P["proj"][0]["k"] == "deref" and hops < 3:
            st1, Q = ref_target(P["local"])
            if Q is None or st1 not in blk["stmts"]:
                break
            P = {"local": Q["local"], "proj": list(Q["proj"]) + list(P["proj"][1:]), "ty": P["ty"]}
            used.append(st1)
            hops += 1
        if types[P["ty"]].get("adt") != "core::option::Option":
            continue
        v = t["args"][1]
        for u in used:
            u["k"] = "nop"
            u["was"] = "&mut of the Option place handed to replace"
        blk["stmts"].append({"k": "assign", "place": t["dest"], "rv": {"k": "use", "op": {"k": "move", "place": P}}, "span": t["span"], "lowered_from": t.get("callee")})
        if wrap:
            rv = {"k": "aggregate", "agg": "adt", "adt": "core::option::Option", "variant": "Some", "vidx": 1, "fields": ["0"], "ops": [v]}
        else:
            rv = {"k": "use", "op": v}
        blk["stmts"].append({"k": "assign", "place": P, "rv": rv, "span": t["span"], "lowered_from": t.get("callee")})
        blk["term"] = {"k": "goto", "target": t["target"], "span": t["span"], "rewritten_from": t.get("callee")}
        n += 1
    return n


# ---------------------------------------------------------------------------------------------------------------------
# helper functions of the crate that are, statement for statement, one of Option's own methods
# ---------------------------------------------------------------------------------------------------------------------
OPT_ADT = "core::option::Option"
STD_FN = {
    "is_some": ("core::option::Option::<T>::is_some", "core::option::{impl#0}::is_some"),
    "is_none": ("core::option::Option::<T>::is_none", "core::option::{impl#0}::is_none"),
    "as_ref": ("core::option::Option::<T>::as_ref", "core::option::{impl#0}::as_ref"),
    "as_mut": ("core::option::Option::<T>::as_mut", "core::option::{impl#0}::as_mut"),
    "take": ("core::option::Option::<T>::take", "core::option::{impl#0}::take"),
}


def _live_blocks(raw):
    seen, st = set(), [0]
    while st:
        x = st.pop()
        if x in seen:
            continue
        seen.add(x)
        t = raw["blocks"][x]["term"]
        st.extend(_succs(t))
    return [i for i in sorted(seen) if not raw["blocks"][i].get("cleanup")]


def _is_noise(st, types, raw):
    """drop-flag writes and discriminant re-reads that drop elaboration leaves behind: no effect on the result"""
    if st["k"] in ("nop", "storage_live", "storage_dead"):
        return True
    if st["k"] != "assign" or st["place"]["proj"] or st["place"]["local"] == 0:
        return False
    rv = st["rv"]
    if rv["k"] == "use" and rv["op"]["k"] == "const" and types[raw["locals"][st["place"]["local"]]["ty"]].get("k") == "bool":
        return "flag"
    if rv["k"] == "discr":
        return "discr"
    return False


def _classify_option_helper(raw, types, known):
    """'is_some' | 'is_none' | 'as_ref' | 'as_mut' | 'take' | 'identity' | None for a one-parameter function over an Option"""
    if raw.get("kind") == "Closure" or raw["arg_count"] != 1:
        return None
    pty = types[raw["locals"][1]["ty"]]
    rty = types[raw["locals"][0]["ty"]]
    by_ref = pty.get("k") == "ref"
    inner = types[pty["inner"]] if by_ref else pty
    if inner.get("adt") != OPT_ADT:
        return None
    live = _live_blocks(raw)
    blocks = raw["blocks"]

    def self_place(pl, payload=False):
        """(*_1) [as Some].0 for a by-ref parameter, _1 [as Some].0 for a by-value one"""
        pj = list(pl["proj"])
        if pl["local"] != 1:
            return False
        if by_ref:
            if not pj or pj[0]["k"] != "deref":
                return False
            pj = pj[1:]
        if not payload:
            return not pj
        return len(pj) == 2 and pj[0]["k"] == "downcast" and pj[0].get("variant") == "Some" and pj[1]["k"] == "field" and pj[1]["i"] == 0

    # (a) negation / identity wrapper around a known helper:  _t = helper(&*_1) ; _0 = Not(_t)   |   _t = take-like(&mut *_1); _0 = identity(_t)
    calls = [i for i in live if blocks[i]["term"]["k"] == "call"]
    if len(calls) in (1, 2) and not any(blocks[i]["term"]["k"] == "switch" for i in live):
        seq = []
        x = 0
        while True:
            blk = blocks[x]
            seq.append(blk)
            t = blk["term"]
            if t["k"] == "return":
                break
            nx = t.get("target") if t["k"] in ("call", "goto", "drop") else None
            if nx is None or len(seq) > 6:
                return None
            x = nx
        stmts = [(s, None) for blk in seq for s in blk["stmts"] if not _is_noise(s, types, raw)]
        cts = [blk["term"] for blk in seq if blk["term"]["k"] == "call"]
        if any(blk["term"]["k"] == "drop" for blk in seq):
            return None
        vals = {}      # local -> symbolic value
        ok = True
        bi = 0
        for blk in seq:
            for s in blk["stmts"]:
                if _is_noise(s, types, raw):
                    continue
                if s["k"] != "assign" or s["place"]["proj"]:
                    return None
                rv = s["rv"]
                l = s["place"]["local"]
                if rv["k"] == "ref" and self_place(rv["place"]) and by_ref:
                    vals[l] = "self"
                elif rv["k"] == "use" and rv["op"]["k"] in ("copy", "move") and not rv["op"]["place"]["proj"]:
                    src = rv["op"]["place"]["local"]
                    vals[l] = "self" if (src == 1 and True) else vals.get(src)
                elif rv["k"] == "unop" and rv["op"] == "Not" and rv["a"]["k"] in ("copy", "move") and not rv["a"]["place"]["proj"]:
                    v = vals.get(rv["a"]["place"]["local"])
                    vals[l] = {"is_some": "is_none", "is_none": "is_some"}.get(v)
                else:
                    return None
                if vals.get(l) is None:
                    return None
            t = blk["term"]
            if t["k"] == "call":
                if t.get("dest") is None or t["dest"]["proj"] or len(t["args"]) != 1:
                    return None
                a = t["args"][0]
                av = vals.get(a["place"]["local"]) if a["k"] in ("copy", "move") and not a["place"]["proj"] else None
                if a["k"] in ("copy", "move") and not a["place"]["proj"] and a["place"]["local"] == 1:
                    av = "self"
                callee = t.get("callee")
                kind = known.get(callee)
                if kind is None:
                    for k_, (p_, _) in STD_FN.items():
                        if callee == p_:
                            kind = k_
                if kind is None:
                    return None
                if kind == "identity":
                    if av is None:
                        return None
                    vals[t["dest"]["local"]] = av
                elif av == "self":
                    vals[t["dest"]["local"]] = kind
                else:
                    return None
        r = vals.get(0)
        if r in ("is_some", "is_none") and rty.get("k") == "bool":
            return r
        if r in ("as_ref", "as_mut", "take") and rty.get("adt") == OPT_ADT:
            return r
        if r == "self" and not by_ref and rty.get("adt") == OPT_ADT:
            return "identity"
        return None
    if calls:
        return None
    # (b) a two-armed match on the discriminant of self
    sw = [i for i in live if blocks[i]["term"]["k"] == "switch"]
    if len(sw) != 1 or sw[0] != 0:
        return None
    t = blocks[0]["term"]
    d = t["discr"]
    dd = [s for s in blocks[0]["stmts"] if s["k"] == "assign" and s["rv"]["k"] == "discr" and not s["place"]["proj"]
          and d["k"] in ("copy", "move") and s["place"]["local"] == d["place"]["local"]]
    if len(dd) != 1 or not self_place(dd[0]["rv"]["place"]):
        return None
    if any(not _is_noise(s, types, raw) for s in blocks[0]["stmts"] if s is not dd[0]):
        return None
    tg = dict((v, tb) for v, tb in t["targets"])
    none_bb, some_bb = tg.get(0), tg.get(1)
    if some_bb is None:
        some_bb = t["otherwise"]
    if none_bb is None:
        none_bb = t["otherwise"]
    if none_bb == some_bb:
        return None

    def arm(bb):
        """statements of a straight-line arm up to the return (noise removed), or None"""
        out = []
        n = 0
        while True:
            blk = blocks[bb]
            out += [s for s in blk["stmts"] if not _is_noise(s, types, raw)]
            tt = blk["term"]
            if tt["k"] == "return":
                return out
            if tt["k"] != "goto" or n > 4:
                return None
            bb = tt["target"]
            n += 1
    an, as_ = arm(none_bb), arm(some_bb)
    if an is None or as_ is None:
        return None

    def const_ret(a):
        if len(a) == 1 and a[0]["k"] == "assign" and a[0]["place"]["local"] == 0 and not a[0]["place"]["proj"] and a[0]["rv"]["k"] == "use" \
                and a[0]["rv"]["op"]["k"] == "const" and "val" in a[0]["rv"]["op"]:
            return a[0]["rv"]["op"]["val"]
        return None
    if rty.get("k") == "bool":
        cn, cs = const_ret(an), const_ret(as_)
        if (cn, cs) == (0, 1):
            return "is_some"
        if (cn, cs) == (1, 0):
            return "is_none"
        return None
    if rty.get("adt") != OPT_ADT:
        return None
    # None arm: _0 = None
    if not (len(an) == 1 and an[0]["k"] == "assign" and an[0]["place"]["local"] == 0 and not an[0]["place"]["proj"] and an[0]["rv"]["k"] == "aggregate"
            and an[0]["rv"].get("adt") == OPT_ADT and an[0]["rv"].get("variant") == "None"):
        return None
    # Some arm: a chain from the payload of self to _0 = Some(x)
    cur, kind = None, None
    for s in as_:
        if s["k"] != "assign" or s["place"]["proj"]:
            return None
        rv = s["rv"]
        l = s["place"]["local"]
        if cur is None:
            if rv["k"] == "ref" and self_place(rv["place"], payload=True) and by_ref:
                kind = "as_mut" if rv.get("mut") else "as_ref"
                cur = l
            elif rv["k"] == "use" and rv["op"]["k"] == "move" and self_place(rv["op"]["place"], payload=True) and not by_ref:
                kind = "identity"
                cur = l
            else:
                return None
        elif l == 0:
            if rv["k"] == "aggregate" and rv.get("adt") == OPT_ADT and rv.get("variant") == "Some" and len(rv["ops"]) == 1 \
                    and rv["ops"][0]["k"] in ("copy", "move") and not rv["ops"][0]["place"]["proj"] and rv["ops"][0]["place"]["local"] == cur:
                cur = 0
            else:
                return None
        elif rv["k"] == "use" and rv["op"]["k"] in ("copy", "move") and not rv["op"]["place"]["proj"] and rv["op"]["place"]["local"] == cur:
            cur = l
        elif rv["k"] == "ref" and len(rv["place"]["proj"]) == 1 and rv["place"]["proj"][0]["k"] == "deref" and rv["place"]["local"] == cur and kind in ("as_ref", "as_mut"):
            if kind == "as_ref" and rv.get("mut"):
                return None
            cur = l                    # re-borrow
        else:
            return None
    if cur != 0:
        return None
    if kind == "as_mut" and not pty.get("mut"):
        return None
    return kind


def std_equivalents(d):
    """Rewrite calls of crate functions that are exactly Option::is_some / is_none / as_ref / as_mut / take (or the identity on an Option)
    into calls of those (or into a move).  Returns {function path: what it is}."""
    if "_stdeq" in d:
        return d["_stdeq"]
    T = d["types"]
    for b in d["bodies"]:
        replace_none_is_take(b, T)
    known = {}
    for _ in range(4):
        grew = False
        for b in d["bodies"]:
            if b["path"] in known or not b["path"].startswith(d["crate"] + "::"):
                continue
            k = _classify_option_helper(b, T, known)
            if k is not None:
                known[b["path"]] = k
                grew = True
        if not grew:
            break
    if known:
        for b in d["bodies"]:
            if b["path"] in known:
                continue
            for blk in b["blocks"]:
                t = blk["term"]
                if t["k"] != "call" or t.get("callee") not in known or not (t.get("resolved") or {}).get("local"):
                    continue
                kind = known[t["callee"]]
                if kind == "identity":
                    if t.get("target") is None or t.get("dest") is None:
                        continue
                    blk["stmts"].append({"k": "assign", "place": t["dest"], "rv": {"k": "use", "op": t["args"][0]}, "span": t.get("span"), "was_call": t["callee"]})
                    blk["term"] = {"k": "goto", "target": t["target"], "span": t.get("span")}
                    continue
                path, dpath = STD_FN[kind]
                aty = T[t["args"][0]["place"]["ty"]] if t["args"][0]["k"] in ("copy", "move") else None
                oty = T[aty["inner"]] if aty is not None and aty.get("k") == "ref" else aty
                t["rewritten_from"] = t["callee"]
                t["callee"] = path
                t["callee_args"] = "core::option::Option::<%s>::%s" % (T[oty["args"][0]]["s"] if oty and oty.get("args") else "T", kind)
                t["callee_dpath"] = dpath
                t["local"] = False
                t["resolved"] = {"path": path, "dpath": dpath, "kind": "Item", "local": False}
                t["func"] = {"k": "const", "ty": t["func"].get("ty"), "text": t["callee_args"], "fn": path, "fn_args": t["callee_args"]}
                t["targs"] = list(oty.get("args", [])) if oty else []
    d["_stdeq"] = known
    return known


def desugar_newtypes(d):
    """A private one-field struct of the crate around a hashbrown type (`struct Cursor<T>(raw::RawIter<T>)`) is that hashbrown type under
    another name: its type entries become the wrapped type's, `.0` projections disappear, `Cursor(x)` is `x`.  Its methods stay
    ordinary functions (see forwarders below).  Returns the list of newtypes rewritten."""
    if "_newtypes" in d:
        return d["_newtypes"]
    T = d["types"]
    done = []
    for a in d["adts"]:
        if a.get("kind") != "Struct" or a.get("exported") or not a["path"].startswith(d["crate"] + "::"):
            continue
        fs = a["variants"][0]["fields"]
        if len(fs) != 1:
            continue
        it = T[fs[0]["ty"]]
        if it.get("k") != "adt" or not str(it.get("adt", "")).startswith("hashbrown::"):
            continue
        N = a["path"]
        gens = [g for g in a.get("generics", []) if not g.startswith("'")]
        for i, t in enumerate(list(T)):
            if t.get("k") == "adt" and t.get("adt") == N:
                args = t.get("args", [])
                inner = None
                if args == it.get("args", []):
                    inner = fs[0]["ty"]
                else:
                    for j, u in enumerate(T):
                        if u.get("k") == "adt" and u.get("adt") == it["adt"] and u.get("args", []) == args:
                            inner = j
                    if inner is None:
                        T.append({"s": "%s<%s>" % (it["adt"], ", ".join(T[x]["s"] for x in args)), "has_param": t.get("has_param"), "k": "adt", "adt": it["adt"], "args": list(args)})
                        inner = len(T) - 1
                src = T[inner]
                keep = {"desugared_from": N}
                t.clear()
                t.update(src)
                t.update(keep)
        a["kind"] = "StructDesugared"

        def walk(x):
            if isinstance(x, dict):
                if isinstance(x.get("proj"), list) and any(e.get("k") == "field" and e.get("adt") == N for e in x["proj"]):
                    x["proj"] = [e for e in x["proj"] if not (e.get("k") == "field" and e.get("adt") == N)]
                if x.get("k") == "assign" and isinstance(x.get("rv"), dict) and x["rv"].get("k") == "aggregate" and x["rv"].get("adt") == N:
                    x["rv"] = {"k": "use", "op": x["rv"]["ops"][0], "was_aggregate": N}
                for v in x.values():
                    walk(v)
            elif isinstance(x, list):
                for v in x:
                    walk(v)
        walk(d["bodies"])
        done.append({"newtype": N, "of": it["adt"]})
    d["_newtypes"] = done
    return done


def forwarders(d):
    """A function of the crate whose whole body hands its parameters, in order and unchanged (or re-borrowed), to one function outside
    the crate and returns what that returns, *is* that function: calls of it are rewritten into calls of the target.  A function that
    returns its only parameter is the identity.  Returns {path: target}."""
    if "_fwd" in d:
        return d["_fwd"]
    T = d["types"]
    found = {}
    for b in d["bodies"]:
        if b.get("kind") == "Closure" or not b["path"].startswith(d["crate"] + "::") or b.get("exported"):
            continue
        live = _live_blocks(b)
        blocks = b["blocks"]
        calls = [i for i in live if blocks[i]["term"]["k"] == "call"]
        if any(blocks[i]["term"]["k"] in ("switch", "drop", "assert") for i in live):
            continue
        vals = {i: ("param", i) for i in range(1, b["arg_count"] + 1)}
        ok = True
        x, steps, the_call = 0, 0, None
        while ok:
            blk = blocks[x]
            for s in blk["stmts"]:
                if _is_noise(s, T, b):
                    continue
                if s["k"] != "assign" or s["place"]["proj"]:
                    ok = False
                    break
                rv, l = s["rv"], s["place"]["local"]
                if rv["k"] == "use" and rv["op"]["k"] in ("copy", "move") and not rv["op"]["place"]["proj"] and rv["op"]["place"]["local"] in vals:
                    vals[l] = vals[rv["op"]["place"]["local"]]
                elif rv["k"] == "ref" and len(rv["place"]["proj"]) == 1 and rv["place"]["proj"][0]["k"] == "deref" and rv["place"]["local"] in vals \
                        and T[b["locals"][rv["place"]["local"]]["ty"]].get("k") == "ref":
                    vals[l] = vals[rv["place"]["local"]]          # re-borrow of a reference parameter
                else:
                    ok = False
                    break
            if not ok:
                break
            t = blk["term"]
            if t["k"] == "return":
                break
            if t["k"] == "call":
                if the_call is not None or t.get("dest") is None or t["dest"]["proj"] or t.get("target") is None or (t.get("resolved") or {}).get("local") \
                        or t.get("callee") is None:
                    ok = False
                    break
                args = []
                for a_ in t["args"]:
                    if a_["k"] in ("copy", "move") and not a_["place"]["proj"] and a_["place"]["local"] in vals:
                        args.append(vals[a_["place"]["local"]])
                    else:
                        ok = False
                if not ok or args != [("param", i) for i in range(1, b["arg_count"] + 1)]:
                    ok = False
                    break
                the_call = t
                vals[t["dest"]["local"]] = ("result",)
                x = t["target"]
            elif t["k"] == "goto":
                x = t["target"]
            else:
                ok = False
            steps += 1
            if steps > 6:
                ok = False
        if not ok:
            continue
        if the_call is not None and vals.get(0) == ("result",):
            found[b["path"]] = ("call", the_call)
        elif the_call is None and b["arg_count"] == 1 and vals.get(0) == ("param", 1) and b["locals"][0]["ty"] == b["locals"][1]["ty"]:
            found[b["path"]] = ("identity", None)
    if found:
        for b in d["bodies"]:
            if b["path"] in found:
                continue
            for blk in b["blocks"]:
                t = blk["term"]
                if t["k"] != "call" or t.get("callee") not in found or not (t.get("resolved") or {}).get("local"):
                    continue
                kind, tgt = found[t["callee"]]
                if kind == "identity":
                    if t.get("target") is None or t.get("dest") is None:
                        continue
                    blk["stmts"].append({"k": "assign", "place": t["dest"], "rv": {"k": "use", "op": t["args"][0]}, "span": t.get("span"), "was_call": t["callee"]})
                    blk["term"] = {"k": "goto", "target": t["target"], "span": t.get("span")}
                    continue
                t["rewritten_from"] = t["callee"]
                for k_ in ("func", "callee", "callee_args", "callee_dpath", "targs", "unsafe", "local", "intrinsic", "resolved", "trait"):
                    if k_ in tgt:
                        t[k_] = tgt[k_]
                    elif k_ in t:
                        del t[k_]
    d["_fwd"] = {k: (v[0] if v[0] == "identity" else v[1].get("callee")) for k, v in found.items()}
    return d["_fwd"]


HB_BUCKET = "hashbrown::raw::Bucket"


def desugar_located_bucket(d):
    """`enum Bucket<T> { Main(raw::Bucket<T>), Old(raw::Bucket<T>) }` is `struct Bucket<T> { bucket: raw::Bucket<T>, in_main: bool }` under
    another name.  Which variant stands for the main table is read off the code that dispatches on it: in the arms of every `match`
    on such a value, hashbrown table operations are applied either to a table held directly in a struct field (main) or to one
    inside an `Option` payload (old); the vote must be unanimous, otherwise nothing is rewritten (and role discovery fails closed as
    before).  Aggregates, downcasts, field projections, discriminant reads and the switches on them are rewritten to the struct form."""
    if "_bucketenum" in d:
        return d["_bucketenum"]
    T = d["types"]
    done = []
    bool_ty = next((i for i, t in enumerate(T) if t.get("k") == "bool"), None)
    if bool_ty is None:
        T.append({"s": "bool", "has_param": False, "k": "bool"})
        bool_ty = len(T) - 1
    for a in d["adts"]:
        if a.get("kind") != "Enum" or len(a["variants"]) != 2 or not a["path"].startswith(d["crate"] + "::"):
            continue
        if any(len(v["fields"]) != 1 or T[v["fields"][0]["ty"]].get("adt") != HB_BUCKET for v in a["variants"]):
            continue
        E = a["path"]
        e_ids = {i for i, t in enumerate(T) if t.get("k") == "adt" and t.get("adt") == E}
        vnames = [v["name"] for v in a["variants"]]
        # ---- the vote
        votes = {0: set(), 1: set()}
        for b in d["bodies"]:
            blocks = b["blocks"]
            dl = {}
            for blk in blocks:
                for st in blk["stmts"]:
                    if st.get("k") == "assign" and st["rv"].get("k") == "discr" and not st["place"]["proj"]:
                        pty = st["rv"]["place"].get("ty")
                        if pty in e_ids:
                            dl[st["place"]["local"]] = True
            if not dl:
                continue
            for bi, blk in enumerate(blocks):
                t = blk["term"]
                if t.get("k") != "switch" or t["discr"].get("k") not in ("copy", "move") or t["discr"]["place"]["proj"] or t["discr"]["place"]["local"] not in dl:
                    continue
                tgts = {v: tb for v, tb in t["targets"]}
                arms = {}
                if 0 in tgts:
                    arms[0] = tgts[0]
                if 1 in tgts:
                    arms[1] = tgts[1]
                if len(arms) == 1:
                    arms[1 - list(arms)[0]] = t["otherwise"]
                for v, start in arms.items():
                    other = arms.get(1 - v)
                    seen, stk = set(), [start]
                    while stk:
                        x = stk.pop()
                        if x in seen or x == other or blocks[x].get("cleanup"):
                            continue
                        seen.add(x)
                        tt = blocks[x]["term"]
                        if tt.get("k") == "call" and str(tt.get("callee") or "").startswith("hashbrown::raw::RawTable") and tt["args"] \
                                and tt["args"][0].get("k") in ("copy", "move"):
                            # receiver: follow `_x = &[mut] place` / copies back to a place rooted in a parameter
                            def origin(pl, depth=0):
                                """(ends in a hashbrown table field, goes through an enum payload)"""
                                pj = pl.get("proj", [])
                                through = any(e.get("k") == "downcast" for e in pj)
                                tbl = bool(pj) and pj[-1].get("k") == "field" and str(T[pj[-1].get("ty", 0)].get("adt", "")).startswith("hashbrown::raw::RawTable")
                                if depth < 6 and pl["local"] > b["arg_count"]:
                                    for blk2 in blocks:
                                        for st2 in blk2["stmts"]:
                                            if st2.get("k") == "assign" and st2["place"]["local"] == pl["local"] and not st2["place"]["proj"]:
                                                rv2 = st2["rv"]
                                                src2 = rv2.get("place") if rv2.get("k") in ("ref", "copy_for_deref") else \
                                                    (rv2["op"].get("place") if rv2.get("k") == "use" and rv2["op"].get("k") in ("copy", "move") else None)
                                                if src2 is not None:
                                                    t2, th2 = origin(src2, depth + 1)
                                                    return (tbl or (t2 and not [e for e in pj if e.get("k") == "field"])), (through or th2)
                                return tbl, through
                            tbl, through = origin(tt["args"][0]["place"])
                            if tbl:
                                votes[v].add("old" if through else "main")
                        stk.extend(_succs(tt))
        if not (len(votes[0]) == 1 and len(votes[1]) == 1 and votes[0] != votes[1]):
            continue
        main_idx = 0 if votes[0] == {"main"} else 1
        hb_ty = a["variants"][0]["fields"][0]["ty"]
        a["kind"] = "Struct"
        a["desugared_from_enum"] = vnames
        sname = E.rsplit("::", 1)[-1]
        a["variants"] = [{"name": sname, "fields": [{"name": "bucket", "ty": hb_ty, "pub": False}, {"name": "in_main", "ty": bool_ty, "pub": False}]}]

        def fix_proj(pl):
            proj = pl["proj"]
            out = []
            i = 0
            while i < len(proj):
                e = proj[i]
                if e.get("k") == "downcast" and i + 1 < len(proj) and proj[i + 1].get("k") == "field" and proj[i + 1].get("adt") == E:
                    f = dict(proj[i + 1])
                    f.update({"i": 0, "name": "bucket", "variant": sname})
                    out.append(f)
                    i += 2
                    continue
                out.append(e)
                i += 1
            pl["proj"] = out

        def walk(x):
            if isinstance(x, dict):
                if x.get("k") == "aggregate" and x.get("adt") == E:
                    is_main = (x.get("vidx") == main_idx) if "vidx" in x else (x.get("variant") == vnames[main_idx])
                    x["variant"], x["vidx"], x["fields"] = sname, 0, ["bucket", "in_main"]
                    x["ops"] = [x["ops"][0], {"k": "const", "ty": bool_ty, "text": "true" if is_main else "false", "val": 1 if is_main else 0}]
                if isinstance(x.get("proj"), list) and "local" in x:
                    fix_proj(x)
                for v in x.values():
                    walk(v)
            elif isinstance(x, list):
                for v in x:
                    walk(v)
        walk(d["bodies"])
        for b in d["bodies"]:
            dl = set()
            for blk in b["blocks"]:
                for st in blk["stmts"]:
                    if st.get("k") == "assign" and st["rv"].get("k") == "discr" and st["rv"]["place"].get("ty") in e_ids:
                        pl = st["rv"]["place"]
                        fpl = {"local": pl["local"], "proj": list(pl["proj"]) + [{"k": "field", "i": 1, "adt": E, "name": "in_main", "variant": sname, "ty": bool_ty}], "ty": bool_ty}
                        st["rv"] = {"k": "use", "op": {"k": "copy", "place": fpl}, "was": "discriminant"}
                        if not st["place"]["proj"]:
                            dl.add(st["place"]["local"])
                            b["locals"][st["place"]["local"]]["ty"] = bool_ty
            for blk in b["blocks"]:
                t = blk["term"]
                if t.get("k") == "switch" and t["discr"].get("k") in ("copy", "move") and not t["discr"]["place"]["proj"] and t["discr"]["place"]["local"] in dl:
                    t["targets"] = [[(1 if v == main_idx else 0) if v in (0, 1) else v, tb] for v, tb in t["targets"]]
                    t["discr"]["place"]["ty"] = bool_ty
        done.append({"enum": E, "main": vnames[main_idx], "old": vnames[1 - main_idx]})
    d["_bucketenum"] = done
    return done


def flatten_table_holder(d):
    """`struct RawTable<T> { tables: Tables<T>, extra.. }` with `struct Tables<T> { main: raw::RawTable<T>, old: Option<OldTable<T>> }`: the two-table
    state has been moved into a struct of its own that the former split table merely holds.  Both are identified: `Tables<T>` becomes
    another name of the outer struct, whose field list becomes Tables' fields followed by its own other fields; the projection `.tables`
    disappears.  Only done when the inner struct is held by exactly one other struct of the crate, in a field of exactly that type."""
    if "_flattened" in d:
        return d["_flattened"]
    T = d["types"]
    adts = {a["path"]: a for a in d["adts"]}
    done = []

    def opt_payload(t):
        if t.get("adt") == "core::option::Option" and t.get("args"):
            return T[t["args"][0]]
        return None
    for a in d["adts"]:
        if a.get("kind") != "Struct" or not a["path"].startswith(d["crate"] + "::") or a.get("exported"):
            continue
        fs = a["variants"][0]["fields"]
        if not (any(T[f["ty"]].get("adt") == HB_TABLE for f in fs) and
                any(opt_payload(T[f["ty"]]) is not None and adts.get(opt_payload(T[f["ty"]]).get("adt"), {}).get("kind") == "Struct" for f in fs)):
            continue
        I = a["path"]
        holders = [(w, j) for w in d["adts"] if w is not a and w.get("kind") == "Struct" and w["path"].startswith(d["crate"] + "::")
                   for j, f in enumerate(w["variants"][0]["fields"]) if T[f["ty"]].get("adt") == I]
        if len(holders) != 1:
            continue
        w, j = holders[0]
        if w.get("exported") or T[w["variants"][0]["fields"][j]["ty"]].get("args") != [i for i, t in enumerate(T) if False] and False:
            continue
        W = w["path"]
        wf = w["variants"][0]["fields"]
        if len(wf) < 2:
            continue          # a plain newtype around the split table: nothing to gain
        n_in = len(fs)
        new_fields = [dict(f) for f in fs] + [dict(f) for k, f in enumerate(wf) if k != j]

        def new_index(k):
            return n_in + (k if k < j else k - 1)
        # types: every instance of the inner struct becomes the same instance of the outer one
        for t in T:
            if t.get("k") == "adt" and t.get("adt") == I:
                t["flattened_from"] = I
                t["adt"] = W
                t["s"] = t["s"].replace(I.split("::", 1)[-1], W.split("::", 1)[-1])
        w["variants"][0]["fields"] = new_fields
        a["kind"] = "StructFlattened"
        wname = w["variants"][0]["name"]

        def fix_proj(pl):
            out = []
            for e in pl["proj"]:
                if e.get("k") == "field" and e.get("adt") == W:
                    if e["i"] == j:
                        continue
                    e = dict(e)
                    e["i"] = new_index(e["i"])
                elif e.get("k") == "field" and e.get("adt") == I:
                    e = dict(e)
                    e["adt"] = W
                    e["variant"] = wname
                out.append(e)
            pl["proj"] = out

        def walk(x):
            if isinstance(x, dict):
                if isinstance(x.get("proj"), list) and "local" in x:
                    fix_proj(x)
                for v in x.values():
                    walk(v)
            elif isinstance(x, list):
                for v in x:
                    walk(v)
        walk(d["bodies"])
        # aggregates
        for b in d["bodies"]:
            for blk in b["blocks"]:
                new_stmts = []
                for st in blk["stmts"]:
                    rv = st.get("rv") if st.get("k") == "assign" else None
                    if rv is not None and rv.get("k") == "aggregate" and rv.get("adt") == I:
                        rv["adt"], rv["variant"] = W, wname
                        rv["fields"] = [f["name"] for f in new_fields]
                        rv["ops"] = list(rv["ops"]) + [{"k": "const", "ty": f["ty"], "text": "<not yet written>"} for k, f in enumerate(wf) if k != j]
                        rv["partial"] = True
                        new_stmts.append(st)
                    elif rv is not None and rv.get("k") == "aggregate" and rv.get("adt") == W and len(rv["ops"]) == len(wf):
                        # W { tables: x, others.. }  ==>  dest = x ; dest.other_k = op_k
                        inner_op = rv["ops"][j]
                        new_stmts.append({"k": "assign", "place": st["place"], "rv": {"k": "use", "op": inner_op}, "span": st.get("span"), "was_aggregate": W})
                        for k, f in enumerate(wf):
                            if k == j:
                                continue
                            fp = {"local": st["place"]["local"], "proj": list(st["place"]["proj"]) + [{"k": "field", "i": new_index(k), "adt": W, "name": f["name"], "variant": wname, "ty": f["ty"]}],
                                  "ty": f["ty"]}
                            new_stmts.append({"k": "assign", "place": fp, "rv": {"k": "use", "op": rv["ops"][k]}, "span": st.get("span")})
                    else:
                        new_stmts.append(st)
                blk["stmts"] = new_stmts
        done.append({"inner": I, "outer": W, "field": wf[j]["name"]})
    d["_flattened"] = done
    return done
