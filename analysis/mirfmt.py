"""Pretty printer for the fact dump (debugging aid and evidence samples)."""
import json, sys


def fmt_place(p):
    s = "_%d" % p["local"]
    for e in p["proj"]:
        k = e["k"]
        if k == "deref":
            s = "(*%s)" % s
        elif k == "field":
            s = "%s.%s" % (s, e.get("name", e["i"]))
        elif k == "downcast":
            s = "(%s as %s)" % (s, e.get("variant"))
        else:
            s = "%s[%s]" % (s, k)
    return s


def fmt_op(o):
    k = o["k"]
    if k in ("copy", "move"):
        return ("move " if k == "move" else "") + fmt_place(o["place"])
    if k == "const":
        if "val" in o:
            return "const %s" % o["val"]
        return "const %s" % o["text"]
    return k + ":" + o.get("which", "")


def fmt_rv(r):
    k = r["k"]
    if k == "use":
        return fmt_op(r["op"])
    if k == "ref":
        return ("&mut " if r["mut"] else "&") + fmt_place(r["place"])
    if k == "rawptr":
        return ("&raw mut " if r["mut"] else "&raw const ") + fmt_place(r["place"])
    if k == "binop":
        return "%s(%s, %s)" % (r["op"], fmt_op(r["a"]), fmt_op(r["b"]))
    if k == "unop":
        return "%s(%s)" % (r["op"], fmt_op(r["a"]))
    if k == "cast":
        return "%s as <%s>" % (fmt_op(r["op"]), r["cast"])
    if k == "discr":
        return "discriminant(%s)" % fmt_place(r["place"])
    if k == "aggregate":
        if r["agg"] == "adt":
            nm = "%s::%s" % (r["adt"], r["variant"])
            return "%s { %s }" % (nm, ", ".join("%s: %s" % (f, fmt_op(o)) for f, o in zip(r["fields"], r["ops"])))
        return "%s(%s)[%s]" % (r["agg"], r.get("def", ""), ", ".join(fmt_op(o) for o in r["ops"]))
    if k == "copy_for_deref":
        return "deref_copy " + fmt_place(r["place"])
    return k


def fmt_span(sp):
    m = ""
    if sp["macros"]:
        m = " <" + ",".join(sp["macros"]) + ">"
    return "%s:%d%s" % (sp["file"], sp["line"], m)


def fmt_term(t):
    k = t["k"]
    if k == "goto":
        return "goto bb%d" % t["target"]
    if k == "switch":
        return "switchInt(%s) -> [%s, otherwise: bb%d]" % (
            fmt_op(t["discr"]), ", ".join("%d: bb%d" % (v, b) for v, b in t["targets"]), t["otherwise"])
    if k == "call":
        callee = t.get("callee_args") or ("<indirect %s>" % fmt_op(t["func"]))
        res = t.get("resolved")
        r = "" if res else " [UNRESOLVED]"
        d = fmt_place(t["dest"]) if "dest" in t else "_"
        tgt = "bb%s" % t["target"] if t["target"] is not None else "!"
        return "%s = %s(%s)%s -> [%s, unwind %s]" % (d, callee, ", ".join(fmt_op(a) for a in t["args"]), r, tgt, t.get("unwind"))
    if k == "drop":
        return "drop(%s) -> [bb%d, unwind %s]" % (fmt_place(t["place"]), t["target"], t["unwind"])
    if k == "assert":
        return "assert(%s == %s, %s %s) -> [bb%d, unwind %s]" % (
            fmt_op(t["cond"]), t["expected"], t["msg"], [x if isinstance(x, str) else fmt_op(x) for x in t["msg_ops"]], t["target"], t["unwind"])
    return k


def fmt_body(b, types=None):
    out = ["fn %s  [%s]  args=%d" % (b["path"], b["dpath"], b["arg_count"])]
    if types:
        for i, l in enumerate(b["locals"]):
            out.append("    let _%d: %s" % (i, types[l["ty"]]["s"]))
    for v in b["vars"]:
        out.append("    debug %s => %s" % (v["name"], fmt_place(v["place"])))
    for i, blk in enumerate(b["blocks"]):
        out.append("  bb%d%s:" % (i, " (cleanup)" if blk["cleanup"] else ""))
        for st in blk["stmts"]:
            if st["k"] == "assign":
                out.append("    %s = %s    // %s" % (fmt_place(st["place"]), fmt_rv(st["rv"]), fmt_span(st["span"])))
            else:
                out.append("    %s    // %s" % (st["k"], fmt_span(st["span"])))
        out.append("    %s    // %s" % (fmt_term(blk["term"]), fmt_span(blk["term"]["span"])))
    return "\n".join(out)


if __name__ == "__main__":
    d = json.load(open(sys.argv[1]))
    pat = sys.argv[2]
    for b in d["bodies"]:
        if pat in b["path"]:
            print(fmt_body(b, d["types"]))
            print()
