"""C12 / C05 — handles and bucket liveness: N-occ, N-ins, N-repl, L-handle, L-use (DESIGN §5/E5, §6/C12)."""
from core import Loc, Path
from engine import RuleResult, MAIN, LEFT, OLD, CURSOR
from rules_protocol import hb_calls, HBT, HBI
from rules_typestate import movers, replacer_sites, is_self_left, OPT, installs_left
from rules_cost import LINEAR


def s_method(ctx, c):
    """the local callee of c if it is a method of the split table S"""
    lc = c.local_callee()
    if lc is not None and "self_ty" in lc.raw and ctx.facts.types[lc.raw["self_ty"]].get("adt") == ctx.roles.S:
        return lc
    return None


def invalidation(ctx):
    """per griddle body: set of colours {MAIN, OLD} whose outstanding buckets the body may invalidate (transitively)"""
    def build():
        inv = {b.path: set() for b in ctx.facts.bodies.values()}
        mv = movers(ctx)
        reps = {b.path for b, _, _ in replacer_sites(ctx)}
        for b in ctx.facts.bodies.values():
            if b.path in mv:
                inv[b.path].add(OLD)
            if b.path in reps:
                inv[b.path].add(MAIN)
            for c in ctx.calls(b):
                if b.is_cleanup(c.loc.bb):
                    continue
                if c.tname and c.tname.startswith("hashbrown::raw::RawTable::"):
                    role = ctx.role(b, c.arg_path(0))
                    if c.tname in LINEAR and role in (MAIN, OLD):
                        inv[b.path].add(role)
                if c.name in (OPT + "take", "core::mem::take", "core::mem::replace") and c.arg_path(0) is not None and ctx.roles.is_left_place(c.arg_path(0)):
                    inv[b.path].add(OLD)
            for loc, st in b.all_assigns():
                if st["place"]["proj"] and not b.is_cleanup(loc.bb):
                    p = b.expand(st["place"])
                    if ctx.roles.is_left_place(p) and 1 <= p.root <= b.arg_count:
                        inv[b.path].add(OLD)
        g = ctx.call_graph()
        changed = True
        while changed:
            changed = False
            for b in ctx.facts.bodies.values():
                for callee in g.get(b.path, ()):
                    add = inv.get(callee, set()) - inv[b.path]
                    if add:
                        inv[b.path] |= add
                        changed = True
        return inv
    return ctx.memo("invalidation", build)


def rule_l_handle(ctx):
    R = RuleResult("L-handle", "methods of occupied-entry handles that borrow the handle (&self / &mut self) reach nothing that could move, free or reallocate "
                   "the bucket they hold (no mover, no table replacement, no growing insert, no freeing of the old table)")
    inv = invalidation(ctx)
    T = ctx.facts.types
    n = 0
    for b in ctx.facts.bodies.values():
        if b.kind == "Closure" or "self_ty" not in b.raw:
            continue
        st = T[b.raw["self_ty"]]
        if st.get("adt") not in ctx.roles.handles or b.arg_count < 1:
            continue
        a1 = T[b.locals[1]["ty"]]
        byref = a1.get("k") == "ref"
        if not byref:
            continue
        n += 1
        bad = []
        for p in sorted(ctx.reachable_bodies(b.path)):
            if p != b.path and inv.get(p):
                pb = ctx.facts.bodies[p]
                if "self_ty" in pb.raw and T[pb.raw["self_ty"]].get("adt") == ctx.roles.S:
                    bad.append("%s (invalidates %s)" % (p, "/".join(sorted(inv[p]))))
        if inv.get(b.path):
            bad.append("itself invalidates %s" % "/".join(sorted(inv[b.path])))
        R.inst(fn=b.path, verdict="ok" if not bad else "VIOLATION")
        if bad:
            R.viol(b.path, b.where(Loc(0, 0)), "%s keeps using its bucket after the call returns but reaches %s" % (b.path, "; ".join(bad[:3])))
    R.floor(8, "borrowing handle methods")
    return R


def _bucket_locals(ctx, b):
    """locals of b whose type is (an Option of / reference to) a located bucket or raw hashbrown bucket"""
    T = ctx.facts.types
    out = {}
    for l, d in enumerate(b.locals):
        t = T[d["ty"]]
        k = None
        if t.get("adt") == ctx.roles.B:
            k = "B"
        elif t.get("adt") == "hashbrown::raw::Bucket":
            k = "raw"
        elif t.get("adt") in ctx.roles.handles:
            k = "handle"     # an occupied-entry handle carries a located bucket
        if k and l > b.arg_count:
            out[l] = k
    return out


def rule_l_use(ctx):
    R = RuleResult("L-use", "no bucket obtained from the table is used after a call that may invalidate it on the same table: a located bucket is not touched "
                   "after a mover / freeing of the old table / reallocation of its table (the call that consumes the bucket itself excepted)")
    inv = invalidation(ctx)
    from rules_colour import path_role
    n = 0
    for b in ctx.facts.bodies.values():
        bl = _bucket_locals(ctx, b)
        if not bl:
            continue
        # invalidating call sites in this body
        isites = []
        for c in ctx.calls(b):
            if b.is_cleanup(c.loc.bb):
                continue
            colours = set()
            lc = c.local_callee()
            if lc is not None:
                colours |= inv.get(lc.path, set())
            elif c.tname and c.tname.startswith("hashbrown::raw::RawTable::") and c.tname in LINEAR:
                r = ctx.role(b, c.arg_path(0))
                if r in (MAIN, OLD):
                    colours.add(r)
            if c.name in (OPT + "take",) and c.arg_path(0) is not None and ctx.roles.is_left_place(ctx.resolve(b, c.arg_path(0))[1]):
                colours.add(OLD)
            if colours:
                isites.append((c, colours))
        if not isites:
            continue
        for l, kind in bl.items():
            # definition sites and use sites of l
            defs = [d for d in b.defs().get(l, []) if not b.is_cleanup(d[0].bb)]
            if not defs:
                continue
            colour = None
            if kind == "raw":
                d0 = defs[0]
                if d0[1] == "call":
                    colour = ctx.role(b, ctx.call_at(b, d0[0].bb).arg_path(0))
                    colour = {CURSOR: OLD, "IT_MAIN": MAIN, "IT_OLD": OLD}.get(colour, colour)
            if kind == "B" and len(defs) == 1 and defs[0][1] == "assign" and defs[0][2]["rv"]["k"] == "aggregate" and defs[0][2]["rv"].get("adt") == ctx.roles.B:
                # a located bucket built here with a constant location flag (K-new checks that the flag matches the bucket's table)
                fv = b.op_const(defs[0][2]["rv"]["ops"][ctx.roles.B_flag])
                if fv is not None:
                    colour = MAIN if fv else OLD
            uses = []
            for bb in b.reachable():
                if b.is_cleanup(bb):
                    continue
                for i, st in enumerate(b.stmts(bb)):
                    if st["k"] != "assign":
                        continue
                    rv = st["rv"]
                    pls = []
                    if "place" in rv:
                        pls.append(rv["place"])
                    if rv["k"] in ("use", "cast") and rv["op"]["k"] in ("copy", "move"):
                        pls.append(rv["op"]["place"])
                    if rv["k"] == "aggregate":
                        pls += [o["place"] for o in rv["ops"] if o["k"] in ("copy", "move")]
                    if any(pl["local"] == l for pl in pls):
                        uses.append(Loc(bb, i))
                t = b.term(bb)
                if t["k"] == "call":
                    if any(a["k"] in ("copy", "move") and a["place"]["local"] == l for a in t["args"]):
                        uses.append(Loc(bb, len(b.stmts(bb))))
            for c, colours in isites:
                if colour is not None and colour not in colours:
                    continue
                for d in defs:
                    if d[0] == c.loc:
                        continue     # the bucket is the *result* of this call: valid afterwards by the callee's contract (N-ins, K-new)
                    if not (b.dominates(d[0], c.loc) or c.loc.bb in b.reach_from([d[0].bb])):
                        continue
                    after = b.reach_from([c.target]) if c.target is not None else set()
                    for u in uses:
                        if u == c.loc:
                            continue     # consumed by the invalidating call itself
                        if u.bb in after and c.loc.bb in b.reach_from([d[0].bb]) and not (u.bb == d[0].bb and u.i <= d[0].i):
                            # a redefinition between the invalidation and the use makes it a fresh bucket
                            redefs = [x for x in defs if x[0].bb in after and b.dominates(x[0], u)]
                            if redefs:
                                continue
                            n += 1
                            R.viol("%s:%s:after:%s" % (b.path, b.local_name(l), c.tname), b.where(u),
                                   "bucket `%s` (obtained at %s) is used at %s after %s, which may invalidate %s buckets of the same table"
                                   % (b.local_name(l), b.where(d[0]), b.where(u), c.tname, "/".join(sorted(colours))))
            R.inst(fn=b.path, bucket=b.local_name(l), colour=colour or "dynamic", invalidating_calls=[c.tname for c, _ in isites], verdict="ok")
    # de-duplicate
    seen = set()
    R.violations = [v for v in R.violations if not (v.key in seen or seen.add(v.key))]
    R.floor(2, "bodies holding a bucket across an invalidating call")
    return R


def rule_n_occ(ctx):
    R = RuleResult("N-occ", "a lookup builds an Occupied handle exactly on the edge where the table's find returned Some (with that very bucket) and a Vacant "
                   "handle exactly on the other edge")
    T = ctx.facts.types
    n = 0
    for b in ctx.facts.bodies.values():
        finds = [c for c in ctx.calls(b) if s_method(ctx, c) is not None and s_method(ctx, c).name == "find" and not b.is_cleanup(c.loc.bb)]
        if len(finds) != 1:
            continue
        F = finds[0]
        aggs = []
        for loc, st in b.all_assigns():
            rv = st["rv"]
            if rv["k"] == "aggregate" and rv.get("agg") == "adt":
                nm = rv["adt"].split("::")[-1]
                if "Occupied" in nm or "Vacant" in nm:
                    aggs.append((loc, st, "occ" if "Occupied" in nm else "vac"))
        if not aggs:
            continue
        n += 1
        # switch on find's result
        dest = F.dest["local"]
        some_t, none_t, sw = None, None, None
        for bb in b.reachable():
            t = b.term(bb)
            if t["k"] != "switch":
                continue
            d = b.source_def(t["discr"])
            if d is not None and d[1] == "assign" and d[2]["rv"]["k"] == "discr":
                p = b.expand(d[2]["rv"]["place"])
                if p.root == dest and not p.fields():
                    sw = bb
                    some_t = [tb for v, tb in t["targets"] if v == 1]
                    none_t = [s_ for s_ in b.succs(bb) if s_ not in some_t and b.term(s_)["k"] != "unreachable"]
        key = b.path
        if sw is None or not some_t:
            R.inst(fn=b.path, verdict="VIOLATION")
            R.viol(key + ":shape", F.where(), "handles are built without inspecting the result of the table lookup")
            continue
        why = []
        for loc, st, kind in aggs:
            in_some = any(x == loc.bb or x in b.dom().get(loc.bb, set()) for x in some_t)
            in_none = any(x == loc.bb or x in b.dom().get(loc.bb, set()) for x in none_t)
            if kind == "occ":
                if not in_some or in_none:
                    why.append("an Occupied handle is built at %s outside the Some edge of the lookup" % b.where(loc))
                # bucket field derives from the lookup result payload
                bidx = ctx.roles.handles.get(st["rv"]["adt"])
                if bidx is not None:
                    q = b.op_path(st["rv"]["ops"][bidx])
                    if q is None or q.root != dest:
                        why.append("the Occupied handle at %s does not hold the bucket the lookup returned" % b.where(loc))
            else:
                if not in_none or in_some:
                    why.append("a Vacant handle is built at %s outside the None edge of the lookup" % b.where(loc))
        R.inst(fn=b.path, handles=len(aggs), verdict="ok" if not why else "VIOLATION")
        if why:
            R.viol(key, F.where(), "; ".join(why))
    if n < 2:
        R.anchor("lookups", "expected >= 2 lookup bodies building entry handles (entry, raw search), found %d" % n)
    return R


def rule_n_ins(ctx):
    R = RuleResult("N-ins", "every inserting handle method returns a reference / handle derived from the bucket that the table insertion returned in the same "
                   "call, and the table's insertion returns the bucket hashbrown gave for the user's own value")
    T = ctx.facts.types
    n = 0
    for b in ctx.facts.bodies.values():
        if b.kind == "Closure":
            continue
        ins = [c for c in ctx.calls(b) if s_method(ctx, c) is not None and s_method(ctx, c).name in ("insert", "insert_entry", "insert_no_grow")
               and not b.is_cleanup(c.loc.bb)]
        if not ins:
            continue
        rt = T[b.locals[0]["ty"]]
        holds_ref = rt.get("k") == "ref" or rt.get("adt") in ctx.roles.handles or rt.get("adt") == ctx.roles.B or \
            (rt.get("k") == "tuple" and any(T[x].get("k") == "ref" for x in rt.get("elems", [])))
        if not holds_ref:
            continue
        # exclude the recursive re-entry of insert (returns the inner call's result: still derived from an insertion)
        n += 1
        ok = False
        for rb in b.return_blocks():
            ret_op = {"k": "copy", "place": {"local": 0, "proj": [], "ty": b.locals[0]["ty"]}}
            s, _ = b.slice_back(Loc(rb, len(b.stmts(rb))), [ret_op])
            if any(c.loc in s for c in ins):
                ok = True
        R.inst(fn=b.path, insertion=[c.tname for c in ins], verdict="ok" if ok else "VIOLATION")
        if not ok:
            R.viol(b.path, ins[0].where(), "%s returns a reference/handle that is not derived from the bucket of the insertion it performs" % b.path)
    # the table's own insertion: located bucket built from hashbrown's result for the caller's value
    m = 0
    for body, c, role, recv in hb_calls(ctx):
        if c.tname not in (HBT + "insert_no_grow", HBT + "insert") or role != MAIN or body.path in movers(ctx):
            continue
        from rules_clone import copiers
        if body.path in copiers(ctx):
            continue
        m += 1
        vp = body.op_path(c.args[2]) if len(c.args) > 2 else None
        user_value = vp is not None and 1 <= vp.root <= body.arg_count and not vp.fields()
        built = False
        for rb in body.return_blocks():
            ret_op = {"k": "copy", "place": {"local": 0, "proj": [], "ty": body.locals[0]["ty"]}}
            s_, _ = body.slice_back(Loc(rb, len(body.stmts(rb))), [ret_op])
            if c.loc in s_ and ctx.facts.types[body.locals[0]["ty"]].get("adt") == ctx.roles.B:
                built = True
        R.inst(fn=body.path, site=c.where(), verdict="ok" if (user_value and built) else "VIOLATION")
        if not (user_value and built):
            R.viol("%s:raw" % body.path, c.where(), "the table's insertion does not return the bucket hashbrown produced for the caller's value")
    if n < 4:
        R.anchor("handle-inserts", "expected >= 4 inserting handle methods, found %d" % n)
    if m < 1:
        R.anchor("raw-insert", "no user insertion found")
    return R


def rule_n_repl(ctx):
    R = RuleResult("N-repl", "replace_entry_with returns the same Occupied handle exactly when the element was put back, and otherwise a Vacant handle for the same table")
    n = 0
    for b in ctx.facts.bodies.values():
        if b.kind == "Closure" or b.name != "replace_entry_with" or "self_ty" not in b.raw:
            continue
        if ctx.facts.types[b.raw["self_ty"]].get("adt") not in ctx.roles.handles:
            continue
        n += 1
        key = b.path
        rb = [c for c in ctx.calls(b) if s_method(ctx, c) is not None and s_method(ctx, c).name == "replace_bucket_with"]
        if len(rb) != 1:
            R.inst(fn=b.path, verdict="VIOLATION")
            R.viol(key, b.where(Loc(0, 0)), "expected one replace_bucket_with call, found %d" % len(rb))
            continue
        C_ = rb[0]
        why = []
        # handle enum aggregates
        occ, vac = [], []
        for loc, st in b.all_assigns():
            rv = st["rv"]
            if rv["k"] == "aggregate" and rv.get("agg") == "adt" and st["place"]["local"] == 0:
                if rv["variant"] == "Occupied":
                    occ.append((loc, st))
                elif rv["variant"] == "Vacant":
                    vac.append((loc, st))
        if len(occ) != 1 or len(vac) != 1:
            why.append("expected exactly one Occupied and one Vacant result, found %d/%d" % (len(occ), len(vac)))
        else:
            # Occupied(self): payload is the handle itself
            q = b.op_path(occ[0][1]["rv"]["ops"][0])
            if q is None or q.root != 1 or q.fields():
                # or a handle of the same type rebuilt field by field from the handle itself (directly, or through a constructor function)
                if not _rebuilt_from_self(ctx, b, occ[0][1]["rv"]["ops"][0]):
                    why.append("the Occupied result is not the handle itself")
            # deciding switch
            decided = _repl_decision(ctx, b, C_, occ[0][0], vac[0][0])
            if decided is not True:
                why.append(decided)
        R.inst(fn=b.path, verdict="ok" if not why else "VIOLATION")
        if why:
            R.viol(key, C_.where(), "%s: %s" % (b.path, "; ".join(why)))
    if n < 2:
        R.anchor("fns", "expected 2 replace_entry_with, found %d" % n)
    return R


def _rebuilt_from_self(ctx, b, op, depth=0):
    """the operand is a value of self's own type whose every field is the same field of self (struct literal or constructor call)"""
    self_adt = ctx.facts.types[b.locals[1]["ty"]].get("adt")
    d = b.source_def(op)
    if d is None or self_adt is None:
        return False
    if d[1] == "assign" and d[2]["rv"]["k"] == "aggregate" and d[2]["rv"].get("adt") == self_adt:
        for i, o in enumerate(d[2]["rv"]["ops"]):
            q = b.op_path(o)
            fs = q.fields() if q is not None else []
            if q is None or q.root != 1 or len(fs) != 1 or fs[0][1] != self_adt or fs[0][2] != i:
                return False
        return True
    if d[1] == "call" and depth < 2:
        c = ctx.call_at(b, d[0].bb)
        lc = c.local_callee()
        if lc is None or ctx.facts.types[lc.locals[0]["ty"]].get("adt") != self_adt:
            return False
        # constructor: its result is a struct literal whose field i is its parameter p(i); the call passes self.field i for p(i)
        for rb in lc.return_blocks():
            for dd in lc.defs_reaching(Loc(rb, len(lc.stmts(rb))), 0):
                if dd[3] != "assign" or dd[4]["rv"]["k"] != "aggregate" or dd[4]["rv"].get("adt") != self_adt:
                    return False
                for i, o in enumerate(dd[4]["rv"]["ops"]):
                    qp = lc.op_path(o)
                    if qp is None or qp.fields() or not (1 <= qp.root <= lc.arg_count):
                        return False
                    qa = c.arg_path(qp.root - 1)
                    fs = qa.fields() if qa is not None else []
                    if qa is None or qa.root != 1 or len(fs) != 1 or fs[0][1] != self_adt or fs[0][2] != i:
                        return False
        return True
    return False


def _repl_decision(ctx, b, C_, occ_loc, vac_loc):
    """Occupied is built on the 'still occupied' outcome"""
    # shape 1: switch on the bool result of replace_bucket_with
    for bb in b.reachable():
        t = b.term(bb)
        if t["k"] != "switch":
            continue
        d = b.source_def(t["discr"])
        if d is not None and d[1] == "call" and d[0] == C_.loc:
            tru = t["otherwise"]
            fls = [tb for v, tb in t["targets"] if v == 0]
            occ_true = tru == occ_loc.bb or tru in b.dom().get(occ_loc.bb, set())
            vac_false = any(x == vac_loc.bb or x in b.dom().get(vac_loc.bb, set()) for x in fls)
            if occ_true and vac_false:
                return True
            return "Occupied/Vacant are built on the wrong outcomes of replace_bucket_with"
    # shape 2: an Option captured by the closure, set to Some exactly when the closure returns None
    cbs = C_.closure_args()
    if not cbs:
        return "the result of replace_bucket_with does not decide which handle is returned"
    cb = cbs[0]
    site = ctx.closure_sites().get(cb.dpath)
    # which captured local decides?
    for bb in b.reachable():
        t = b.term(bb)
        if t["k"] != "switch":
            continue
        d = b.source_def(t["discr"])
        if d is None or d[1] != "assign" or d[2]["rv"]["k"] != "discr":
            continue
        p = b.expand(d[2]["rv"]["place"], alias=True)
        spare = p.root
        # captured by reference?
        cap_idx = None
        for i, o in enumerate(site[2]["rv"]["ops"]):
            q = site[0].expand(o["place"], alias=True) if o["k"] in ("copy", "move") else None
            if q is not None and q.root == spare:
                cap_idx = i
        if cap_idx is None:
            continue
        some_t = [tb for v, tb in t["targets"] if v == 1]
        none_t = [s_ for s_ in b.succs(bb) if s_ not in some_t and b.term(s_)["k"] != "unreachable"]
        vac_some = any(x == vac_loc.bb or x in b.dom().get(vac_loc.bb, set()) for x in some_t)
        occ_none = any(x == occ_loc.bb or x in b.dom().get(occ_loc.bb, set()) for x in none_t)
        if not (vac_some and occ_none):
            return "Occupied/Vacant are built on the wrong state of the removed-key marker"
        # spare initialised None before the call
        # closure: every path returning None writes Some to the capture, every path returning Some does not
        paths = _closure_paths(cb)
        for ret_variant, wrote in paths:
            if ret_variant == "None" and cap_idx not in wrote:
                return "the closure can return None (element removed) without recording the removal"
            if ret_variant == "Some" and cap_idx in wrote:
                return "the closure records a removal on a path where it puts the element back"
            if ret_variant is None:
                return "cannot determine what the closure returns on some path (unproven)"
        return True
    return "the result of replace_bucket_with does not decide which handle is returned"


def _closure_paths(cb):
    """enumerate loop-free paths of a closure: (variant assigned to _0, set of capture indices written with Some)"""
    out = []

    def walk(bb, ret, wrote, trail):
        if bb in trail or len(out) > 64:
            return
        trail = trail + (bb,)
        if cb.is_cleanup(bb):
            return
        for st in cb.stmts(bb):
            if st["k"] != "assign":
                continue
            pl = st["place"]
            rv = st["rv"]
            if pl["local"] == 0 and not pl["proj"]:
                if rv["k"] == "aggregate" and rv.get("adt") == "core::option::Option":
                    ret = rv["variant"]
                elif rv["k"] == "use" and rv["op"]["k"] in ("copy", "move"):
                    ret = ret if False else _variant_of(cb, rv["op"], ret)
                else:
                    ret = None
            elif pl["proj"]:
                p = cb.expand(pl, alias=True)
                if p.root == 1 and p.fields() and str(p.fields()[0][1]).startswith("closure:"):
                    v = None
                    if rv["k"] == "aggregate" and rv.get("adt") == "core::option::Option":
                        v = rv["variant"]
                    elif rv["k"] == "use":
                        v = _variant_of(cb, rv["op"], None)
                    if v == "Some":
                        wrote = wrote | {p.fields()[0][2]}
        t = cb.term(bb)
        if t["k"] == "return":
            out.append((ret, wrote))
            return
        if t["k"] == "call" and "dest" in t and t["dest"]["local"] == 0:
            ret = None
        for s_ in cb.succs(bb):
            walk(s_, ret, wrote, trail)
    walk(0, None, frozenset(), ())
    return out


def _variant_of(cb, op, default):
    d = cb.source_def(op)
    if d is not None and d[1] == "assign" and d[2]["rv"]["k"] == "aggregate" and d[2]["rv"].get("adt") == "core::option::Option":
        return d[2]["rv"]["variant"]
    return default


def rule_l_iter(ctx):
    R = RuleResult("L-iter", "a body that keeps polling a both-tables iterator while removing elements only ever invalidates the old table by removing a bucket "
                   "that this very iterator has just yielded: when the old table is freed the iterator's old side has yielded all its elements, so (hashbrown: "
                   "next() returns None at count 0 without touching memory) it never steps into freed memory")
    inv = invalidation(ctx)
    comp_iter = [a for a, v in ctx.roles.composites.items() if v["family"] == "iter"]
    n = 0
    for b in ctx.facts.bodies.values():
        polls = [c for c in ctx.calls(b) if c.method in ("next", "find", "find_map") and c.self_adt in comp_iter and not b.is_cleanup(c.loc.bb)]
        if not polls:
            continue
        isites = []
        for c in ctx.calls(b):
            if b.is_cleanup(c.loc.bb):
                continue
            lc = c.local_callee()
            if lc is not None and inv.get(lc.path):
                isites.append(c)
            elif c.tname and c.tname.startswith("hashbrown::raw::RawTable::") and c.tname in LINEAR and ctx.role(b, c.arg_path(0)) in (MAIN, OLD):
                isites.append(c)
        if not isites:
            continue
        n += 1
        why = []
        for c in isites:
            lc = c.local_callee()
            ok = False
            if lc is not None and s_method(ctx, c) is not None and lc.name in ("remove", "erase") and len(c.args) >= 2:
                s, _ = b.slice_back(c.loc, [c.args[1]])
                if any(p.loc in s for p in polls):
                    ok = True
            if not ok:
                why.append("%s @ %s may move, free or reallocate table storage while the iterator polled at %s is still in use" % (c.tname, c.where(), polls[0].where()))
        R.inst(fn=b.path, polls=[p.where() for p in polls], invalidating=[c.tname for c in isites], verdict="ok" if not why else "VIOLATION")
        if why:
            R.viol(b.path, polls[0].where(), "; ".join(why))
    R.floor(1, "iterate-and-remove bodies")
    return R


# ---------------------------------------------------------------------------
# N-keep
# ---------------------------------------------------------------------------
NON_REPLACING = ["HashMap::insert", "Entry::or_insert", "Entry::or_insert_with", "Entry::or_insert_with_key", "Entry::or_default",
                 "RawEntryMut::or_insert", "RawEntryMut::or_insert_with"]


def _adds_or_removes(ctx):
    """body path -> description, for griddle bodies that (transitively, not through a mover) put a new element into a table or take one out"""
    def build():
        mv = movers(ctx)
        direct = {}
        for body, c, role, recv in hb_calls(ctx):
            if body.path in mv or body.is_cleanup(c.loc.bb):
                continue
            if c.tname in (HBT + "insert", HBT + "insert_no_grow", HBT + "insert_entry"):
                direct.setdefault(body.path, "stores an element (%s @ %s)" % (c.tname, c.where()))
            elif c.tname in (HBT + "remove", HBT + "erase", HBT + "replace_bucket_with", HBT + "remove_entry"):
                direct.setdefault(body.path, "removes an element (%s @ %s)" % (c.tname, c.where()))
        g = ctx.call_graph()
        out = dict(direct)
        changed = True
        while changed:
            changed = False
            for p, callees in g.items():
                if p in out or p in mv:
                    continue
                for q in callees:
                    if q in out and q not in mv:
                        out[p] = out[q]
                        changed = True
                        break
        return out
    return ctx.memo("adds_or_removes", build)


def rule_n_keep(ctx):
    R = RuleResult("N-keep", "when the key is already present, a non-replacing insertion (insert, or_insert*, or_default) stores no new element and "
                   "removes none: the stored key stays, only the value slot may be written; the region reached on the lookup's Some edge / the Occupied "
                   "arm calls nothing that inserts into or removes from a table (carrying leftovers is allowed)")
    from rules_typestate import option_test_edges, S as S_
    from rules_cost import entry_points, api_name
    eps = entry_points(ctx)
    ar = _adds_or_removes(ctx)
    for name in NON_REPLACING:
        b = eps.get(name)
        if b is None:
            R.anchor("entry:%s" % name, "entry point %s named by the property no longer exists" % name)
            continue
        present = set()        # edges (bb, succ) on which the key is known present
        finds = [c for c in ctx.calls(b) if s_method(ctx, c) is not None and s_method(ctx, c).name == "find" and not b.is_cleanup(c.loc.bb)]
        for F in finds:
            dl = F.dest["local"]
            present |= {e for e, v in option_test_edges(ctx, b, lambda p, dl=dl: p.root == dl and not p.fields(), ignore_debug=False).items() if v == S_}
        # match on a self enum with an Occupied variant
        st1 = ctx.facts.types[b.locals[1]["ty"]] if b.arg_count >= 1 else {}
        adt = ctx.facts.adts.get(st1.get("adt")) if st1.get("k") == "adt" else None
        if adt is not None and adt["kind"] == "Enum":
            occ = [i for i, v in enumerate(adt["variants"]) if v["name"] == "Occupied"]
            for bb in b.reachable():
                t = b.term(bb)
                if t["k"] != "switch" or not occ:
                    continue
                d = b.source_def(t["discr"])
                if d is not None and d[1] == "assign" and d[2]["rv"]["k"] == "discr":
                    p = b.expand(d[2]["rv"]["place"])
                    if p.root == 1 and not p.fields():
                        for v, tb in t["targets"]:
                            if v == occ[0]:
                                present.add((bb, tb))
                        if len(adt["variants"]) == 2 and not any(v == occ[0] for v, tb in t["targets"]):
                            present.add((bb, t["otherwise"]))
        if not present:
            # pure delegation: the whole handle is passed to another non-replacing insertion on every path
            deleg = [c for c in ctx.calls(b) if not b.is_cleanup(c.loc.bb) and c.local_callee() is not None
                     and api_name(c.local_callee().path) in NON_REPLACING and c.arg_path(0) is not None and c.arg_path(0).root == 1
                     and not c.arg_path(0).fields()]
            if deleg and all(any(c.loc.bb == rb or c.loc.bb in b.dom().get(rb, set()) for c in deleg) for rb in b.return_blocks()):
                R.inst(entry=name, delegates_to=deleg[0].tname, verdict="ok")
                continue
            R.inst(entry=name, verdict="VIOLATION")
            R.viol("%s:shape" % name, b.where(Loc(0, 0)), "%s does not branch on the lookup result / on its Occupied variant (unproven)" % name)
            continue
        bad = []
        for (x, s_) in present:
            if b.preds(s_, True) != [x]:
                continue
            region = {y for y in b.reachable() if s_ == y or s_ in b.dom().get(y, set())}
            for y in region:
                if b.is_cleanup(y):
                    continue
                c = ctx.call_at(b, y) if b.term(y)["k"] == "call" else None
                if c is None:
                    continue
                if c.tname in (HBT + "insert", HBT + "insert_no_grow", HBT + "insert_entry", HBT + "remove", HBT + "erase", HBT + "replace_bucket_with"):
                    bad.append("%s @ %s" % (c.tname, c.where()))
                lc = c.local_callee()
                targets = ([lc] if lc is not None else []) + c.closure_args()
                for tb in targets:
                    if tb.path in movers(ctx):
                        continue
                    if tb.path in ar:
                        bad.append("%s @ %s %s" % (c.tname, c.where(), ar[tb.path]))
        R.inst(entry=name, present_edges=len(present), verdict="ok" if not bad else "VIOLATION")
        if bad:
            R.viol(name, b.where(Loc(0, 0)), "with the key already present %s still reaches: %s — the stored key would be replaced (a plain insert keeps the "
                   "key that is already there) or the element moved by hand" % (name, "; ".join(sorted(set(bad))[:4])))
    return R
