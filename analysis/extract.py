"""Run the rustc_private driver over /repo's *current working tree* and return the fact file(s).

Every call uses a fresh CARGO_TARGET_DIR (cargo's freshness cache would otherwise skip the
wrapper and replay stale output) and removes it afterwards.
"""
import hashlib
import os
import shutil
import subprocess
import sys
import tempfile
import time

VERIF = os.path.dirname(os.path.dirname(os.path.abspath(__file__)))
DRIVER_DIR = os.path.join(VERIF, "driver")
DRIVER_BIN = os.path.join(DRIVER_DIR, "target", "debug", "griddle-facts")

CONFIGS = {
    # id: (cargo feature args, debug-assertions, overflow-checks)
    "F1": (["--features", "rayon,serde"], True, True),
    "F2": (["--features", "rayon,serde"], False, False),
    "F3": ([], True, True),
    "F4": (["--no-default-features"], True, True),
}


class InfraError(Exception):
    pass


def offline_env():
    env = dict(os.environ)
    env["CARGO_NET_OFFLINE"] = "true"
    env.pop("RUSTC_WRAPPER", None)
    return env


def nightly_sysroot():
    out = subprocess.run(["rustc", "+nightly", "--print", "sysroot"], capture_output=True, text=True, env=offline_env())
    if out.returncode != 0:
        raise InfraError("no nightly toolchain: %s" % out.stderr)
    return out.stdout.strip()


def build_driver(quiet=True):
    src = os.path.join(DRIVER_DIR, "src", "main.rs")
    if os.path.exists(DRIVER_BIN) and os.path.getmtime(DRIVER_BIN) >= os.path.getmtime(src):
        return DRIVER_BIN
    p = subprocess.run(["cargo", "build", "--offline"], cwd=DRIVER_DIR, capture_output=True, text=True, env=offline_env())
    if p.returncode != 0 or not os.path.exists(DRIVER_BIN):
        raise InfraError("driver build failed:\n" + p.stdout[-2000:] + p.stderr[-4000:])
    return DRIVER_BIN


def source_hash(repo):
    h = hashlib.sha256()
    files = []
    for root, dirs, fs in os.walk(os.path.join(repo, "src")):
        dirs.sort()
        for f in sorted(fs):
            files.append(os.path.join(root, f))
    for f in ("Cargo.toml", "Cargo.lock"):
        files.append(os.path.join(repo, f))
    for f in files:
        if os.path.exists(f):
            h.update(os.path.relpath(f, repo).encode())
            with open(f, "rb") as fh:
                h.update(fh.read())
    return h.hexdigest()


def scratch_root():
    base = os.environ.get("TMPDIR") or "/tmp"
    d = os.path.join(base, "griddle-verif")
    os.makedirs(d, exist_ok=True)
    return d


def extract(repo, config="F1", keep_dir=None):
    """returns (fact_file_path, workdir).  Caller removes workdir (shutil.rmtree)."""
    drv = build_driver()
    feats, dbg, ovf = CONFIGS[config]
    work = tempfile.mkdtemp(prefix="facts-%s-" % config, dir=scratch_root())
    target = os.path.join(work, "target")
    out = os.path.join(work, "facts-%s.json" % config)
    env = offline_env()
    env["LD_LIBRARY_PATH"] = os.path.join(nightly_sysroot(), "lib") + ":" + env.get("LD_LIBRARY_PATH", "")
    env["RUSTFLAGS"] = "-Zmir-opt-level=0 -Awarnings -C debug-assertions=%s -C overflow-checks=%s" % ("on" if dbg else "off", "on" if ovf else "off")
    env["RUSTC_WORKSPACE_WRAPPER"] = drv
    env["VERIF_CRATE"] = "griddle"
    env["VERIF_FACTS_OUT"] = out
    env["CARGO_TARGET_DIR"] = target
    t0 = time.time()
    p = subprocess.run(["cargo", "+nightly", "check", "--offline", "--lib"] + feats, cwd=repo, capture_output=True, text=True, env=env)
    shutil.rmtree(target, ignore_errors=True)
    if p.returncode != 0:
        shutil.rmtree(work, ignore_errors=True)
        raise InfraError("cargo check (%s) failed in %s:\n%s" % (config, repo, p.stderr[-6000:]))
    if not os.path.exists(out):
        shutil.rmtree(work, ignore_errors=True)
        raise InfraError("driver produced no fact file for %s (wrapper skipped?)\n%s" % (config, p.stderr[-3000:]))
    return out, work, time.time() - t0


def hashbrown_version(repo):
    lock = os.path.join(repo, "Cargo.lock")
    name = None
    vers = []
    with open(lock) as f:
        for line in f:
            line = line.strip()
            if line.startswith("name = "):
                name = line.split('"')[1]
            elif line.startswith("version = ") and name == "hashbrown":
                vers.append(line.split('"')[1])
                name = None
    return vers
