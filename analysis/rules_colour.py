"""E4 — COLOUR: provenance and dispatch of located buckets (DESIGN §5/E4)."""
from core import Loc, Path
from engine import RuleResult, MAIN, LEFT, OLD, CURSOR, strip_generics
from rules_protocol import hb_calls, HBT, HBI

MIXED = "MIXED"
SIDE = {MAIN: MAIN, "IT_MAIN": MAIN, OLD: OLD, CURSOR: OLD, LEFT: OLD, "IT_OLD": OLD}


def _join(roles):
    rs = {r for r in roles if r is not None}
    if not rs:
        return None
    if len(rs) == 1:
        return rs.pop()
    return MIXED


def closure_call_site(ctx, cbody):
    """(parent body, Call) of the unique call that receives closure `cbody` as an argument, or None"""
    site = ctx.closure_sites().get(cbody.dpath)
    if site is None:
        return None
    pb, loc, st = site
    cl_local = st["place"]["local"]
    for c in ctx.calls(pb):
        for a in c.args:
            if a["k"] in ("copy", "move"):
                p = pb.op_path(a)
                if p is not None and p.root == cl_local and not p.fields():
                    return pb, c
                if a["place"]["local"] == cl_local:
                    return pb, c
    return None


def fn_use_sites(ctx, body):
    """(parent body, Call, 'direct'|'value') for every use of a named griddle function: called, or passed as a function value"""
    def build():
        idx = {}
        for pb in ctx.facts.bodies.values():
            for c in ctx.calls(pb):
                lc = c.local_callee()
                if lc is not None and lc.kind != "Closure":
                    idx.setdefault(lc.path, []).append((pb, c, "direct"))
                for a in c.args:
                    if a["k"] == "const" and a.get("fn"):
                        nm = strip_generics(a["fn"])
                        idx.setdefault("~" + nm, []).append((pb, c, "value"))
        return idx
    idx = ctx.memo("fn_use_sites", build)
    return idx.get(body.path, []) + idx.get("~" + strip_generics(body.path), [])


def ret_role(ctx, body, depth=0):
    """side of the value returned by a griddle function (summary for accessors), or None"""
    key = ("ret_role", body.path)
    if key in ctx._cache:
        return ctx._cache[key]
    ctx._cache[key] = None  # recursion guard
    roles = []
    for d in body.defs().get(0, []):
        if body.is_cleanup(d[0].bb):
            continue
        if d[1] == "assign":
            roles.append(rv_role(ctx, body, d[2]["rv"], depth + 1))
        elif d[1] == "call":
            c = ctx.call_at(body, d[0].bb)
            roles.append(call_role(ctx, body, c, depth + 1))
    r = _join(roles)
    ctx._cache[key] = r
    return r


def call_role(ctx, body, c, depth=0):
    """side carried by the result of a call: the unique side among its role-carrying arguments
    (closure arguments contribute their captures); griddle accessors contribute their return summary."""
    if depth > 12:
        return None
    lc = c.local_callee()
    roles = []
    if (c.tname or "").startswith(HBT) and c.args:
        # what a hashbrown table operation returns (a bucket, an iterator, a reference) belongs to the table it was applied to, whatever
        # table the element handed in once came from
        return op_role(ctx, body, c.args[0], depth + 1)
    if lc is not None and lc.kind != "Closure":
        rr = ret_role(ctx, lc, depth + 1)
        if rr is not None:
            return rr
    for a in c.args:
        cb = ctx.closure_of_operand(body, a)
        if cb is not None:
            site = ctx.closure_sites().get(cb.dpath)
            if site is not None:
                pb, loc, st = site
                for op in st["rv"]["ops"]:
                    roles.append(op_role(ctx, pb, op, depth + 1))
            continue
        roles.append(op_role(ctx, body, a, depth + 1))
    return _join(roles)


def rv_role(ctx, body, rv, depth=0):
    k = rv["k"]
    if k in ("use", "cast", "repeat", "wrap_binder"):
        return op_role(ctx, body, rv["op"], depth)
    if k in ("ref", "rawptr", "copy_for_deref", "discr"):
        return path_role(ctx, body, body.expand(rv["place"]), depth)
    if k == "aggregate":
        if rv.get("agg") == "adt" and rv.get("adt") == ctx.roles.B:
            return None
        return _join(op_role(ctx, body, o, depth) for o in rv["ops"])
    return None


def op_role(ctx, body, op, depth=0):
    if op["k"] not in ("copy", "move"):
        return None
    return path_role(ctx, body, body.expand(op["place"]), depth)


def path_role(ctx, body, p, depth=0):
    if depth > 12 or p is None:
        return None
    r = ctx.role(body, p)
    if r in SIDE:
        return SIDE[r]
    # B values carry a dynamic colour
    root = p.root
    # component i of a tuple returned by a griddle function (`let (main, old) = self.into_tables()`): the side of that component
    if p.elems and p.elems[0][0] == "field" and str(p.elems[0][1]).startswith("tuple") and not (1 <= root <= body.arg_count):
        d0 = body.unique_def(root)
        if d0 is not None and d0[1] == "call":
            lc0 = ctx.call_at(body, d0[0].bb).local_callee()
            if lc0 is not None and lc0.kind != "Closure":
                roles = []
                for dd in lc0.defs().get(0, []):
                    if lc0.is_cleanup(dd[0].bb):
                        continue
                    if dd[1] == "assign" and dd[2]["rv"]["k"] == "aggregate" and dd[2]["rv"].get("agg") == "tuple" and p.elems[0][2] < len(dd[2]["rv"]["ops"]):
                        roles.append(op_role(ctx, lc0, dd[2]["rv"]["ops"][p.elems[0][2]], depth + 1))
                    else:
                        roles.append(MIXED)
                if roles:
                    return _join(roles)
    # closure capture that resolves to a parent value
    if body.kind == "Closure" and root == 1:
        b2, p2 = ctx.resolve(body, p)
        if b2 is not body:
            return path_role(ctx, b2, p2, depth + 1)
        return None
    # closure parameter: role of the non-closure arguments of the call that receives the closure
    if body.kind == "Closure" and 2 <= root <= body.arg_count:
        cs = closure_call_site(ctx, body)
        if cs is None:
            return None
        pb, c = cs
        roles = []
        std_adaptor = (c.name or "").startswith(("core::iter::Iterator::", "core::iter::traits::iterator::Iterator::", "core::option::Option::", "core::result::Result::"))
        for i, a in enumerate(c.args):
            if ctx.closure_of_operand(pb, a) is body:
                continue
            if std_adaptor and len(c.args) > 2:
                # fold(self, init, |acc, x| ..) and the like: the last parameter is the element and comes from the receiver; the
                # others (the accumulator) come from the remaining arguments
                if (root == body.arg_count) != (i == 0):
                    continue
            roles.append(op_role(ctx, pb, a, depth + 1))
        return _join(roles)
    if 1 <= root <= body.arg_count:
        if body.kind == "Closure":
            return None
        # parameter of a named function: the side is whatever every use of the function hands it
        key = ("param_role", body.path, root)
        if key in ctx._cache:
            return ctx._cache[key]
        ctx._cache[key] = None
        roles = []
        for pb, c, mode in fn_use_sites(ctx, body):
            if mode == "direct":
                if root - 1 < len(c.args):
                    roles.append(op_role(ctx, pb, c.args[root - 1], depth + 1))
            else:
                # passed as a function value to a combinator: its parameters carry the side of the combinator's other arguments
                rs = []
                for a in c.args:
                    if a["k"] == "const" and a.get("fn") and strip_generics(a["fn"]) == strip_generics(body.path):
                        continue
                    rs.append(op_role(ctx, pb, a, depth + 1))
                roles.append(_join(rs))
        if roles and any(r is None for r in roles):
            r = None
        else:
            r = _join(roles)
        ctx._cache[key] = r
        return r
    d = body.unique_def(root)
    if d is None:
        ds = [x for x in body.defs().get(root, []) if x[1] in ("assign", "call") and not body.is_cleanup(x[0].bb)]
        roles = []
        for x in ds:
            if x[1] == "assign":
                roles.append(rv_role(ctx, body, x[2]["rv"], depth + 1))
            else:
                roles.append(call_role(ctx, body, ctx.call_at(body, x[0].bb), depth + 1))
        return _join(roles)
    if d[1] == "call":
        return call_role(ctx, body, ctx.call_at(body, d[0].bb), depth + 1)
    return rv_role(ctx, body, d[2]["rv"], depth + 1)


# ---------------------------------------------------------------------------
def rule_k_new(ctx):
    R = RuleResult("K-new", "every located bucket is labelled with the table its raw bucket came from: in `B {bucket: x, flag: c}` the flag is a "
                   "constant that agrees with the provenance of x (true = main table, false = old table), or the B is a field-wise copy of another B")
    ro = ctx.roles
    for b in ctx.facts.bodies.values():
        for loc, st in b.all_assigns():
            rv = st["rv"]
            if rv["k"] != "aggregate" or rv.get("agg") != "adt" or rv.get("adt") != ro.B:
                continue
            bop, fop = rv["ops"][ro.B_bucket], rv["ops"][ro.B_flag]
            key = "%s:construct" % b.path
            cval = b.op_const(fop)
            if cval is None:
                # field-wise copy of another B (Clone impl): flag from X.flag and bucket from (clone of) X.bucket
                fp = b.op_path(fop)
                bp = b.op_path(bop)
                src_b = None
                if fp is not None and [t for t, _ in ro.classify(fp)][-1:] == ["FLAG"]:
                    src_b = Path(fp.root, fp.elems[:-1]).strip_refs().key()
                ok = False
                if src_b is not None:
                    if bp is not None and [t for t, _ in ro.classify(bp)][-1:] == ["BKT"] and Path(bp.root, bp.elems[:-1]).strip_refs().key() == src_b:
                        ok = True
                    else:
                        d = b.source_def(bop)
                        if d is not None and d[1] == "call":
                            c = ctx.call_at(b, d[0].bb)
                            q = c.arg_path(0)
                            if c.method == "clone" and q is not None and [t for t, _ in ro.classify(q)][-1:] == ["BKT"] and \
                                    Path(q.root, q.strip_refs().elems[:-1]).strip_refs().key() == src_b:
                                ok = True
                R.inst(fn=b.path, site=b.where(loc), flag="copied", verdict="field-wise copy" if ok else "VIOLATION")
                if not ok:
                    R.viol(key + ":nonconst", b.where(loc), "the location flag is neither a constant nor copied together with the bucket from another located bucket")
                continue
            side = op_role(ctx, b, bop)
            want = MAIN if cval else OLD
            if side != want:
                # a copy made arm by arm: `match *self { Main(ref x) => Main(x.clone()), Old(ref x) => Old(x.clone()) }` — the constant label
                # is the one the branch has just read off the source, and the raw bucket is (a clone of) that same source's
                srcs = set()
                bp = b.op_path(bop)
                if bp is not None and [t for t, _ in ro.classify(bp)][-1:] == ["BKT"]:
                    srcs.add(Path(bp.root, bp.strip_refs().elems[:-1]).strip_refs().key())
                d = b.source_def(bop)
                if d is not None and d[1] == "call":
                    c = ctx.call_at(b, d[0].bb)
                    q = c.arg_path(0)
                    if c.method == "clone" and q is not None and [t for t, _ in ro.classify(q)][-1:] == ["BKT"]:
                        srcs.add(Path(q.root, q.strip_refs().elems[:-1]).strip_refs().key())
                if srcs and any(bk in srcs and sd == want and edge_dominates(b, e, loc.bb) for e, (bk, sd) in flag_edges(ctx, b).items()):
                    R.inst(fn=b.path, site=b.where(loc), flag=bool(cval), verdict="copy of another located bucket, label read off it on this branch")
                    continue
            R.inst(fn=b.path, site=b.where(loc), flag=bool(cval), bucket_from=side, verdict="ok" if side == want else "VIOLATION")
            if side != want:
                R.viol("%s:%s" % (key, "main" if cval else "old"), b.where(loc),
                       "located bucket labelled in_main=%s but its raw bucket comes from %s" % (bool(cval), side or "an unknown table (unproven)"))
    R.floor(2, "located-bucket constructions")
    flags = {i.get("flag") for i in R.instances}
    if not ({True, False} <= flags):
        R.anchor("both-colours", "expected constructions labelled main and old, found flags %s" % sorted(map(str, flags)))
    return R


def flag_edges(ctx, body):
    """{(bb, succ): (b_key, MAIN|OLD)} for switches on a located bucket's flag"""
    ro = ctx.roles
    out = {}
    for bb in body.reachable():
        t = body.term(bb)
        if t["k"] != "switch":
            continue
        neg = False
        op = t["discr"]
        fp = None
        d = None
        if op["k"] in ("copy", "move"):
            p = body.op_path(op)
            if p is not None and [x for x, _ in ro.classify(p)][-1:] == ["FLAG"]:
                fp = p
            else:
                d = body.source_def(op)
                if d is not None and d[1] == "assign" and d[2]["rv"]["k"] == "unop" and d[2]["rv"]["op"] == "Not":
                    p = body.op_path(d[2]["rv"]["a"])
                    if p is not None and [x for x, _ in ro.classify(p)][-1:] == ["FLAG"]:
                        fp = p
                        neg = True
                elif d is not None and d[1] == "call":
                    # will_move()-style accessor: returns !flag
                    c = ctx.call_at(body, d[0].bb)
                    lc = c.local_callee()
                    acc = flag_accessors(ctx)
                    if lc is not None and lc.path in acc:
                        q = c.arg_path(0)
                        if q is not None:
                            fp = q.extend(("field", ro.B, ro.B_flag, "flag"))
                            neg = acc[lc.path]
        if fp is None:
            continue
        _, fp2 = ctx.resolve(body, fp)
        bkey = Path(fp2.root, fp2.strip_refs().elems[:-1]).key()
        for v, tb in t["targets"]:
            if tb == t["otherwise"]:
                continue
            val = (v != 0) ^ neg
            out[(bb, tb)] = (bkey, MAIN if val else OLD)
        vals = [v for v, _ in t["targets"]]
        if vals == [0]:
            out[(bb, t["otherwise"])] = (bkey, MAIN if (True ^ neg) else OLD)
    return out


def flag_accessors(ctx):
    """griddle functions that return (the negation of) their B argument's flag: {path: negated?}"""
    def build():
        out = {}
        ro = ctx.roles
        for b in ctx.facts.bodies.values():
            if b.kind == "Closure" or b.arg_count != 1:
                continue
            ds = [d for d in b.defs().get(0, []) if not b.is_cleanup(d[0].bb)]
            if len(ds) != 1 or ds[0][1] != "assign":
                continue
            rv = ds[0][2]["rv"]
            if rv["k"] == "unop" and rv["op"] == "Not":
                p = b.op_path(rv["a"])
                neg = True
            elif rv["k"] == "use":
                p = b.op_path(rv["op"])
                neg = False
            else:
                continue
            if p is not None and p.root == 1 and [x for x, _ in ro.classify(p)] == ["FLAG"]:
                out[b.path] = neg
        # `match *self { Main(_) => true, Old(_) => false }` written over the flag: a switch on the own flag whose arms return constants
        for b in ctx.facts.bodies.values():
            if b.kind == "Closure" or b.arg_count != 1 or b.path in out or ctx.facts.types[b.locals[0]["ty"]].get("k") != "bool":
                continue
            if [c for c in ctx.calls(b) if not b.is_cleanup(c.loc.bb)]:
                continue
            sws = [bb for bb in b.reachable() if b.term(bb)["k"] == "switch" and not b.is_cleanup(bb)]
            if len(sws) != 1:
                continue
            t = b.term(sws[0])
            p = b.op_path(t["discr"]) if t["discr"]["k"] in ("copy", "move") else None
            if p is None or p.strip_refs().root != 1 or [x for x, _ in ro.classify(p)][-1:] != ["FLAG"]:
                continue
            arms = {}
            for v, tb in t["targets"]:
                arms[bool(v)] = tb
            if len(arms) == 1:
                arms[not list(arms)[0]] = t["otherwise"]
            res = {}
            for val, start in arms.items():
                cs = set()
                for x in b.reach_from([start]):
                    for st in b.stmts(x):
                        if st["k"] == "assign" and st["place"]["local"] == 0 and not st["place"]["proj"]:
                            cs.add(b.op_const(st["rv"]["op"]) if st["rv"]["k"] == "use" else "?")
                res[val] = cs
            if res.get(True) == {1} and res.get(False) == {0}:
                out[b.path] = False
            elif res.get(True) == {0} and res.get(False) == {1}:
                out[b.path] = True
        # an accessor of an accessor: `fn will_move(&self) -> bool { !self.is_in_main() }`
        for _ in range(3):
            for b in ctx.facts.bodies.values():
                if b.kind == "Closure" or b.arg_count != 1 or b.path in out or ctx.facts.types[b.locals[0]["ty"]].get("k") != "bool":
                    continue
                cs = [c for c in ctx.calls(b) if not b.is_cleanup(c.loc.bb)]
                if len(cs) != 1 or cs[0].local_callee() is None or cs[0].local_callee().path not in out or cs[0].dest is None:
                    continue
                q = cs[0].arg_path(0)
                if q is None or q.strip_refs().root != 1 or q.fields():
                    continue
                ds = [d for d in b.defs().get(0, []) if not b.is_cleanup(d[0].bb)]
                if len(ds) != 1:
                    continue
                inner = out[cs[0].local_callee().path]
                if ds[0][1] == "call" and ds[0][0] == cs[0].loc:
                    out[b.path] = inner
                elif ds[0][1] == "assign":
                    rv = ds[0][2]["rv"]
                    src = rv["a"] if (rv["k"] == "unop" and rv["op"] == "Not") else rv["op"] if rv["k"] == "use" else None
                    if src is not None and src["k"] in ("copy", "move") and not src["place"]["proj"] and src["place"]["local"] == cs[0].dest["local"]:
                        out[b.path] = (not inner) if rv["k"] == "unop" else inner
        return out
    return ctx.memo("flag_accessors", build)


def edge_dominates(body, edge, bb):
    x, s = edge
    if s == bb or s in body.dom().get(bb, set()):
        return body.preds(s, True) == [x]
    return False


def rule_k_use(ctx):
    R = RuleResult("K-use", "every hashbrown operation given the raw bucket of a located bucket goes to the table named by that bucket's flag "
                   "(dispatch on the flag dominates the call; old-side calls also reflect the same bucket on the cursor)")
    ro = ctx.roles
    n = 0
    for body, c, role, recv in hb_calls(ctx):
        # does any argument come from a B's raw bucket?
        barg = None
        for i, a in enumerate(c.args):
            p = c.arg_path(i)
            if p is None:
                continue
            _, p2 = ctx.resolve(body, p)
            toks = [x for x, _ in ro.classify(p2)]
            if "BKT" in toks and i > 0:
                barg = (i, p2)
            elif i > 0 and a["k"] in ("copy", "move"):
                # clone of a B's raw bucket
                d = body.source_def(a)
                if d is not None and d[1] == "call":
                    cc = ctx.call_at(body, d[0].bb)
                    q = cc.arg_path(0)
                    if cc.method == "clone" and q is not None:
                        _, q2 = ctx.resolve(body, q)
                        if "BKT" in [x for x, _ in ro.classify(q2)]:
                            barg = (i, q2)
        if barg is None or role is None:
            continue
        n += 1
        i, bp = barg
        # B key
        elems = bp.strip_refs().elems
        cut = max(j for j, e in enumerate(elems) if e[0] == "field" and e[1] == ro.B and e[2] == ro.B_bucket)
        bkey = (bp.root, elems[:cut])
        want = SIDE.get(role)
        # find dominating flag edge in this body or (for closures) in the parent chain at the closure creation site
        found = None
        cur_body, cur_bb = body, c.loc.bb
        hops = 0
        while cur_body is not None and hops < 4:
            hops += 1
            for e, (k, side) in flag_edges(ctx, cur_body).items():
                if k == bkey and edge_dominates(cur_body, e, cur_bb):
                    found = side
            if found is not None or cur_body.kind != "Closure":
                break
            site = ctx.closure_sites().get(cur_body.dpath)
            if site is None:
                break
            cur_body, cur_bb = site[0], site[1].bb
        key = "%s:%s:%s" % (body.path, c.tname, role)
        R.inst(fn=body.path, site=c.where(), op=c.tname, receiver=role, flag_edge=found, verdict="ok" if found == want else "VIOLATION")
        if found is None:
            R.viol(key + ":undispatched", c.where(), "%s is applied to %s with a located bucket's raw bucket but no test of that bucket's location flag dominates the call" % (c.tname, role))
        elif found != want:
            R.viol(key + ":wrong-table", c.where(), "%s is applied to the %s side on the path where the bucket's flag says it lives in the %s table" % (c.tname, want, found))
    if n < 4:
        R.anchor("dispatch-sites", "expected >= 4 hashbrown calls dispatched on a located bucket, found %d" % n)
    return R


def rule_k_field(ctx):
    R = RuleResult("K-field", "every composite iterator is built with its main-side field from the main table and its old-side field from the old table/cursor; "
                   "a literal None reaches the old-side field only where no old table is pending")
    ro = ctx.roles
    for b in ctx.facts.bodies.values():
        for loc, st in b.all_assigns():
            rv = st["rv"]
            if rv["k"] != "aggregate" or rv.get("agg") != "adt" or rv.get("adt") not in ro.composites:
                continue
            comp = ro.composites[rv["adt"]]
            mop, oop = rv["ops"][comp["main"]], rv["ops"][comp["old"]]
            ms = op_role(ctx, b, mop)
            os_ = op_role(ctx, b, oop)
            none_const = oop["k"] == "const" or (b.source_def(oop) is not None and b.source_def(oop)[1] == "assign" and
                                                  b.source_def(oop)[2]["rv"].get("variant") == "None")
            if none_const and comp["family"] in ("iter", "into", "drain"):
                # an iterator over "no old table" is only right where no old table is pending: on the None edge of a test of the map's own
                # resize state (a caller that ignores the old half today is one refactoring away from losing those elements)
                from rules_typestate import left_test_edges, N as N_
                known_unsplit = any(v == N_ and edge_dominates(b, e, loc.bb) for e, v in left_test_edges(ctx, b, ignore_debug=False).items())
                if not known_unsplit:
                    none_const = False
                    os_ = "a literal None although an old table may be pending"
            # .. and on no path may the old-side value be a made-up None (`if self.len() < 2 { None } else { self.leftovers() }`): every literal None
            # that can reach the field sits on the None edge of a test of the resize state
            if os_ == OLD and not none_const:
                from rules_typestate import left_test_edges, N as N_
                n_edges = [e for e, v in left_test_edges(ctx, b, ignore_debug=False).items() if v == N_]
                opt_edge_src = {}
                # .. or on the None arm of a match that maps an Option value (`match self.leftovers.take() { Some(lo) => Some(..), None => None }`):
                # the None edge of any test of an Option's discriminant
                for bb_ in b.reachable():
                    t_ = b.term(bb_)
                    if t_["k"] != "switch":
                        continue
                    d_ = b.source_def(t_["discr"])
                    if d_ is not None and d_[1] == "assign" and d_[2]["rv"]["k"] == "discr" \
                            and ctx.facts.types[d_[2]["rv"]["place"]["ty"]].get("adt") == "core::option::Option":
                        zero = [tb for v, tb in t_["targets"] if v == 0]
                        q_ = d_[2]["rv"]["place"]
                        e_ = (bb_, zero[0]) if zero else ((bb_, t_["otherwise"]) if all(v == 1 for v, _ in t_["targets"]) else None)
                        if e_ is not None:
                            n_edges.append(e_)
                            if not q_["proj"]:
                                opt_edge_src[e_] = q_["local"]      # the value whose absence that edge reflects must not be made up either
                seen_l, work_l, bad_none = set(), [], None
                if oop["k"] in ("copy", "move") and not oop["place"]["proj"]:
                    work_l.append(oop["place"]["local"])
                while work_l and bad_none is None:
                    l_ = work_l.pop()
                    if l_ in seen_l or l_ == 0 or 1 <= l_ <= b.arg_count:
                        continue
                    seen_l.add(l_)
                    for d_ in b.defs().get(l_, []):
                        if b.is_cleanup(d_[0].bb):
                            continue
                        if d_[1] == "assign":
                            rv_ = d_[2]["rv"]
                            if rv_["k"] == "use" and rv_["op"]["k"] in ("copy", "move") and not rv_["op"]["place"]["proj"]:
                                work_l.append(rv_["op"]["place"]["local"])
                            elif rv_["k"] == "aggregate" and rv_.get("adt") == "core::option::Option" and rv_.get("variant") == "None":
                                doms = [e for e in n_edges if edge_dominates(b, e, d_[0].bb)]
                                if not doms:
                                    bad_none = d_[0]
                                for e in doms:
                                    if e in opt_edge_src:
                                        work_l.append(opt_edge_src[e])
                        elif d_[1] == "call":
                            cc_ = ctx.call_at(b, d_[0].bb)
                            if cc_ is not None and (cc_.name or "").startswith("core::option::Option::") and cc_.args and cc_.args[0]["k"] in ("copy", "move") \
                                    and not cc_.args[0]["place"]["proj"] and cc_.method in ("map", "and_then", "filter", "or", "or_else", "take", "as_ref", "as_mut", "cloned", "copied"):
                                work_l.append(cc_.args[0]["place"]["local"])
                if bad_none is not None:
                    os_ = "a made-up None on some path (%s) although an old table may be pending" % b.where(bad_none)
            ok = ms == MAIN and (os_ == OLD or none_const)
            R.inst(fn=b.path, site=b.where(loc), adt=rv["adt"], main_field_from=ms, old_field_from=os_ or ("None" if none_const else None),
                   verdict="ok" if ok else "VIOLATION")
            if ms != MAIN:
                R.viol("%s:%s:main-field" % (b.path, rv["adt"]), b.where(loc), "main-side field of %s is initialised from %s" % (rv["adt"], ms or "an unknown source (unproven)"))
            if not (os_ == OLD or none_const):
                R.viol("%s:%s:old-field" % (b.path, rv["adt"]), b.where(loc), "old-side field of %s is initialised from %s" % (rv["adt"], os_ or "an unknown source (unproven)"))
    R.floor(3, "composite-iterator constructions")
    return R
