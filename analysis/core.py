"""Core program representation for the rule engine.

Loads a fact file written by /verif/driver and provides, per MIR body:
CFG with normal/unwind edges, dominators, post-dominators, natural loops,
definitions of locals, and *origin paths* (a place expanded through
single-assignment reference/copy temporaries back to an argument or a local
that is a genuine value source).

Nothing here runs griddle code.
"""
import json
import os
from collections import defaultdict

from mirfmt import fmt_place, fmt_op, fmt_rv, fmt_term, fmt_span, fmt_body  # noqa: F401


class AnalysisError(Exception):
    """Raised when a rule cannot find its anchor: reported fail-closed."""


# ---------------------------------------------------------------------------
# access paths
# ---------------------------------------------------------------------------
class Path:
    """root local + tuple of elems.

    elem kinds: ('ref',), ('deref',), ('field', adt, idx, name), ('downcast', variant),
    ('other', kind)
    """
    __slots__ = ("root", "elems")

    def __init__(self, root, elems=()):
        self.root = root
        self.elems = tuple(elems)

    def extend(self, elem):
        if elem[0] == "deref" and self.elems and self.elems[-1][0] == "ref":
            return Path(self.root, self.elems[:-1])
        return Path(self.root, self.elems + (elem,))

    def fields(self):
        return [e for e in self.elems if e[0] == "field"]

    def strip_refs(self):
        return Path(self.root, tuple(e for e in self.elems if e[0] not in ("ref", "deref")))

    def key(self):
        return (self.root, self.strip_refs().elems)

    def startswith(self, other):
        a = self.strip_refs().elems
        b = other.strip_refs().elems
        return self.root == other.root and a[: len(b)] == b

    def __eq__(self, o):
        return isinstance(o, Path) and self.key() == o.key()

    def __hash__(self):
        return hash(self.key())

    def __repr__(self):
        s = "_%d" % self.root
        for e in self.elems:
            if e[0] == "ref":
                s = "&" + s
            elif e[0] == "deref":
                s = "(*%s)" % s
            elif e[0] == "field":
                s = "%s.%s" % (s, e[3] if e[3] is not None else e[2])
            elif e[0] == "downcast":
                s = "(%s as %s)" % (s, e[1])
            else:
                s = "%s[%s]" % (s, e[1])
        return s


def _elem_of(e):
    k = e["k"]
    if k == "deref":
        return ("deref",)
    if k == "field":
        owner = e.get("adt") or ("closure:" + e["closure"] if "closure" in e else ("tuple" if e.get("tuple") else None))
        return ("field", owner, e["i"], e.get("name"))
    if k == "downcast":
        return ("downcast", e.get("variant"))
    return ("other", k)


# ---------------------------------------------------------------------------
# body
# ---------------------------------------------------------------------------
class Loc:
    """A program point: block + statement index (index == len(stmts) means terminator)."""
    __slots__ = ("bb", "i")

    def __init__(self, bb, i):
        self.bb, self.i = bb, i

    def __repr__(self):
        return "bb%d[%d]" % (self.bb, self.i)

    def __eq__(self, o):
        return (self.bb, self.i) == (o.bb, o.i)

    def __hash__(self):
        return hash((self.bb, self.i))


class Body:
    def __init__(self, facts, raw):
        self.facts = facts
        self.raw = raw
        if not os.environ.get("VERIF_NONORM"):
            from normalize import thread_flags, replace_none_is_take, lower_option_replace, lower_identity_calls, scalarize_plain_aggregates
            scalarize_plain_aggregates(raw, facts.types)
            thread_flags(raw, facts.types)
            replace_none_is_take(raw, facts.types)
            lower_option_replace(raw, facts.types)
            lower_identity_calls(raw, facts.types)
        self.path = raw["path"]
        self.dpath = raw["dpath"]
        self.name = raw.get("name", "")
        self.kind = raw["kind"]
        self.blocks = raw["blocks"]
        self.n = len(self.blocks)
        self.arg_count = raw["arg_count"]
        self.locals = raw["locals"]
        self._succ_all = []
        self._succ_norm = []
        for blk in self.blocks:
            n, u = self._term_succs(blk["term"])
            self._succ_norm.append(n)
            self._succ_all.append(n + u)
        self._preds_all = [[] for _ in range(self.n)]
        self._preds_norm = [[] for _ in range(self.n)]
        for b in range(self.n):
            for s_ in self._succ_all[b]:
                self._preds_all[s_].append(b)
            for s_ in self._succ_norm[b]:
                self._preds_norm[s_].append(b)
        self._dom = None
        self._pdom = None
        self._defs = None
        self._reach = None
        self.var_names = {}
        for v in raw["vars"]:
            if not v["place"]["proj"]:
                self.var_names.setdefault(v["place"]["local"], v["name"])

    # -- basic ------------------------------------------------------------
    @staticmethod
    def _term_succs(t):
        k = t["k"]
        norm, unw = [], []
        if k == "goto":
            norm = [t["target"]]
        elif k == "switch":
            norm = [b for _, b in t["targets"]] + [t["otherwise"]]
        elif k in ("call", "drop", "assert"):
            if t.get("target") is not None:
                norm = [t["target"]]
            u = t.get("unwind")
            if isinstance(u, int):
                unw = [u]
        # dedupe keeping order
        seen = []
        for x in norm:
            if x not in seen:
                seen.append(x)
        return seen, [x for x in unw if x not in seen]

    def succs(self, bb, unwind=False):
        return self._succ_all[bb] if unwind else self._succ_norm[bb]

    def preds(self, bb, unwind=False):
        return self._preds_all[bb] if unwind else self._preds_norm[bb]

    def term(self, bb):
        return self.blocks[bb]["term"]

    def stmts(self, bb):
        return self.blocks[bb]["stmts"]

    def is_cleanup(self, bb):
        return self.blocks[bb]["cleanup"]

    def ty(self, tid):
        return self.facts.types[tid]

    def local_ty(self, l):
        return self.facts.types[self.locals[l]["ty"]]

    def local_name(self, l):
        return self.var_names.get(l, "_%d" % l)

    def span_of(self, loc):
        blk = self.blocks[loc.bb]
        if loc.i < len(blk["stmts"]):
            return blk["stmts"][loc.i]["span"]
        return blk["term"]["span"]

    def where(self, loc):
        sp = self.span_of(loc)
        return "%s:%d:%d" % (sp["file"], sp["line"], sp["col"])

    def return_blocks(self):
        return [b for b in range(self.n) if self.term(b)["k"] == "return"]

    def reachable(self):
        """blocks reachable from entry through normal + unwind edges"""
        if self._reach is None:
            seen = {0}
            st = [0]
            while st:
                b = st.pop()
                for s_ in self._succ_all[b]:
                    if s_ not in seen:
                        seen.add(s_)
                        st.append(s_)
            self._reach = seen
        return self._reach

    def reach_from(self, starts, unwind=False, stop=None):
        """set of blocks reachable from the given start blocks (inclusive)"""
        seen = set(starts)
        st = list(starts)
        while st:
            b = st.pop()
            if stop and b in stop:
                continue
            for s_ in self.succs(b, unwind):
                if s_ not in seen:
                    seen.add(s_)
                    st.append(s_)
        return seen

    # -- dominators ---------------------------------------------------------
    def dom(self):
        """dom[b] = set of blocks dominating b (all edges)"""
        if self._dom is None:
            self._dom = _dominators(self.n, 0, self._preds_all, self.reachable())
        return self._dom

    def dominates(self, a, b):
        """Loc a dominates Loc b"""
        if a.bb == b.bb:
            return a.i <= b.i
        return a.bb in self.dom().get(b.bb, set())

    def pdom(self):
        """post-dominators w.r.t. normal return (virtual exit = all `return` blocks).

        Only blocks that can reach a normal return through normal edges are keys;
        a panicking call's missing successor simply ends the path (the panic does
        not return normally), which is what must-pass-through rules need.
        """
        if self._pdom is None:
            exits = self.return_blocks()
            EXIT = self.n
            succ = [list(x) for x in self._succ_norm] + [[]]
            for e in exits:
                succ[e] = succ[e] + [EXIT]
            # reverse graph
            rpreds = [[] for _ in range(self.n + 1)]  # preds in reverse graph = succs in forward
            for b in range(self.n + 1):
                rpreds[b] = succ[b]
            # reachable in reverse from EXIT
            fpreds = [[] for _ in range(self.n + 1)]
            for b in range(self.n + 1):
                for s_ in succ[b]:
                    fpreds[s_].append(b)
            seen = {EXIT}
            st = [EXIT]
            while st:
                b = st.pop()
                for p in fpreds[b]:
                    if p not in seen:
                        seen.add(p)
                        st.append(p)
            # restrict successor lists to blocks that can reach EXIT: a block whose
            # other successor diverges (panic) is still post-dominated normally.
            rp = [[s_ for s_ in rpreds[b] if s_ in seen] for b in range(self.n + 1)]
            self._pdom = _dominators(self.n + 1, EXIT, rp, seen)
        return self._pdom

    def postdominates(self, a_bb, b_bb):
        """block a post-dominates block b on normally-returning paths"""
        return a_bb in self.pdom().get(b_bb, set())

    # -- loops --------------------------------------------------------------
    def back_edges(self):
        dom = self.dom()
        out = []
        for b in self.reachable():
            for s_ in self._succ_all[b]:
                if s_ in dom.get(b, set()):
                    out.append((b, s_))
        return out

    def loops(self):
        """natural loops: list of (header, set(blocks))"""
        loops = {}
        for tail, head in self.back_edges():
            body = {head, tail}
            st = [tail]
            while st:
                x = st.pop()
                if x == head:
                    continue
                for p in self._preds_all[x]:
                    if p not in body:
                        body.add(p)
                        st.append(p)
            loops.setdefault(head, set()).update(body)
        return list(loops.items())

    # -- definitions ----------------------------------------------------------
    def defs(self):
        """local -> list of (Loc, kind, payload); kind in 'assign','call','setdiscr'"""
        if self._defs is None:
            d = defaultdict(list)
            for b in range(self.n):
                if b not in self.reachable():
                    continue      # blocks cut off by constant folding in an inlined view define nothing
                blk = self.blocks[b]
                for i, st in enumerate(blk["stmts"]):
                    if st["k"] == "assign":
                        pj = st["place"]["proj"]
                        if pj and pj[0]["k"] == "deref":
                            continue    # a write through a pointer held in the local: not a definition of the local itself
                        d[st["place"]["local"]].append((Loc(b, i), "assign" if not pj else "partial", st))
                    elif st["k"] == "set_discr":
                        d[st["place"]["local"]].append((Loc(b, i), "partial", st))
                t = blk["term"]
                if t["k"] == "call" and "dest" in t:
                    pj = t["dest"]["proj"]
                    if not (pj and pj[0]["k"] == "deref"):
                        d[t["dest"]["local"]].append((Loc(b, len(blk["stmts"])), "call" if not pj else "partial", t))
            self._defs = d
        return self._defs

    def unique_def(self, local):
        """the single whole-local definition (ignoring cleanup-block duplicates), or None"""
        ds = [x for x in self.defs().get(local, []) if x[1] in ("assign", "call")]
        parts = [x for x in self.defs().get(local, []) if x[1] == "partial"]
        if parts:
            return None
        if len(ds) == 1:
            return ds[0]
        # drop elaboration duplicates an assignment into the unwind block: accept when all defs are
        # textually the same rvalue
        if len(ds) > 1 and all(x[1] == "assign" for x in ds):
            r0 = json.dumps(ds[0][2]["rv"], sort_keys=True)
            if all(json.dumps(x[2]["rv"], sort_keys=True) == r0 for x in ds[1:]):
                noncleanup = [x for x in ds if not self.is_cleanup(x[0].bb)]
                return (noncleanup or ds)[0]
        return None

    # -- origin paths -----------------------------------------------------------
    def expand(self, place, _depth=0, alias=False):
        """Origin path of a MIR place: follow single-assignment temporaries that are
        references to / copies of / moves of other places."""
        proj = place["proj"]
        local = place["local"]
        # field of a single-assignment tuple aggregate: continue from the operand stored there
        hops = 0
        while proj and proj[0]["k"] == "field" and proj[0].get("tuple") and hops < 6 and not (1 <= local <= self.arg_count):
            d = self.unique_def(local)
            if d is None or d[1] != "assign" or d[2]["rv"]["k"] != "aggregate" or d[2]["rv"].get("agg") != "tuple":
                break
            op = d[2]["rv"]["ops"][proj[0]["i"]]
            if op["k"] not in ("copy", "move"):
                break
            inner = self.expand(op["place"], _depth + 1, alias)
            p = inner
            for e in proj[1:]:
                p = p.extend(_elem_of(e))
            return p
        # `x?` on an Option: the Continue payload of Try::branch(x) is the payload of x
        if len(proj) >= 2 and proj[0]["k"] == "downcast" and proj[0].get("variant") == "Continue" and proj[1]["k"] == "field" and _depth < 30 \
                and not (1 <= local <= self.arg_count) and local != 0:
            d_ = self.unique_def(local)
            if d_ is not None and d_[1] == "call" and str(d_[2].get("callee") or "").endswith("Try::branch") and len(d_[2].get("args", [])) == 1 \
                    and d_[2]["args"][0]["k"] in ("copy", "move") and self.facts.types[d_[2]["args"][0]["place"]["ty"]].get("adt") == "core::option::Option":
                x_ = d_[2]["args"][0]["place"]
                inner_ty = self.facts.types[x_["ty"]]["args"][0] if self.facts.types[x_["ty"]].get("args") else proj[1].get("ty")
                return self.expand({"local": x_["local"], "proj": list(x_["proj"]) + [{"k": "downcast", "variant": "Some", "vidx": 1},
                                    {"k": "field", "i": 0, "adt": "core::option::Option", "name": "0", "variant": "Some", "ty": inner_ty}] + list(proj[2:]),
                                    "ty": place.get("ty")}, _depth + 1, alias)
        ar = self._accessor_result(local, _depth, alias) if len(proj) >= 2 and proj[0]["k"] == "downcast" and proj[1]["k"] == "field" else None
        if ar is not None:
            # `(x as Some).0` of `x = self.old_table()`: a reference to the old table inside the pending-resize field
            p = ar[0].extend(ar[1]["left"]) if ar[1]["left"] is not None else ar[0]
            for e in ar[1]["tail"]:
                p = p.extend(e)
            p = p.extend(("ref",))
            proj = proj[2:]
        else:
            p = self._expand_local(local, _depth, alias)
        for e in proj:
            p = p.extend(_elem_of(e))
        # a capture read through a closure value built in this body (a closure body spliced in next to its creation site):
        # field i of the single-assignment closure aggregate is the operand captured there
        hops = 0
        while hops < 6 and p.elems and not (1 <= p.root <= self.arg_count) and p.root != 0 and _depth < 30:
            els = list(p.elems)
            while len(els) >= 2 and els[0][0] == "ref" and els[1][0] == "deref":
                els = els[2:]
            if not els or els[0][0] != "field":
                break
            owner = str(els[0][1] or "")
            plain = getattr(self.facts, "plain_structs", None) or ()
            if not (owner.startswith("closure:") or owner == "tuple" or owner in plain):
                break
            d = self.unique_def(p.root)
            if d is None or d[1] != "assign" or d[2]["rv"]["k"] != "aggregate" or els[0][2] >= len(d[2]["rv"]["ops"]):
                break
            agg = d[2]["rv"]
            if not ((owner.startswith("closure:") and agg.get("agg") == "closure") or (owner == "tuple" and agg.get("agg") == "tuple")
                    or (owner in plain and agg.get("agg") == "adt" and agg.get("adt") == owner)):
                break
            op = d[2]["rv"]["ops"][els[0][2]]
            if op["k"] not in ("copy", "move"):
                break
            q = self.expand(op["place"], _depth + 1, alias)
            for e in els[1:]:
                q = q.extend(e)
            p = q
            hops += 1
        return p

    def _accessor_result(self, local, depth, alias):
        """(receiver path, accessor description) if the local is the result of a private accessor handing out the old table"""
        acc = getattr(self.facts, "old_accessors", None)
        if acc is None or local == 0 or 1 <= local <= self.arg_count or depth > 30:
            return None
        d = self.unique_def(local)
        hops = 0
        while d is not None and d[1] == "assign" and d[2]["rv"]["k"] == "use" and d[2]["rv"]["op"]["k"] in ("copy", "move") \
                and not d[2]["rv"]["op"]["place"]["proj"] and hops < 6:
            l2 = d[2]["rv"]["op"]["place"]["local"]
            if l2 == 0 or 1 <= l2 <= self.arg_count:
                return None
            d = self.unique_def(l2)
            hops += 1
        if d is None or d[1] != "call":
            return None
        t = d[2]
        res = t.get("resolved") or {}
        a = acc.get(res.get("path")) if res.get("local") else None
        if a is None or len(t.get("args", [])) != 1 or t["args"][0]["k"] not in ("copy", "move"):
            return None
        rp = self.expand(t["args"][0]["place"], depth + 1, alias)
        if rp.elems and rp.elems[-1][0] == "ref":
            rp = Path(rp.root, rp.elems[:-1])
        return rp, a

    def _expand_local(self, local, depth, alias=False):
        if depth > 40 or local == 0 or 1 <= local <= self.arg_count:
            return Path(local)
        d = self.unique_def(local)
        if d is None or d[1] != "assign":
            ar = self._accessor_result(local, depth, alias) if d is not None and d[1] == "call" else None
            if ar is not None:
                return ar[0].extend(ar[1]["left"]) if ar[1]["left"] is not None else ar[0]      # the accessor's result stands for the field it projects from
            return Path(local)
        rv = d[2]["rv"]
        k = rv["k"]
        if alias and k in ("use", "cast") and self.local_ty(local).get("k") not in ("ref", "ptr"):
            # alias mode: a by-value copy is a new object, not an alias of its source
            return Path(local)
        if k == "ref" or k == "rawptr":
            return self.expand(rv["place"], depth + 1, alias).extend(("ref",))
        if k == "copy_for_deref":
            return self.expand(rv["place"], depth + 1, alias)
        if k == "use" and rv["op"]["k"] in ("copy", "move"):
            return self.expand(rv["op"]["place"], depth + 1, alias)
        if k == "cast" and rv["op"]["k"] in ("copy", "move") and rv["cast"].startswith(("PtrToPtr", "PointerCoercion")):
            return self.expand(rv["op"]["place"], depth + 1, alias)
        return Path(local)

    def op_path(self, op):
        if op["k"] in ("copy", "move"):
            return self.expand(op["place"])
        return None

    def op_const(self, op):
        """constant value of an operand (following single-def copies), or None"""
        seen = 0
        while op["k"] in ("copy", "move") and not op["place"]["proj"] and seen < 20:
            d = self.unique_def(op["place"]["local"])
            if d is None or d[1] != "assign" or d[2]["rv"]["k"] != "use":
                return None
            op = d[2]["rv"]["op"]
            seen += 1
        if op["k"] == "const":
            return op.get("val")
        return None

    def source_def(self, op, through_casts=False):
        """Follow copies/moves of whole locals back to the defining statement/call.
        returns (Loc, kind, payload) or None (argument / multi-def / projection)."""
        seen = 0
        while seen < 40:
            seen += 1
            if op["k"] not in ("copy", "move"):
                return None
            pl = op["place"]
            if pl["proj"]:
                return None
            d = self.unique_def(pl["local"])
            if d is None:
                return None
            if d[1] == "assign" and d[2]["rv"]["k"] == "use" and d[2]["rv"]["op"]["k"] in ("copy", "move") and not d[2]["rv"]["op"]["place"]["proj"]:
                op = d[2]["rv"]["op"]
                continue
            if d[1] == "assign" and d[2]["rv"]["k"] == "use" and d[2]["rv"]["op"]["k"] in ("copy", "move") and d[2]["rv"]["op"]["place"]["proj"] \
                    and all(e["k"] == "field" for e in d[2]["rv"]["op"]["place"]["proj"]):
                # a field of a tuple / plan-like struct / closure built in this body: continue from the operand stored there (see expand)
                q = self.expand(d[2]["rv"]["op"]["place"])
                if not q.elems and q.root != d[2]["rv"]["op"]["place"]["local"] and q.root != pl["local"]:
                    op = {"k": "move", "place": {"local": q.root, "proj": [], "ty": self.locals[q.root]["ty"]}}
                    continue
            if through_casts and d[1] == "assign" and d[2]["rv"]["k"] == "cast":
                op = d[2]["rv"]["op"]
                continue
            return d
        return None

    # -- reaching definitions / backward slices -----------------------------------
    def _all_defs(self):
        """list of (Loc, local, strong, payload-kind, payload); writes through pointers are attributed to the
        root local of the expanded destination (weak definitions)"""
        if getattr(self, "_alldefs", None) is None:
            out = []
            for b in sorted(self.reachable()):
                for i, st in enumerate(self.stmts(b)):
                    if st["k"] == "assign":
                        pl = st["place"]
                        if not pl["proj"]:
                            out.append((Loc(b, i), pl["local"], True, "assign", st))
                        else:
                            root = self.expand(pl, alias=True).root
                            out.append((Loc(b, i), root, False, "assign", st))
                            if root != pl["local"]:
                                out.append((Loc(b, i), pl["local"], False, "assign", st))
                            # the pointer written through may come out of a call that was handed `&mut L` (Option::as_mut(&mut hi)):
                            # then the write may land in L
                            if pl["proj"] and pl["proj"][0]["k"] == "deref":
                                d0 = self.unique_def(root)
                                if d0 is not None and d0[1] == "call":
                                    for a in d0[2]["args"]:
                                        if a["k"] in ("copy", "move"):
                                            q = self.expand(a["place"], alias=True)
                                            if q.root != root and any(e[0] == "ref" for e in q.elems):
                                                out.append((Loc(b, i), q.root, False, "assign", st))
                t = self.term(b)
                if t["k"] == "call" and "dest" in t:
                    pl = t["dest"]
                    out.append((Loc(b, len(self.stmts(b))), pl["local"], not pl["proj"], "call", t))
            self._alldefs = out
        return self._alldefs

    def reaching(self):
        """IN[bb] : dict local -> frozenset(def index) of definitions reaching the start of bb (normal+unwind edges)"""
        if getattr(self, "_reach_in", None) is None:
            defs = self._all_defs()
            by_bb = defaultdict(list)
            for n, d in enumerate(defs):
                by_bb[d[0].bb].append((n, d))
            IN = {b: {} for b in self.reachable()}
            OUT = {}

            def flow(b, inn):
                cur = {k: set(v) for k, v in inn.items()}
                for n, d in by_bb.get(b, []):
                    if d[2]:
                        cur[d[1]] = {n}
                    else:
                        cur.setdefault(d[1], set()).add(n)
                return cur
            work = [0]
            OUT = {}
            seen_once = set()
            while work:
                b = work.pop()
                out = flow(b, IN[b])
                if b in seen_once and OUT.get(b) == out:
                    continue
                seen_once.add(b)
                OUT[b] = out
                for s_ in self._succ_all[b]:
                    tgt = IN[s_]
                    changed = False
                    for k, v in out.items():
                        if k not in tgt:
                            tgt[k] = set(v)
                            changed = True
                        elif not v <= tgt[k]:
                            tgt[k] |= v
                            changed = True
                    if changed or s_ not in seen_once:
                        work.append(s_)
            self._reach_in = IN
        return self._reach_in

    def defs_reaching(self, loc, local):
        """definitions (entries of _all_defs) of `local` that reach program point loc (before executing it)"""
        defs = self._all_defs()
        cur = set(self.reaching().get(loc.bb, {}).get(local, set()))
        for n, d in enumerate(defs):
            if d[0].bb == loc.bb and d[0].i < loc.i and d[1] == local:
                if d[2]:
                    cur = {n}
                else:
                    cur.add(n)
        return [defs[n] for n in sorted(cur)]

    def slice_back(self, loc, operands, max_nodes=400):
        """Backward data slice from operands used at loc.
        Returns (set of Loc of contributing statements/calls, set of argument locals reached, consts seen)"""
        seen_defs = set()
        args = set()
        work = []

        def push_op(at, op):
            if op["k"] in ("copy", "move"):
                pl = op["place"]
                work.append((at, pl["local"]))
                for e in pl["proj"]:
                    if e["k"] == "index":
                        work.append((at, e["local"]))

        def push_place(at, pl):
            work.append((at, pl["local"]))
        for op in operands:
            push_op(loc, op)
        visited = set()
        while work and len(seen_defs) < max_nodes:
            at, local = work.pop()
            if (at, local) in visited:
                continue
            visited.add((at, local))
            if 1 <= local <= self.arg_count:
                args.add(local)
            for d in self.defs_reaching(at, local):
                dl = d[0]
                if dl in seen_defs:
                    continue
                seen_defs.add(dl)
                if d[3] == "call":
                    for a in d[4]["args"]:
                        push_op(dl, a)
                else:
                    rv = d[4]["rv"]
                    k = rv["k"]
                    if k in ("use", "cast", "repeat", "wrap_binder"):
                        push_op(dl, rv["op"])
                    elif k == "binop":
                        push_op(dl, rv["a"]); push_op(dl, rv["b"])
                    elif k == "unop":
                        push_op(dl, rv["a"])
                    elif k in ("ref", "rawptr", "discr", "copy_for_deref"):
                        push_place(dl, rv["place"])
                    elif k == "aggregate":
                        for o in rv["ops"]:
                            push_op(dl, o)
        return seen_defs, args

    def ret_locals(self):
        """locals whose whole value is handed on unchanged to the return place (`_0 = move _k`): {0, k, ...} — an inlined helper's
        own return slot is such a local"""
        if getattr(self, "_retl", None) is None:
            out = {0}
            grew = True
            while grew:
                grew = False
                for loc, st in self.all_assigns():
                    rv = st["rv"]
                    if st["place"]["local"] in out and not st["place"]["proj"] and rv["k"] == "use" and rv["op"]["k"] in ("copy", "move") \
                            and not rv["op"]["place"]["proj"] and rv["op"]["place"]["local"] not in out:
                        out.add(rv["op"]["place"]["local"])
                        grew = True
            self._retl = out
        return self._retl

    # -- iteration helpers ---------------------------------------------------
    def calls(self, include_cleanup=True):
        for b in range(self.n):
            if b not in self.reachable():
                continue
            if not include_cleanup and self.is_cleanup(b):
                continue
            t = self.term(b)
            if t["k"] == "call":
                yield Loc(b, len(self.stmts(b))), t

    def all_assigns(self):
        for b in range(self.n):
            if b not in self.reachable():
                continue
            for i, st in enumerate(self.stmts(b)):
                if st["k"] == "assign":
                    yield Loc(b, i), st

    def paths_avoiding(self, start_bbs, avoid_bbs, targets, unwind=False):
        """Is some target block reachable from start blocks without passing through an avoid block?
        Returns a witness path (list of blocks) or None."""
        avoid = set(avoid_bbs)
        targets = set(targets)
        prev = {}
        st = []
        for s_ in start_bbs:
            if s_ in avoid:
                continue
            prev[s_] = None
            st.append(s_)
        while st:
            b = st.pop()
            if b in targets:
                path = []
                x = b
                while x is not None:
                    path.append(x)
                    x = prev[x]
                return list(reversed(path))
            for s_ in self.succs(b, unwind):
                if s_ in avoid or s_ in prev:
                    continue
                prev[s_] = b
                st.append(s_)
        return None


def _dominators(n, entry, preds, nodes):
    nodes = set(nodes)
    dom = {b: set(nodes) for b in nodes}
    dom[entry] = {entry}
    changed = True
    order = sorted(nodes)
    while changed:
        changed = False
        for b in order:
            if b == entry:
                continue
            ps = [p for p in preds[b] if p in nodes]
            if not ps:
                new = {b}
            else:
                new = set.intersection(*(dom[p] for p in ps)) | {b}
            if new != dom[b]:
                dom[b] = new
                changed = True
    return dom


# ---------------------------------------------------------------------------
# facts
# ---------------------------------------------------------------------------
class Facts:
    @classmethod
    def from_raw(cls, d, path):
        """a Facts object over an already loaded (possibly transformed) fact dictionary"""
        return cls(path, d)

    def __init__(self, path, d=None):
        if d is None:
            with open(path) as f:
                d = json.load(f)
        self.raw = d
        self.path = path
        if not os.environ.get("VERIF_NONORM"):
            from normalize import desugar_option_like, std_equivalents, desugar_newtypes, forwarders
            from normalize import desugar_located_bucket
            from normalize import flatten_table_holder
            self.flattened = flatten_table_holder(d)
            self.newtypes = desugar_newtypes(d)
            self.bucket_enum = desugar_located_bucket(d)
            self.desugared = desugar_option_like(d)
            self.std_equivalents = std_equivalents(d)
            self.forwarders = forwarders(d) if self.newtypes else {}
        self.crate = d["crate"]
        self.cfg = d["cfg"]
        self.debug_assertions = d["debug_assertions"]
        self.overflow_checks = d["overflow_checks"]
        self.types = d["types"]
        self.adts = {a["path"]: a for a in d["adts"]}
        self.impls = d["impls"]
        self.consts = {c["path"]: c for c in d["consts"]}
        self.bodies = {}
        self.by_dpath = {}
        for raw in d["bodies"]:
            b = Body(self, raw)
            self.bodies[b.path] = b
            self.by_dpath[b.dpath] = b
        # closures: parent map
        self.children = defaultdict(list)
        for b in self.bodies.values():
            if b.kind == "Closure":
                self.children[b.raw["parent"]].append(b)

    def body(self, path):
        b = self.bodies.get(path)
        if b is None:
            raise AnalysisError("no body named %s" % path)
        return b

    def find_bodies(self, pred):
        return [b for b in self.bodies.values() if pred(b)]

    def ty(self, tid):
        return self.types[tid]

    def closure_parent(self, b):
        """the enclosing non-closure body"""
        while b.kind == "Closure":
            b = self.by_dpath[b.raw["parent"]]
        return b

    def closures_of(self, b):
        """all closure bodies nested (transitively) in b"""
        out = []
        st = list(self.children.get(b.dpath, []))
        while st:
            c = st.pop()
            out.append(c)
            st.extend(self.children.get(c.dpath, []))
        return out

    def is_test_code(self, b):
        return False  # lib target compiled without cfg(test)


def ty_contains_adt(types, tid, adt_path, _seen=None):
    """does type tid mention the ADT anywhere (args, refs, tuples)"""
    t = types[tid]
    if t.get("adt") == adt_path:
        return True
    for key in ("args", "elems", "upvars"):
        for x in t.get(key, []):
            if ty_contains_adt(types, x, adt_path):
                return True
    if "inner" in t:
        return ty_contains_adt(types, t["inner"], adt_path)
    return False


def strip_ref(types, tid):
    t = types[tid]
    while t.get("k") in ("ref", "ptr"):
        tid = t["inner"]
        t = types[tid]
    return tid
