"""E3 — typestate of LEFT (is an old table pending?) — DESIGN §5/E3.

Forward dataflow over each body that has a split table S reachable from its first
argument, with interprocedural summaries computed to a fixpoint.
"""
from core import Loc, Path, AnalysisError
from engine import RuleResult, MAIN, LEFT, OLD, CURSOR, in_macro
from rules_protocol import hb_calls, HBT, HBI, between_blocks

BOT, N, S, TOP = "⊥", "N", "S", "⊤"


def join(a, b):
    if a == BOT:
        return b
    if b == BOT:
        return a
    if a == b:
        return a
    return TOP


OPT = "core::option::Option::"
NOCHANGE_ON_LEFT = {OPT + "as_ref", OPT + "as_mut", OPT + "is_some", OPT + "is_none", OPT + "iter", OPT + "iter_mut",
                    OPT + "map_or", OPT + "map", OPT + "as_deref", OPT + "clone"}


def self_s_prefix(ctx, body):
    """Path prefix (root local) of 'the' split table of this body: argument 1 if its type is (a reference to) S,
    or (a reference to) a holder of S (HashMap: then prefix includes the field)."""
    if body.arg_count < 1:
        return None
    T = ctx.facts.types
    t = T[body.locals[1]["ty"]]
    while t.get("k") == "ref":
        t = T[t["inner"]]
    if t.get("k") == "adt" and t["adt"] == ctx.roles.S:
        return ("self",)
    return None


def is_self_left(ctx, body, path):
    """path denotes LEFT of the S rooted at argument 1"""
    if path is None or path.root != 1:
        return False
    if not ctx.roles.is_left_place(path):
        return False
    # S must be arg1 itself: no field before the S field
    fs = [e for e in path.elems if e[0] in ("field", "downcast")]
    return len(fs) == 1


def is_self_s(ctx, body, path):
    """path is (a reborrow of) the S value at argument 1"""
    return path is not None and path.root == 1 and not [e for e in path.elems if e[0] in ("field", "downcast", "other")]


def _opt_value_state(body, op):
    """state denoted by an Option value operand: aggregate None/Some"""
    d = body.source_def(op)
    if d is not None and d[1] == "assign":
        rv = d[2]["rv"]
        if rv["k"] == "aggregate" and rv.get("adt") == "core::option::Option":
            return N if rv["variant"] == "None" else S
    if op["k"] == "const" and "None" in op.get("text", ""):
        return N
    return TOP


def ret_is_some_fns(ctx):
    """griddle functions of S whose result is LEFT.is_some() / is_none() of their self: path -> True(is_some)/False(is_none)"""
    def build():
        out = {}
        for b in ctx.facts.bodies.values():
            if self_s_prefix(ctx, b) is None or b.kind == "Closure":
                continue
            cs = [c for c in ctx.calls(b) if not b.is_cleanup(c.loc.bb)]
            if len(cs) != 1:
                continue
            c = cs[0]
            if c.name in (OPT + "is_some", OPT + "is_none") and is_self_left(ctx, b, c.arg_path(0)) and c.dest and c.dest["local"] == 0 and not c.dest["proj"]:
                out[b.path] = (c.name == OPT + "is_some")
        return out
    return ctx.memo("ret_is_some", build)


def option_test_edges(ctx, body, is_target, ignore_debug=True, accessors=None):
    """{(bb, succ): N|S} for switch edges that decide whether an Option-typed place (selected by `is_target(path)`) is Some (S) or None (N).
    Recognised tests: discriminant(X); discriminant(X.as_ref()/as_mut()); discriminant(Try::branch(X or X.as_ref()/as_mut())) — the `?`
    operator; X.is_some()/is_none() (also negated); griddle accessors returning is_some()/is_none() of their receiver's X."""
    out = {}

    def via_as_ref(op):
        """operand is X itself, or the result of as_ref/as_mut on X: returns True if so"""
        p = body.op_path(op) if op["k"] in ("copy", "move") else None
        if p is not None and is_target(p):
            return True
        d = body.source_def(op)
        if d is not None and d[1] == "call":
            c = ctx.call_at(body, d[0].bb)
            if c.name in (OPT + "as_ref", OPT + "as_mut", OPT + "as_deref", OPT + "as_deref_mut") and c.arg_path(0) is not None and is_target(c.arg_path(0)):
                return True
        return False

    for bb in body.reachable():
        t = body.term(bb)
        if t["k"] != "switch":
            continue
        if ignore_debug and in_macro(t["span"], "debug_assert", "debug_assert_eq", "debug_assert_ne"):
            continue
        discr = t["discr"]
        d = body.source_def(discr)
        if d is None:
            continue
        kind = None
        if d[1] == "assign" and d[2]["rv"]["k"] == "discr":
            pl = d[2]["rv"]["place"]
            p = body.expand(pl)
            if not is_target(p) and pl["proj"] and not p.elems and p.root != pl["local"]:
                pl = {"local": p.root, "proj": [], "ty": pl.get("ty")}      # a field of a tuple built in this body: the local stored there
            if is_target(p):
                kind = "discr"
            elif not pl["proj"]:
                # discriminant of a local: result of as_ref/as_mut on X, or of Try::branch on such
                dd = body.source_def({"k": "move", "place": pl})      # through whole-local moves (an inlined accessor's return slot)
                if dd is not None and dd[1] == "call":
                    c = ctx.call_at(body, dd[0].bb)
                    if c.name in (OPT + "as_ref", OPT + "as_mut") and c.arg_path(0) is not None and is_target(c.arg_path(0)):
                        kind = "discr"
                    elif (c.name or "").endswith("Try::branch") and c.args and via_as_ref(c.args[0]):
                        kind = "branch"
        elif d[1] == "call":
            c = ctx.call_at(body, d[0].bb)
            if ignore_debug and in_macro(c.t["span"], "debug_assert"):
                continue
            if c.name in (OPT + "is_some", OPT + "is_none") and c.args and via_as_ref(c.args[0]):
                kind = "is_some" if c.name == OPT + "is_some" else "is_none"
            elif accessors:
                lc = c.local_callee()
                if lc is not None and lc.path in accessors and accessors.get("__recv__", lambda q: False)(c.arg_path(0)):
                    kind = "is_some" if accessors[lc.path] else "is_none"
        elif d[1] == "assign" and d[2]["rv"]["k"] == "unop" and d[2]["rv"]["op"] == "Not":
            d2 = body.source_def(d[2]["rv"]["a"])
            if d2 is not None and d2[1] == "call":
                c = ctx.call_at(body, d2[0].bb)
                if c.name in (OPT + "is_some", OPT + "is_none") and c.args and via_as_ref(c.args[0]):
                    kind = "is_none" if c.name == OPT + "is_some" else "is_some"
                elif accessors:
                    lc = c.local_callee()
                    if lc is not None and lc.path in accessors and accessors.get("__recv__", lambda q: False)(c.arg_path(0)):
                        kind = "is_none" if accessors[lc.path] else "is_some"
        if kind is None:
            continue
        for v, tb in t["targets"]:
            if tb == t["otherwise"]:
                continue
            if kind == "discr":
                out[(bb, tb)] = S if v == 1 else N
            elif kind == "branch":
                out[(bb, tb)] = S if v == 0 else N
            elif kind == "is_some":
                out[(bb, tb)] = S if v != 0 else N
            else:
                out[(bb, tb)] = N if v != 0 else S
        ob = t["otherwise"]
        vals = [v for v, _ in t["targets"]]
        if body.term(ob)["k"] == "unreachable":
            continue
        if kind == "discr":
            if vals == [1]:
                out[(bb, ob)] = N
            elif vals == [0]:
                out[(bb, ob)] = S
        elif kind == "branch":
            if vals == [0]:
                out[(bb, ob)] = N
            elif vals == [1]:
                out[(bb, ob)] = S
        elif kind == "is_some":
            if vals == [0]:
                out[(bb, ob)] = S
        else:
            if vals == [0]:
                out[(bb, ob)] = N
    return out


def left_test_edges(ctx, body, ignore_debug=True):
    """{(bb, succ): N|S} for switch edges that decide whether the self S is split.
    Tests that exist only under debug_assert!/cfg!(debug_assertions) are ignored when ignore_debug."""
    acc = dict(ret_is_some_fns(ctx))
    acc["__recv__"] = lambda q: is_self_s(ctx, body, q)
    return option_test_edges(ctx, body, lambda p: is_self_left(ctx, body, p), ignore_debug, acc)


class TypeState:
    def __init__(self, ctx, world=None):
        self.ctx = ctx
        self.world = world      # None, or "zero" / "nonzero": the element type's size, fixed per instantiation — edges of size_of::<T>() tests
                                # that contradict it are not followed
        self.bodies = [b for b in ctx.facts.bodies.values() if b.kind != "Closure" and self_s_prefix(ctx, b) is not None]
        self.summary = {b.path: {N: BOT, S: BOT} for b in self.bodies}
        self.results = {}
        self.assumptions = []
        self._fix()

    def _fix(self):
        changed = True
        rounds = 0
        while changed and rounds < 30:
            changed = False
            rounds += 1
            for b in self.bodies:
                for pre in (N, S):
                    st_in, st_out = self.flow(b, pre)
                    post = BOT
                    for rb in b.return_blocks():
                        if rb in st_out:
                            post = join(post, st_out[rb])
                    if post != self.summary[b.path][pre]:
                        self.summary[b.path][pre] = post
                        changed = True
        for b in self.bodies:
            self.results[b.path] = {pre: self.flow(b, pre) for pre in (N, S, TOP)}

    def summ(self, path, pre):
        s = self.summary.get(path)
        if s is None:
            return TOP
        if pre == TOP:
            return join(s[N], s[S])
        if pre == BOT:
            return BOT
        return s[pre]

    def transfer_block(self, b, bb, st):
        """state after executing block bb (before edge refinement)"""
        ctx = self.ctx
        for stmt in b.stmts(bb):
            if stmt["k"] != "assign":
                continue
            p = b.expand(stmt["place"])
            if is_self_left(ctx, b, p) and stmt["place"]["proj"]:
                rv = stmt["rv"]
                if rv["k"] == "aggregate" and rv.get("adt") == "core::option::Option":
                    st = N if rv["variant"] == "None" else S
                elif rv["k"] == "use":
                    st = _opt_value_state(b, rv["op"])
                else:
                    st = TOP
            elif stmt["rv"]["k"] == "ref" and stmt["rv"].get("mut"):
                pass
        t = b.term(bb)
        if t["k"] == "call":
            c = ctx.call_at(b, bb)
            st = self.transfer_call(b, c, st)
        return st

    def transfer_call(self, b, c, st):
        ctx = self.ctx
        T = ctx.facts.types
        for i, a in enumerate(c.args):
            if a["k"] not in ("copy", "move"):
                continue
            p = b.op_path(a)
            aty = T[a["place"]["ty"]]
            is_mut_ref = aty.get("k") == "ref" and aty.get("mut")
            if is_self_left(ctx, b, p):
                if c.name == OPT + "take" or c.name == "core::mem::take":
                    return N
                if c.name in (OPT + "replace", OPT + "insert", OPT + "get_or_insert", OPT + "get_or_insert_with"):
                    return S
                if c.name == "core::mem::replace" and i == 0:
                    return _opt_value_state(b, c.args[1])
                if c.name in NOCHANGE_ON_LEFT or not is_mut_ref:
                    continue
                return TOP
            if is_self_s(ctx, b, p) and is_mut_ref:
                lc = c.local_callee()
                if lc is not None and lc.path in self.summary:
                    return self.summ(lc.path, st)
                if lc is not None:
                    return TOP
                if c.name in ("core::mem::replace", "core::mem::swap", "core::mem::take"):
                    return TOP
                # &mut S handed to unknown code
                return TOP
        return st

    def flow(self, b, pre):
        ctx = self.ctx
        edges = left_test_edges(ctx, b)
        dead = set()
        if self.world is not None:
            from rules_protocol import _sizeof_guard_edges
            dead = {e for e, v in _sizeof_guard_edges(ctx, b).items() if v != self.world}
        st_in = {0: pre}
        st_out = {}
        work = [0]
        while work:
            bb = work.pop()
            cur = st_in.get(bb, BOT)
            out = self.transfer_block(b, bb, cur)
            st_out[bb] = out
            for s_ in b.succs(bb, unwind=True):
                if (bb, s_) in dead:
                    continue
                o = out
                t = b.term(bb)
                # unwind edge of a call: callee may have changed state arbitrarily per its summary; keep conservative
                if s_ not in b.succs(bb):
                    o = join(cur, out)
                r = edges.get((bb, s_))
                if r is not None and o != BOT:
                    # a refinement contradicting the state means the edge is infeasible under this entry state
                    if o in (N, S) and o != r:
                        continue
                    o = r
                new = join(st_in.get(s_, BOT), o)
                if new != st_in.get(s_, BOT):
                    st_in[s_] = new
                    work.append(s_)
        return st_in, st_out


def typestate(ctx):
    return ctx.memo("typestate", lambda: TypeState(ctx))


def typestate_world(ctx, world):
    """the same analysis for element types of size zero / non-zero only (a type's size is fixed per instantiation)"""
    return ctx.memo("typestate:" + world, lambda: TypeState(ctx, world))


# ---------------------------------------------------------------------------
# roles of bodies
# ---------------------------------------------------------------------------
def replacer_sites(ctx):
    """(body, Call) sites that put a *new* table into MAIN: mem::replace/swap on &mut MAIN, or assignment to MAIN"""
    def build():
        out = []
        for b in ctx.facts.bodies.values():
            for c in ctx.calls(b):
                if c.name in ("core::mem::replace", "core::mem::swap", "core::mem::take"):
                    p = c.arg_path(0)
                    _, p2 = ctx.resolve(b, p) if p is not None else (b, None)
                    if p2 is not None and ctx.roles.is_main_place(p2):
                        out.append((b, c.loc, c))
                    if c.name == "core::mem::swap":
                        p = c.arg_path(1)
                        _, p2 = ctx.resolve(b, p) if p is not None else (b, None)
                        if p2 is not None and ctx.roles.is_main_place(p2):
                            out.append((b, c.loc, c))
            for loc, st in b.all_assigns():
                if not st["place"]["proj"]:
                    continue
                p = b.expand(st["place"])
                if ctx.roles.is_main_place(p) and p.root != 0:
                    # plain overwrite of MAIN of an existing S (not the construction of a new S in the return place / a local)
                    if p.root >= 1 and p.root <= b.arg_count:
                        if _swap_of_empty_tables(ctx, b, loc, st):
                            ctx.memo("empty_swaps", list).append((b, loc))
                            continue      # an empty, unsplit map trades its empty table for another empty one: nothing is held, lost or owed
                        out.append((b, loc, None))
        return out
    return ctx.memo("replacer_sites", build)


def _edge_dominates(body, e, bb):
    return (e[1] == bb or e[1] in body.dom().get(bb, set())) and body.preds(e[1], True) == [e[0]]


def _swap_of_empty_tables(ctx, b, loc, st):
    """`self.MAIN = t` under the guard `t.len() == 0 && self.MAIN.len() == 0 && self.LEFT.is_none()` (any order, any spelling of the tests)"""
    rv = st["rv"]
    if rv["k"] != "use" or rv["op"]["k"] != "move" or rv["op"]["place"]["proj"]:
        return False
    newl = {rv["op"]["place"]["local"]}
    for _ in range(6):
        for l in list(newl):
            d0 = b.unique_def(l)
            if d0 is not None and d0[1] == "assign" and d0[2]["rv"]["k"] == "use" and d0[2]["rv"]["op"]["k"] == "move" and not d0[2]["rv"]["op"]["place"]["proj"]:
                newl.add(d0[2]["rv"]["op"]["place"]["local"])
    main_empty = new_empty = False
    for bb in b.reachable():
        t = b.term(bb)
        if t["k"] != "switch":
            continue
        d = b.source_def(t["discr"])
        if d is None:
            continue
        who, empty_if_true = None, None
        if d[1] == "assign" and d[2]["rv"]["k"] == "binop" and d[2]["rv"]["op"] in ("Eq", "Ne"):
            r_ = d[2]["rv"]
            for x, y in ((r_["a"], r_["b"]), (r_["b"], r_["a"])):
                if b.op_const(y) == 0:
                    sd = b.source_def(x)
                    if sd is not None and sd[1] == "call":
                        c = ctx.call_at(b, sd[0].bb)
                        if c.tname == HBT + "len":
                            who, empty_if_true = c.arg_path(0), (r_["op"] == "Eq")
        elif d[1] == "call":
            c = ctx.call_at(b, d[0].bb)
            if c.tname == HBT + "is_empty":
                who, empty_if_true = c.arg_path(0), True
        if who is None:
            continue
        edge_true = (bb, t["otherwise"])
        edge_false = [(bb, tb) for v, tb in t["targets"] if v == 0 and tb != t["otherwise"]]
        e = edge_true if empty_if_true else (edge_false[0] if edge_false else None)
        if e is None or not _edge_dominates(b, e, loc.bb):
            continue
        if ctx.role(b, who) == MAIN and is_self_s(ctx, b, ctx.roles.s_prefix(ctx.resolve(b, who)[1]) or who):
            main_empty = True
        elif who.strip_refs().root in newl and not who.fields():
            new_empty = True
    if not (main_empty and new_empty):
        return False
    return any(v == N and _edge_dominates(b, e, loc.bb) for e, v in left_test_edges(ctx, b, ignore_debug=False).items())


def installs_left(ctx):
    """(body, Loc) where LEFT := Some(..) of the self S (normal blocks only)"""
    def build():
        out = []
        for b in ctx.facts.bodies.values():
            for loc, st in b.all_assigns():
                if b.is_cleanup(loc.bb) or not st["place"]["proj"]:
                    continue
                p = b.expand(st["place"])
                if not ctx.roles.is_left_place(p):
                    continue
                rv = st["rv"]
                s_ = TOP
                if rv["k"] == "aggregate" and rv.get("adt") == "core::option::Option":
                    s_ = N if rv["variant"] == "None" else S
                elif rv["k"] == "use":
                    s_ = _opt_value_state(b, rv["op"])
                if s_ != N and p.root != 0 and 1 <= p.root <= b.arg_count:
                    out.append((b, loc))
        return out
    return ctx.memo("installs_left", build)


def cursor_yield_of(ctx, body, bucket_op):
    """If the raw bucket operand is (the payload of) what CURSOR.next() just yielded — directly or through `?` — return that next() Call."""
    bp = body.op_path(bucket_op)
    if bp is None:
        return None
    d = body.unique_def(bp.root)
    hops = 0
    while d is not None and d[1] == "call" and hops < 3:
        hops += 1
        y = ctx.call_at(body, d[0].bb)
        if y.tname == HBI + "next" and ctx.role(body, y.arg_path(0)) == CURSOR:
            return y
        if (y.name or "").endswith("Try::branch") and y.args:
            q = body.op_path(y.args[0])
            d = body.unique_def(q.root) if q is not None else None
            continue
        return None
    return None


def takers(ctx):
    """helper functions that take the next not-yet-moved element out of the old table and hand it to their caller:
    they poll the cursor, remove exactly the yielded bucket from OLD and return the removed value.  {path: dict(body, rem, yield)}"""
    def build():
        out = {}
        for body, c, role, recv in hb_calls(ctx):
            if c.tname != HBT + "remove" or role != OLD or body.kind == "Closure":
                continue
            y = cursor_yield_of(ctx, body, c.args[1])
            if y is None:
                continue
            # the removed value flows to the return value and is not inserted anywhere here
            flows = False
            for rb in body.return_blocks():
                ret_op = {"k": "copy", "place": {"local": 0, "proj": [], "ty": body.locals[0]["ty"]}}
                s, _ = body.slice_back(Loc(rb, len(body.stmts(rb))), [ret_op])
                if c.loc in s:
                    flows = True
            inserts = [c2 for c2 in ctx.calls(body) if c2.tname in (HBT + "insert_no_grow", HBT + "insert")]
            if flows and not inserts:
                out[body.path] = {"body": body, "rem": c, "yield": y}
        return out
    return ctx.memo("takers", build)


def full_test_switches(ctx, body):
    """{switch block: block entered when `MAIN.capacity() == MAIN.len()` holds} for the switches of this body that test exactly that"""
    out = {}
    for bb in body.reachable():
        t = body.term(bb)
        if t["k"] != "switch":
            continue
        d = body.source_def(t["discr"])
        if d is None or d[1] != "assign" or d[2]["rv"]["k"] != "binop" or d[2]["rv"]["op"] not in ("Eq", "Ne"):
            continue
        names = set()
        for o in (d[2]["rv"]["a"], d[2]["rv"]["b"]):
            sd = body.source_def(o)
            if sd is not None and sd[1] == "call":
                cc = ctx.call_at(body, sd[0].bb)
                if ctx.role(body, cc.arg_path(0)) == MAIN:
                    names.add(cc.tname)
        if names != {HBT + "capacity", HBT + "len"}:
            # `capacity() - len() == 0` (a `spare()` helper, inlined or called): the same test
            names = set()
            rvb = d[2]["rv"]
            for x_, y_ in ((rvb["a"], rvb["b"]), (rvb["b"], rvb["a"])):
                if body.op_const(y_) != 0:
                    continue
                sd = body.source_def(x_)
                hops = 0
                while sd is not None and sd[1] == "assign" and sd[2]["rv"]["k"] == "use" and sd[2]["rv"]["op"]["k"] in ("copy", "move") and hops < 3:
                    # `_x = move (_pair.0)` of an overflow-checked subtraction
                    pl_ = sd[2]["rv"]["op"]["place"]
                    sd = body.unique_def(pl_["local"]) if len(pl_["proj"]) == 1 and pl_["proj"][0]["k"] == "field" and pl_["proj"][0]["i"] == 0 else None
                    hops += 1
                sub = None
                if sd is not None and sd[1] == "assign" and sd[2]["rv"]["k"] == "binop" and sd[2]["rv"]["op"].startswith("Sub"):
                    sub = (sd[2]["rv"]["a"], sd[2]["rv"]["b"])
                elif sd is not None and sd[1] == "call":
                    # a private helper of the split table that returns exactly that difference
                    cs = ctx.call_at(body, sd[0].bb)
                    lc_ = cs.local_callee()
                    if lc_ is not None and lc_.kind != "Closure" and lc_.arg_count == 1 and cs.arg_path(0) is not None and is_self_s(ctx, body, cs.arg_path(0)) \
                            and not lc_.loops():
                        for loc2, st2 in lc_.all_assigns():
                            if st2["rv"]["k"] == "binop" and st2["rv"]["op"].startswith("Sub"):
                                n2 = []
                                for o2 in (st2["rv"]["a"], st2["rv"]["b"]):
                                    s2 = lc_.source_def(o2)
                                    if s2 is not None and s2[1] == "call":
                                        c2 = ctx.call_at(lc_, s2[0].bb)
                                        if ctx.role(lc_, c2.arg_path(0)) == MAIN and is_self_s(ctx, lc_, ctx.roles.s_prefix(c2.arg_path(0))):
                                            n2.append(c2.tname)
                                calls_ = [c3 for c3 in ctx.calls(lc_) if not lc_.is_cleanup(c3.loc.bb)]
                                if n2 == [HBT + "capacity", HBT + "len"] and len(calls_) == 2:
                                    names = {HBT + "capacity", HBT + "len"}
                if sub is not None:
                    n2 = []
                    for o2 in sub:
                        s2 = body.source_def(o2)
                        if s2 is not None and s2[1] == "call":
                            c2 = ctx.call_at(body, s2[0].bb)
                            if ctx.role(body, c2.arg_path(0)) == MAIN:
                                n2.append(c2.tname)
                    if n2 == [HBT + "capacity", HBT + "len"]:
                        names = {HBT + "capacity", HBT + "len"}
        if names == {HBT + "capacity", HBT + "len"}:
            zero = [tb for v, tb in t["targets"] if v == 0]
            if d[2]["rv"]["op"] == "Eq":
                out[bb] = t["otherwise"]
            elif zero:
                out[bb] = zero[0]
    return out


def reentry_guard(ctx, body, rec_bb):
    """the block entered when `MAIN.capacity() == MAIN.len()` holds, if that test dominates block rec_bb and rec_bb lies on its true edge"""
    for bb, tb in full_test_switches(ctx, body).items():
        if bb in body.dom().get(rec_bb, set()) and (tb in body.dom().get(rec_bb, set()) or tb == rec_bb) and body.preds(tb, True) == [bb]:
            return tb
    return None


def loop_bound(ctx, body, head, blocks):
    """Constant trip count of a natural loop: `for _ in a..b` (Range::next) or a counter `c = c0; while c < N { …; c += 1 }`.
    Returns dict(trip, exh=(from_bb, to_bb) the exit taken when the bound is reached, kind) or None."""
    # Range<usize>::next
    for x in blocks:
        t = body.term(x)
        if t["k"] != "call":
            continue
        c = ctx.call_at(body, x)
        if c.tname == "core::ops::Range::next" and c.target is not None:
            sw = body.term(c.target)
            exh = None
            if sw["k"] == "switch":
                for v, tb in sw["targets"]:
                    if v == 0:
                        exh = (c.target, tb)
            if exh is not None and exh[1] not in blocks:
                return {"trip": _range_trip(ctx, body, c), "exh": exh, "kind": "range", "next": c}
    # grow-until-there-is-room: `while MAIN.capacity() == MAIN.len() { ..grow(extra >= 1).. }`.  Every iteration installs a new, empty main
    # table with room for at least one element (S-grow: capacity >= len + extra), so the test fails the next time: one iteration.
    for x, full_t in full_test_switches(ctx, body).items():
        if x not in blocks or full_t not in blocks:
            continue
        exits = [s_ for s_ in body.succs(x) if s_ not in blocks]
        if len(exits) != 1:
            continue
        reps = {rb.path for rb, _, _ in replacer_sites(ctx)}
        grow_bbs = set()
        for c in ctx.calls(body):
            lc = c.local_callee()
            if c.loc.bb in blocks and lc is not None and is_self_s(ctx, body, c.arg_path(0)) \
                    and (lc.path in reps or any(p in reps for p in ctx.reachable_bodies(lc.path))) \
                    and any((body.op_const(a) or 0) >= 1 for a in c.args[1:]):
                grow_bbs.add(c.loc.bb)
        if not grow_bbs:
            continue
        # every way from the "full" edge back to the head passes such a call
        seen = set()
        st = [full_t]
        back = False
        while st:
            y = st.pop()
            if y in seen or y in grow_bbs or y not in blocks:
                continue
            seen.add(y)
            for s_ in body.succs(y):
                if s_ == head:
                    back = True
                st.append(s_)
        if back:
            continue
        return {"trip": 1, "exh": (x, exits[0]), "kind": "regrow", "next": None}
    # counted loop: a counter initialised to a constant outside the loop, changed by +1 / -1 exactly once per iteration, and compared
    # with a constant by the loop's exit test (`while c < N`, `loop { if budget == 0 { break } budget -= 1; .. }`)
    for x in blocks:
        t = body.term(x)
        if t["k"] != "switch":
            continue
        exits = [s_ for s_ in body.succs(x) if s_ not in blocks]
        inside = [s_ for s_ in body.succs(x) if s_ in blocks]
        if len(exits) != 1 or len(inside) != 1:
            continue
        d = body.source_def(t["discr"])
        if d is None or d[1] != "assign" or d[2]["rv"]["k"] != "binop" or d[2]["rv"]["op"] not in ("Lt", "Le", "Ne", "Gt", "Ge", "Eq"):
            continue
        rv = d[2]["rv"]
        a, b_ = rv["a"], rv["b"]
        op = rv["op"]
        if body.op_const(b_) is None and body.op_const(a) is not None:
            a, b_ = b_, a
            op = {"Lt": "Gt", "Gt": "Lt", "Le": "Ge", "Ge": "Le", "Ne": "Ne", "Eq": "Eq"}[op]
        N_ = body.op_const(b_)
        if N_ is None or a["k"] not in ("copy", "move") or a["place"]["proj"]:
            continue
        # truth value of the comparison on the edge that stays inside the loop
        true_t = t["otherwise"]
        zero_t = [tb for v, tb in t["targets"] if v == 0]
        if true_t in blocks and not (zero_t and zero_t[0] in blocks):
            stay_truth = True
        elif zero_t and zero_t[0] in blocks and true_t not in blocks:
            stay_truth = False
        else:
            continue
        # counter local: follow copies back to a multi-def local
        cl = a["place"]["local"]
        hops = 0
        while hops < 4:
            dd = body.unique_def(cl)
            if dd is not None and dd[1] == "assign" and dd[2]["rv"]["k"] == "use" and dd[2]["rv"]["op"]["k"] in ("copy", "move") and not dd[2]["rv"]["op"]["place"]["proj"]:
                cl = dd[2]["rv"]["op"]["place"]["local"]
                hops += 1
                continue
            break
        defs = [z for z in body.defs().get(cl, []) if z[1] == "assign" and not body.is_cleanup(z[0].bb)]
        outside = [z for z in defs if z[0].bb not in blocks]
        inner = [z for z in defs if z[0].bb in blocks]
        if len(outside) != 1 or len(inner) != 1 or len(defs) != len(body.defs().get(cl, [])):
            continue
        c0 = body.op_const(outside[0][2]["rv"]["op"]) if outside[0][2]["rv"]["k"] == "use" else None
        if c0 is None:
            continue
        # the inner definition is counter + 1 or counter - 1 (plain or overflow-checked)
        inc = inner[0][2]["rv"]
        step = None

        def step_of(rv2):
            if rv2["k"] != "binop":
                return None
            o2 = rv2["op"].replace("WithOverflow", "").replace("Unchecked", "")
            if o2 == "Add":
                for u, w in ((rv2["a"], rv2["b"]), (rv2["b"], rv2["a"])):
                    if body.op_const(w) == 1 and u["k"] in ("copy", "move") and not u["place"]["proj"] and u["place"]["local"] == cl:
                        return 1
            if o2 == "Sub":
                if body.op_const(rv2["b"]) == 1 and rv2["a"]["k"] in ("copy", "move") and not rv2["a"]["place"]["proj"] and rv2["a"]["place"]["local"] == cl:
                    return -1
            return None
        if inc["k"] == "use" and inc["op"]["k"] in ("copy", "move"):
            pl2 = inc["op"]["place"]
            if not pl2["proj"] or (len(pl2["proj"]) == 1 and pl2["proj"][0]["k"] == "field" and pl2["proj"][0]["i"] == 0):
                sd = body.unique_def(pl2["local"])
                if sd is not None and sd[1] == "assign":
                    step = step_of(sd[2]["rv"])
        else:
            step = step_of(inc)
        if step is None:
            continue
        # every trip around the loop passes the update
        inc_bb = inner[0][0].bb
        seen = set()
        st = [inside[0]]
        skipped = False
        while st:
            y = st.pop()
            if y in seen or y == inc_bb or y not in blocks:
                continue
            seen.add(y)
            for s_ in body.succs(y):
                if s_ == head:
                    skipped = True
                st.append(s_)
        if skipped:
            continue
        # the test is the first thing an iteration does: from the loop head only call-free straight-line blocks lead to it
        y, hops2, first = head, 0, True
        while y != x and hops2 < 6:
            ss = [s_ for s_ in body.succs(y) if s_ in blocks]
            if body.term(y)["k"] in ("call", "drop") or len(ss) != 1:
                first = False
                break
            y = ss[0]
            hops2 += 1
        if not first or y != x:
            continue
        cmpf = {"Lt": lambda v: v < N_, "Le": lambda v: v <= N_, "Ne": lambda v: v != N_, "Gt": lambda v: v > N_, "Ge": lambda v: v >= N_,
                "Eq": lambda v: v == N_}[op]
        # the test comes first in every iteration (the update lies on the way from the test back to the head): count how often it says "stay"
        v = c0
        trip = 0
        while cmpf(v) == stay_truth and trip <= 100000 and v >= 0:
            trip += 1
            v += step
        if trip > 100000:
            continue
        return {"trip": trip, "exh": (x, exits[0]), "kind": "counter", "next": None, "counter": cl, "cmp": (op, N_, stay_truth), "inc_bb": inc_bb}
    return None


def movers(ctx):
    """bodies that move elements OLD -> MAIN: {path: dict(rem=Call, ins=Call, bounded=dict or None, body)}.
    `rem` is the event that takes an element out of the old table: a hashbrown remove on OLD, or a call of a taker helper."""
    def build():
        out = {}
        tk = takers(ctx)
        for body in ctx.facts.bodies.values():
            rems = []
            for c in ctx.calls(body):
                if body.is_cleanup(c.loc.bb):
                    continue
                if c.tname == HBT + "remove" and ctx.role(body, c.arg_path(0)) == OLD and body.path not in tk:
                    rems.append(c)
                else:
                    lc = c.local_callee()
                    if lc is not None and lc.path in tk:
                        rems.append(c)
            if not rems:
                continue
            for c in rems:
                ins = None
                for c2 in ctx.calls(body):
                    if c2.tname in (HBT + "insert_no_grow", HBT + "insert") and ctx.role(body, c2.arg_path(0)) == MAIN and len(c2.args) > 2:
                        s, _ = body.slice_back(c2.loc, [c2.args[2]])
                        if c.loc in s:
                            ins = c2
                if ins is None:
                    continue
                info = {"rem": c, "ins": ins, "bounded": None, "body": body}
                for head, blocks in body.loops():
                    if c.loc.bb in blocks:
                        lb = loop_bound(ctx, body, head, blocks)
                        if lb is not None:
                            info["bounded"] = dict(lb, head=head, blocks=blocks)
                        else:
                            info["loop"] = {"head": head, "blocks": blocks}
                out[body.path] = info
        return out
    return ctx.memo("movers", build)


def _range_trip(ctx, body, next_call):
    """constant trip count of a `for _ in a..b` loop given its Range::next call, or None"""
    p = next_call.arg_path(0)
    if p is None:
        return None
    root = p.root
    # root local holds the Range (moved from into_iter result)
    d = body.unique_def(root)
    hops = 0
    while d is not None and hops < 6:
        hops += 1
        if d[1] == "call":
            c = ctx.call_at(body, d[0].bb)
            if c.method == "into_iter":
                d = body.source_def(c.args[0]) or (body.unique_def(c.args[0]["place"]["local"]) if c.args[0]["k"] in ("copy", "move") else None)
                continue
            return None
        rv = d[2]["rv"]
        if rv["k"] == "aggregate" and rv.get("adt") == "core::ops::Range":
            a, b_ = body.op_const(rv["ops"][0]), body.op_const(rv["ops"][1])
            if a is None or b_ is None:
                return None
            return max(0, b_ - a)
        if rv["k"] == "use":
            d = body.source_def(rv["op"])
            continue
        return None
    return None


def unbounded_movers(ctx):
    """paths of movers that are not bounded and end with LEFT = N on every normal return"""
    ts = typestate(ctx)
    out = set()
    for path, info in movers(ctx).items():
        if info["bounded"] is None and ts.summ(path, TOP) == N:
            out.add(path)
    return out


def bounded_movers(ctx):
    return {p for p, i in movers(ctx).items() if i["bounded"] is not None}


# ---------------------------------------------------------------------------
# rules
# ---------------------------------------------------------------------------
def rule_t_grow(ctx):
    R = RuleResult("T-grow", "a new main table is only installed when no old table is pending (never three tables, pending elements never discarded): "
                   "at every site that replaces MAIN, LEFT = None on all incoming paths, through all call chains")
    ts = typestate(ctx)
    sites = replacer_sites(ctx)
    req = {}   # body path -> reason
    hard = []
    for b, loc, c in sites:
        if self_s_prefix(ctx, b) is None:
            R.viol("%s:replace-MAIN:no-typestate" % b.path, b.where(loc), "MAIN is replaced in a body the typestate analysis does not cover")
            continue
        res = ts.results[b.path]
        stN = res[N][0].get(loc.bb, BOT)
        stT = res[TOP][0].get(loc.bb, BOT)
        R.inst(fn=b.path, site=b.where(loc), state_if_entered_unsplit=stN, state_if_entered_unknown=stT)
        if stN not in (N, BOT):
            hard.append((b, loc))
            R.viol("%s:replace-MAIN" % b.path, b.where(loc), "MAIN is replaced while an old table may be pending even when the function is entered unsplit (state %s)" % stN)
        elif stT not in (N, BOT):
            req[b.path] = "replaces MAIN at %s" % b.where(loc)
    # propagate requirements to callers
    changed = True
    checked = 0
    while changed:
        changed = False
        for b in ts.bodies:
            for c in ctx.calls(b):
                lc = c.local_callee()
                if lc is None or lc.path not in req:
                    continue
                if not is_self_s(ctx, b, c.arg_path(0)):
                    continue
                res = ts.results[b.path]
                stN = res[N][0].get(c.loc.bb, BOT)
                stT = res[TOP][0].get(c.loc.bb, BOT)
                if stN not in (N, BOT):
                    key = "%s:call:%s" % (b.path, lc.path)
                    if not any(v.key.endswith(key) for v in R.violations):
                        R.viol(key, c.where(), "%s requires LEFT = None (%s) but is called here with state %s even when %s is entered unsplit"
                               % (lc.path, req[lc.path], stN, b.path))
                elif stT not in (N, BOT):
                    if b.path not in req:
                        req[b.path] = "calls %s at %s" % (lc.path, c.where())
                        changed = True
    # call sites from bodies without typestate (holders: map.rs) of functions with a requirement
    for b in ctx.facts.bodies.values():
        for c in ctx.calls(b):
            lc = c.local_callee()
            if lc is None or lc.path not in req:
                continue
            checked += 1
            if self_s_prefix(ctx, b) is not None and b.kind != "Closure" and is_self_s(ctx, b, c.arg_path(0)):
                R.inst(fn=b.path, site=c.where(), callee=lc.path, requirement="LEFT = None", state=ts.results[b.path][TOP][0].get(c.loc.bb, BOT))
                continue
            R.viol("%s:call:%s" % (b.path, lc.path), c.where(), "%s requires LEFT = None (%s) and is called from a context where the state is unknown"
                   % (lc.path, req[lc.path]))
    R.notes.append("functions with entry requirement LEFT=None: %s" % sorted(req))
    R.floor(2, "replacer sites + requirement call sites")
    return R


def rule_t_assume(ctx):
    """non-debug assertions on LEFT: recorded; obligations are created for the size engine (S-full)."""
    R = RuleResult("T-assume", "run-time assertions about LEFT that exist in all profiles are recorded as assumptions (obligation S-full for the size rules)")
    for b in typestate(ctx).bodies:
        for bb in b.reachable():
            t = b.term(bb)
            if t["k"] != "call" or t.get("target") is not None:
                continue
            c = ctx.call_at(b, bb)
            if not (c.name or "").startswith("core::panicking::panic"):
                continue
            if not in_macro(t["span"], "assert") or in_macro(t["span"], "debug_assert"):
                continue
            # reached through a LEFT test edge?
            edges = left_test_edges(ctx, b)

            def leads_here(x, depth=0):
                """x is the panic block, or reaches it only through plain jumps and the construction of the panic message"""
                if x == bb:
                    return True
                if depth > 4:
                    return False
                tx = b.term(x)
                if tx["k"] == "goto":
                    return leads_here(tx["target"], depth + 1)
                if tx["k"] == "call" and tx.get("target") is not None and in_macro(tx["span"], "assert") and not in_macro(tx["span"], "debug_assert"):
                    cx = ctx.call_at(b, x)
                    if cx is not None and (cx.name or "").startswith("core::fmt::"):
                        return leads_here(tx["target"], depth + 1)
                return False
            for (x, s_), v in edges.items():
                if leads_here(s_):
                    R.inst(fn=b.path, site=c.where(), asserts="LEFT = %s" % ("N" if v == S else "S"))
    return R


def assumed_full_unsplit(ctx):
    """Does the tree assume 'MAIN full ⇒ LEFT = None' by an all-profile assertion?  list of (body, where)"""
    out = []
    for i in rule_t_assume(ctx).instances:
        if i["asserts"] == "LEFT = N":
            out.append((i["fn"], i["site"]))
    return out


def _must_pass(body, start_bbs, ok_bbs, ok_edges, stop_at_return=True):
    """Search a normal path from start blocks to a return that avoids ok blocks and ok edges.  Returns witness or None."""
    seen = set()
    st = [(s, [s]) for s in start_bbs]
    while st:
        x, path = st.pop()
        if x in seen:
            continue
        seen.add(x)
        if x in ok_bbs:
            continue
        t = body.term(x)
        if t["k"] == "return":
            return path
        for s_ in body.succs(x):
            if (x, s_) in ok_edges:
                continue
            st.append((s_, path + [s_]))
    return None


def _left_cleared_blocks(ctx, body):
    """blocks that set LEFT := None of the self S (take / assignment None)"""
    out = set()
    for c in ctx.calls(body):
        if c.name in (OPT + "take", "core::mem::take") and is_self_left(ctx, body, c.arg_path(0)):
            out.add(c.loc.bb)
    for loc, st in body.all_assigns():
        if st["place"]["proj"] and is_self_left(ctx, body, body.expand(st["place"])):
            rv = st["rv"]
            v = TOP
            if rv["k"] == "aggregate" and rv.get("adt") == "core::option::Option":
                v = N if rv["variant"] == "None" else S
            elif rv["k"] == "use":
                v = _opt_value_state(body, rv["op"])
            if v == N:
                out.add(loc.bb)
    return out


def _returns_old_is_empty(ctx, fb, depth=0):
    """does the function / closure return `OLD.len() == 0` (or OLD.is_empty()) of the old-table record it is given?"""
    for rb in fb.return_blocks():
        ok = False
        for d in fb.defs_reaching(Loc(rb, len(fb.stmts(rb))), 0):
            op0 = {"k": "copy", "place": {"local": 0, "proj": [], "ty": fb.locals[0]["ty"]}}
            src = d
            if d[3] == "assign" and d[4]["rv"]["k"] == "use":
                sd = fb.source_def(d[4]["rv"]["op"])
                if sd is not None:
                    src = (sd[0], None, None, sd[1], sd[2])
            if src[3] == "assign" and src[4]["rv"]["k"] == "binop" and src[4]["rv"]["op"] == "Eq":
                rv = src[4]["rv"]
                for x, y in ((rv["a"], rv["b"]), (rv["b"], rv["a"])):
                    if fb.op_const(y) == 0:
                        sd2 = fb.source_def(x)
                        if sd2 is not None and sd2[1] == "call":
                            c3 = ctx.call_at(fb, sd2[0].bb)
                            if c3.tname == HBT + "len" and ctx.role(fb, c3.arg_path(0)) == OLD:
                                ok = True
                            elif depth < 2 and c3.local_callee() is not None and _returns_old_len(ctx, c3.local_callee()):
                                ok = True
            elif src[3] == "call":
                c3 = ctx.call_at(fb, src[0].bb)
                if c3.tname == HBT + "is_empty" and ctx.role(fb, c3.arg_path(0)) == OLD:
                    ok = True
                elif depth < 2 and c3.local_callee() is not None and c3.local_callee().kind != "Closure":
                    ok = _returns_old_is_empty(ctx, c3.local_callee(), depth + 1)
        if not ok:
            return False
    return bool(fb.return_blocks())


def _returns_old_len(ctx, fb):
    """the function returns OLD.len() of the old-table record it is given"""
    for rb in fb.return_blocks():
        ok = False
        for d in fb.defs_reaching(Loc(rb, len(fb.stmts(rb))), 0):
            if d[3] == "call":
                c3 = ctx.call_at(fb, d[0].bb)
                if c3.tname == HBT + "len" and ctx.role(fb, c3.arg_path(0)) == OLD:
                    ok = True
        if not ok:
            return False
    return bool(fb.return_blocks())


def old_empty_edges(ctx, body):
    """{(bb, succ): True|False}: edges on which OLD.len() == 0 is known true / false"""
    out = {}
    for bb in body.reachable():
        t = body.term(bb)
        if t["k"] != "switch":
            continue
        d = body.source_def(t["discr"])
        if d is None:
            continue
        empty_if_true = None
        if d[1] == "assign" and d[2]["rv"]["k"] == "binop" and d[2]["rv"]["op"] in ("Eq", "Ne"):
            rv = d[2]["rv"]
            for x, y in ((rv["a"], rv["b"]), (rv["b"], rv["a"])):
                if body.op_const(y) == 0:
                    sd = body.source_def(x)
                    if sd is not None and sd[1] == "call":
                        c = ctx.call_at(body, sd[0].bb)
                        if c.tname == HBT + "len" and ctx.role(body, c.arg_path(0)) == OLD:
                            empty_if_true = (rv["op"] == "Eq")
                        else:
                            # `self.pending_moves() == 0`: no old table, or an empty one — nothing is waiting in it either way
                            lc_ = c.local_callee()
                            if lc_ is not None and c.arg_path(0) is not None and is_self_s(ctx, body, c.arg_path(0)):
                                from rules_size import _pending_len_fns
                                if lc_.path in _pending_len_fns(ctx):
                                    empty_if_true = (rv["op"] == "Eq")
        elif d[1] == "call":
            c = ctx.call_at(body, d[0].bb)
            if c.tname == HBT + "is_empty" and ctx.role(body, c.arg_path(0)) == OLD:
                empty_if_true = True
            elif c.name in (OPT + "is_some_and", OPT + "map_or", OPT + "is_none_or") and (c.closure_args() or c.fn_value_args()):
                # LEFT.as_ref().is_some_and(|lo| lo.table.len() == 0): true => pending and empty; false => not pending, or not empty ("NE")
                src_ok = False
                sd = body.source_def(c.args[0])
                if sd is not None and sd[1] == "call":
                    sc = ctx.call_at(body, sd[0].bb)
                    if sc.name in (OPT + "as_ref", OPT + "as_mut") and sc.arg_path(0) is not None and ctx.roles.is_left_place(sc.arg_path(0)):
                        src_ok = True
                elif c.arg_path(0) is not None and ctx.roles.is_left_place(c.arg_path(0)):
                    src_ok = True
                default_false = c.name == OPT + "is_some_and" or (c.name == OPT + "map_or" and body.op_const(c.args[1]) == 0)
                cb = (c.closure_args() + c.fn_value_args())[0]
                clo_empty = _returns_old_is_empty(ctx, cb)
                if src_ok and default_false and clo_empty:
                    for v, tb in t["targets"]:
                        if tb != t["otherwise"] and v == 0:
                            out[(bb, tb)] = "NE"
                    out[(bb, t["otherwise"])] = True
                continue
        if empty_if_true is None:
            continue
        for v, tb in t["targets"]:
            if tb != t["otherwise"] and v == 0:
                out[(bb, tb)] = not empty_if_true
        out[(bb, t["otherwise"])] = empty_if_true
    # a flag that remembers the test: `let mut drop = false; if old.len() == 0 { drop = true } .. if drop { .. }` — every `true` it is ever
    # given is given on an edge where the old table was found empty, and nothing touches the tables between there and the test of the flag
    direct = dict(out)
    if True:
        from rules_protocol import between_blocks
        for bb in body.reachable():
            t = body.term(bb)
            if t["k"] != "switch" or (bb, t["otherwise"]) in out or body.is_cleanup(bb) or t["discr"]["k"] not in ("copy", "move") or t["discr"]["place"]["proj"]:
                continue
            f = t["discr"]["place"]["local"]
            hops = 0
            while hops < 6:
                ds = [x for x in body.defs().get(f, []) if x[1] in ("assign", "call") and not body.is_cleanup(x[0].bb)]
                if len(ds) == 1 and ds[0][1] == "assign" and ds[0][2]["rv"]["k"] == "use" and ds[0][2]["rv"]["op"]["k"] in ("copy", "move") \
                        and not ds[0][2]["rv"]["op"]["place"]["proj"]:
                    f = ds[0][2]["rv"]["op"]["place"]["local"]
                    hops += 1
                    continue
                break
            if f == 0 or 1 <= f <= body.arg_count or ctx.facts.types[body.locals[f]["ty"]].get("s") != "bool":
                continue
            ds = [x for x in body.defs().get(f, []) if not body.is_cleanup(x[0].bb)]

            def is_empty_cmp(rv_):
                """the right-hand side is itself `old.len() == 0` / `self.pending() == 0` (the `b` of `a && b`)"""
                if rv_["k"] != "binop" or rv_["op"] != "Eq":
                    return False
                for x_, y_ in ((rv_["a"], rv_["b"]), (rv_["b"], rv_["a"])):
                    if body.op_const(y_) == 0:
                        sd_ = body.source_def(x_)
                        if sd_ is not None and sd_[1] == "call":
                            c_ = ctx.call_at(body, sd_[0].bb)
                            if c_.tname == HBT + "len" and ctx.role(body, c_.arg_path(0)) == OLD:
                                return True
                            lc_ = c_.local_callee()
                            if lc_ is not None and c_.arg_path(0) is not None and is_self_s(ctx, body, c_.arg_path(0)):
                                from rules_size import _pending_len_fns
                                if lc_.path in _pending_len_fns(ctx):
                                    return True
                return False
            if len(ds) < 2 or any(x[1] != "assign" for x in ds):
                continue
            consts = [x for x in ds if x[2]["rv"]["k"] == "use" and x[2]["rv"]["op"]["k"] == "const"]
            cmps = [x for x in ds if x not in consts and is_empty_cmp(x[2]["rv"])]
            if len(consts) + len(cmps) != len(ds):
                continue
            trues = [x for x in consts if x[2]["rv"]["op"].get("val") == 1]
            if (not trues and not cmps) or len(trues) == len(ds):
                continue
            ok = True
            for x in trues:
                xb = x[0].bb
                if not any(v is True and (e[1] == xb or e[1] in body.dom().get(xb, set())) and body.preds(e[1], True) == [e[0]] for e, v in direct.items()):
                    ok = False
                    break
            # a flag that is given the comparison itself is true only where the old table was empty
            for x in (trues + cmps) if ok else []:
                xb = x[0].bb
                for y in between_blocks(body, xb, bb) | {xb}:
                    ty_ = body.term(y)
                    if ty_["k"] == "call" and not body.is_cleanup(y):
                        cy = ctx.call_at(body, y)
                        for i_, a_ in enumerate(cy.args):
                            if a_["k"] in ("copy", "move"):
                                at_ = ctx.facts.types[a_["place"]["ty"]]
                                q_ = cy.arg_path(i_)
                                if at_.get("k") == "ref" and at_.get("mut") and q_ is not None and (is_self_s(ctx, body, q_) or ctx.role(body, q_) in (MAIN, OLD, LEFT, CURSOR)):
                                    ok = False
            if ok:
                out[(bb, t["otherwise"])] = True
    return out


def rule_t_mover(ctx):
    R = RuleResult("T-mover", "the bounded mover moves exactly one element per iteration of a constant-bound loop and frees the old table when it "
                   "runs out of elements (early exit) or finds it empty after the loop; the unbounded mover always ends unsplit")
    ts = typestate(ctx)
    mv = movers(ctx)
    nb = 0
    for path, info in mv.items():
        body = info["body"]
        if info["bounded"] is None:
            post = ts.summ(path, TOP)
            R.inst(fn=path, kind="unbounded mover", post=post)
            if post != N:
                R.viol("%s:unbounded:post" % path, body.where(info["rem"].loc), "an unbounded mover may return with an old table still pending (post-state %s)" % post)
            continue
        nb += 1
        bd = info["bounded"]
        blocks = bd["blocks"]
        exh = bd["exh"]
        loop_where = body.where(Loc(exh[0], len(body.stmts(exh[0]))))
        cleared = _left_cleared_blocks(ctx, body)
        # (a) every other exit reaches return only through LEFT := None
        for x in blocks:
            for s_ in body.succs(x):
                if s_ in blocks or (x, s_) == exh:
                    continue
                if body.term(s_)["k"] == "unreachable":
                    continue
                guard_edges = set()
                if bd.get("kind") == "counter" and bd.get("counter") is not None:
                    # leaving a counted loop from inside an iteration that has not yet counted itself: the loop's own test (`moved < R`) still holds,
                    # so a later test of the same counter against the same constant (`if moved < R || .. { free }`) goes the same way
                    inc_bb = bd["inc_bb"]
                    counted = x == inc_bb or x in body.reach_from(body.succs(inc_bb), stop={bd["head"]})
                    cl_, (op_, N__, stay_) = bd["counter"], bd["cmp"]
                    if not counted:
                        for y in body.reach_from([s_]):
                            ty = body.term(y)
                            if ty["k"] != "switch" or y in blocks:
                                continue
                            dy = body.source_def(ty["discr"])
                            if dy is None or dy[1] != "assign" or dy[2]["rv"]["k"] != "binop":
                                continue
                            rvy = dy[2]["rv"]
                            a_, b2_, opy = rvy["a"], rvy["b"], rvy["op"]
                            if body.op_const(b2_) is None and body.op_const(a_) is not None:
                                a_, b2_ = b2_, a_
                                opy = {"Lt": "Gt", "Gt": "Lt", "Le": "Ge", "Ge": "Le", "Ne": "Ne", "Eq": "Eq"}.get(opy)
                            if opy != op_ or body.op_const(b2_) != N__ or a_["k"] not in ("copy", "move") or a_["place"]["proj"]:
                                continue
                            la = a_["place"]["local"]
                            hops = 0
                            while la != cl_ and hops < 4:
                                dd = body.unique_def(la)
                                if dd is not None and dd[1] == "assign" and dd[2]["rv"]["k"] == "use" and dd[2]["rv"]["op"]["k"] in ("copy", "move") \
                                        and not dd[2]["rv"]["op"]["place"]["proj"]:
                                    la = dd[2]["rv"]["op"]["place"]["local"]
                                    hops += 1
                                    continue
                                break
                            if la != cl_:
                                continue
                            zero = [tb for v, tb in ty["targets"] if v == 0]
                            false_edge = (y, zero[0]) if zero else None
                            true_edge = (y, ty["otherwise"])
                            dead = false_edge if stay_ else true_edge
                            if dead is not None:
                                guard_edges.add(dead)
                w = _must_pass(body, [s_], cleared, guard_edges)
                if w is not None:
                    R.viol("%s:bounded:early-exit" % path, body.where(Loc(x, len(body.stmts(x)))),
                           "the bounded mover leaves its loop early (bb%d -> bb%d) and returns (path %s) without having moved the full batch "
                           "and without freeing the old table" % (x, s_, w))
        # (a') the loop is not bypassed: a path from the entry to a return that never enters the loop is one on which no old table is pending
        #      (or frees it) — a mover that bails out for another reason leaves an old table behind that it was called to work off
        n_edges = {e for e, v in left_test_edges(ctx, body, ignore_debug=False).items() if v == N}
        w = _must_pass(body, [0], set(blocks) | cleared, n_edges)
        if w is not None:
            R.viol("%s:bounded:bypass" % path, body.where(Loc(w[-1], 0)),
                   "the bounded mover can return (path %s) without entering its loop although an old table may be pending: that call moves nothing, and an "
                   "old table that is already empty is not freed" % w)
        # (b) after exhaustion: empty test whose empty edge frees
        ee = old_empty_edges(ctx, body)
        ok_edges = set()
        for (x, s_), is_empty in ee.items():
            if is_empty is True:
                if _must_pass(body, [s_], cleared, set()) is None:
                    # the empty edge frees: then the complementary (non-empty) edge is a legitimate way on
                    for (x2, s2), e2 in ee.items():
                        if x2 == x and e2 is not True:
                            ok_edges.add((x2, s2))
        ok_edges |= n_edges       # an edge on which no old table is pending: nothing left to test or free
        w = _must_pass(body, [exh[1]], cleared, ok_edges)
        if w is not None:
            R.viol("%s:bounded:post-loop-empty-check" % path, body.where(Loc(exh[0], 0)),
                   "after its loop the bounded mover can return (path %s) without testing whether the old table is now empty and freeing it" % w)
        # (c) one move per iteration: every trip around the loop passes the removal and the insertion
        head = bd["head"]
        some_targets = [s_ for s_ in body.succs(exh[0]) if s_ in blocks] if bd["kind"] == "counter" else \
            [tb for v, tb in body.term(exh[0])["targets"] if v == 1]
        for st_bb in some_targets:
            for must in (info["rem"].loc.bb, info["ins"].loc.bb):
                # path from st_bb to head avoiding `must`, staying inside loop
                seen = set()
                stack = [st_bb]
                found = False
                while stack:
                    x = stack.pop()
                    if x in seen or x == must or x not in blocks:
                        continue
                    seen.add(x)
                    for s_ in body.succs(x):
                        if s_ == head:
                            found = True
                        stack.append(s_)
                if found:
                    R.viol("%s:bounded:iteration-without-move" % path, body.where(Loc(st_bb, 0)),
                           "an iteration of the bounded mover can complete without %s" % ("removing from the old table" if must == info["rem"].loc.bb else "inserting into the main table"))
        # exactly one REM/insert per iteration: no second removal site in the loop
        tk = takers(ctx)
        rems = [c for c in ctx.calls(body) if c.loc.bb in blocks and ((c.tname in (HBT + "remove", HBT + "erase") and ctx.role(body, c.arg_path(0)) == OLD)
                                                                     or (c.local_callee() is not None and c.local_callee().path in tk))]
        if len(rems) != 1:
            R.viol("%s:bounded:moves-per-iteration" % path, body.where(info["rem"].loc), "%d removals from the old table per iteration" % len(rems))
        # loop must not be nested in another loop
        outer = [h for h, bl in body.loops() if h != head and blocks <= bl]
        if outer:
            R.viol("%s:bounded:nested" % path, loop_where, "the bounded loop is nested inside another loop")
        Rc = ctx.batch_const()
        R.inst(fn=path, kind="bounded mover", trip=bd["trip"], R=Rc, exhaustion_exit="bb%d->bb%d" % exh)
        if bd["trip"] is None:
            R.viol("%s:bounded:trip" % path, loop_where, "loop bound is not a compile-time constant")
        elif Rc is not None and bd["trip"] != Rc:
            R.viol("%s:bounded:trip-vs-R" % path, loop_where, "the bounded mover runs %s iterations but the size formulas assume batches of R = %s" % (bd["trip"], Rc))
    if nb != 1:
        R.anchor("bounded-mover", "expected exactly one bounded mover, found %d" % nb)
    if len(mv) - nb < 1:
        R.anchor("unbounded-mover", "expected an unbounded mover")
    return R


def rule_t_free(ctx):
    R = RuleResult("T-free", "a removal that hands an old-table element back to the caller frees the old table when that was its last element; the split "
                   "table's removals that do not (erase, replace_bucket_with) are reached only from retain and replace_entry_with; clear and drain drop the "
                   "old table on every path, at every layer")
    for body, c, role, recv in hb_calls(ctx):
        if c.tname != HBT + "remove" or role != OLD or body.path in movers(ctx):
            continue
        if cursor_yield_of(ctx, body, c.args[1]) is not None:
            continue     # a mover step (the cursor's own element): freeing is T-mover's business
        cleared = _left_cleared_blocks(ctx, body)
        ee = old_empty_edges(ctx, body)
        ok_edges = set()
        for (x, s_), is_empty in ee.items():
            if is_empty is True and _must_pass(body, [s_], cleared, set()) is None:
                for (x2, s2), e2 in ee.items():
                    if x2 == x and e2 is not True:
                        ok_edges.add((x2, s2))
        # an edge on which the pending-resize field tests as None is either infeasible here (an element was just removed from the old
        # table, so there is one) or the old table is gone already: nothing left to free
        ok_edges |= {e for e, v in left_test_edges(ctx, body).items() if v == N}
        w = _must_pass(body, [c.target], cleared, ok_edges)
        R.inst(fn=body.path, site=c.where(), verdict="frees when empty" if w is None else "VIOLATION")
        if w is None:
            continue
        R.viol("%s:%s:no-free" % (body.path, c.tname), c.where(),
               "after removing an element from the old table the function can return (path %s) without testing whether the old table "
               "is now empty and freeing it" % w)
    R.floor(1, "returning removals from OLD")
    # the removals that do NOT free an emptied old table (the split table's `erase` and `replace_bucket_with`) are for the two operations the
    # property names as leaving it to the next key-adding call: `retain` and `replace_entry_with`.  Every other public operation that takes an
    # element out (remove, take, entry removal, the draining iterators' step and destructor) must go through the freeing `remove`.
    T = ctx.facts.types
    S_ = ctx.roles.S
    nonfree = {}
    for body, c, role, recv in hb_calls(ctx):
        if role == OLD and c.tname in (HBT + "erase", HBT + "replace_bucket_with", HBT + "erase_no_drop") and "self_ty" in ctx.facts.closure_parent(body).raw:
            own = ctx.facts.closure_parent(body)
            if T[own.raw["self_ty"]].get("adt") == S_ and own.path not in movers(ctx):
                nonfree[own.path] = c.tname
    if len(nonfree) < 2:
        R.anchor("non-freeing removals", "expected the split table's erase and replace_bucket_with, found %s" % sorted(nonfree))
    rev = {}
    for a, bs in ctx.call_graph().items():
        for b_ in bs:
            rev.setdefault(b_, set()).add(a)
    ALLOWED = ("retain", "replace_entry_with")
    nsite = 0
    for nf, what in sorted(nonfree.items()):
        tops, seen, work = set(), set(), [nf]
        while work:
            x = work.pop()
            for y in rev.get(x, ()):
                if y in seen:
                    continue
                seen.add(y)
                by = ctx.facts.bodies.get(y)
                if by is None:
                    continue
                oy = ctx.facts.closure_parent(by)
                if by.kind == "Closure":
                    work.append(y)
                    continue
                if oy.raw.get("exported") or oy.raw.get("trait") or (oy.raw.get("vis") == "pub"):
                    tops.add(oy.path)
                else:
                    work.append(y)
        for tp in sorted(tops):
            nsite += 1
            name = ctx.facts.bodies[tp].name
            ok = name in ALLOWED
            R.inst(fn=tp, reaches=nf, verdict="ok: documented not to free" if ok else "VIOLATION")
            if not ok:
                R.viol("%s:non-freeing:%s" % (tp, nf.rsplit("::", 1)[-1]), ctx.facts.bodies[tp].where(Loc(0, 0)),
                       "%s takes elements out through %s (%s), which never frees an old table it has emptied; only retain and replace_entry_with may leave "
                       "that to the next key-adding call — a removal must go through the split table's `remove`" % (tp, nf, what))
    if nsite < 2:
        R.anchor("non-freeing callers", "expected retain and replace_entry_with as callers of the non-freeing removals, found %d" % nsite)
    # `clear` and `drain` are two of the three events the property names as releasing an old table that was emptied without being freed: at every
    # layer (split table, map, set) every path through them drops the old table — also when the collection happens to be empty
    holders = set(ctx.roles.holders) | {S_}
    for adt_, a in ctx.facts.adts.items():
        if a.get("kind") == "Struct" and any(T[f["ty"]].get("adt") in ctx.roles.holders for v in a["variants"] for f in v["fields"]):
            holders.add(adt_)
    memo = {}

    def frees(fb, depth=0):
        if fb.path in memo:
            return memo[fb.path]
        memo[fb.path] = False
        done = set(_left_cleared_blocks(ctx, fb))
        if depth < 4:
            for c in ctx.calls(fb):
                lc = c.local_callee()
                if lc is not None and lc.kind != "Closure" and not fb.is_cleanup(c.loc.bb) and lc.path != fb.path and lc.name in ("clear", "drain") \
                        and c.arg_path(0) is not None and c.arg_path(0).strip_refs().root == 1 and frees(lc, depth + 1):
                    done.add(c.loc.bb)
        w = _must_pass(fb, [0], done, set()) if done else [0]
        memo[fb.path] = w is None
        if w is not None:
            memo[fb.path + "#w"] = w
        return memo[fb.path]
    nclr = 0
    for fb in ctx.facts.bodies.values():
        if fb.kind == "Closure" or fb.name not in ("clear", "drain") or "self_ty" not in fb.raw or fb.raw.get("trait"):
            continue
        st = T[fb.raw["self_ty"]]
        if st.get("adt") not in holders:
            continue
        nclr += 1
        ok = frees(fb)
        R.inst(fn=fb.path, check="drops the old table on every path", verdict="ok" if ok else "VIOLATION")
        if not ok:
            w = memo.get(fb.path + "#w", [0])
            R.viol("%s:keeps-old-table" % fb.path, fb.where(Loc(w[-1], 0)), "%s can return (path %s) without dropping the old table: an old table emptied by retain / "
                   "replace_entry_with stays allocated although clear and drain are named as the calls that release it" % (fb.path, " -> ".join("bb%d" % x for x in w)))
    if nclr < 4:
        R.anchor("clear/drain", "expected clear and drain of the split table, the map and the set, found %d" % nclr)
    return R


def carry_if_split_fns(ctx):
    """methods of S that, on every path to a normal return, either find LEFT = None or run the bounded mover (helpers wrapping the carry)"""
    def build():
        out = set(bounded_movers(ctx))
        changed = True
        while changed:
            changed = False
            for b in typestate(ctx).bodies:
                if b.path in out:
                    continue
                edges = left_test_edges(ctx, b)
                ok_edges = {e for e, v in edges.items() if v == N}
                ok_bbs = set()
                for c2 in ctx.calls(b):
                    lc = c2.local_callee()
                    if lc is not None and lc.path in out and is_self_s(ctx, b, c2.arg_path(0)):
                        ok_bbs.add(c2.loc.bb)
                if not ok_bbs:
                    continue
                if _must_pass(b, [0], ok_bbs, ok_edges) is None:
                    out.add(b.path)
                    changed = True
        return out
    return ctx.memo("carry_if_split", build)


def rule_m_carry(ctx):
    R = RuleResult("M-carry", "every insertion of a user element into the main table is followed, on every path to a normal return, by the bounded "
                   "mover when an old table is pending; nothing else inserts user elements into MAIN")
    mv = movers(ctx)
    bounded = bounded_movers(ctx)
    from rules_clone import copiers
    cops = copiers(ctx)
    n = 0
    for body, c, role, recv in hb_calls(ctx):
        if c.tname not in (HBT + "insert_no_grow", HBT + "insert", HBT + "insert_entry", HBT + "insert_in_slot") or role != MAIN:
            continue
        if body.path in mv and mv[body.path]["ins"].loc == c.loc:
            continue
        if body.path in cops:
            continue
        n += 1
        sp = ctx.roles.s_prefix(recv)
        if self_s_prefix(ctx, body) is None or sp is None or not is_self_s(ctx, body, sp):
            R.viol("%s:%s:foreign" % (body.path, c.tname), c.where(), "user insertion into MAIN from a body that is not a method of the split table")
            continue
        carriers = carry_if_split_fns(ctx)
        edges = left_test_edges(ctx, body)
        ok_edges = {e for e, v in edges.items() if v == N}
        ok_bbs = set()
        for c2 in ctx.calls(body):
            lc = c2.local_callee()
            if lc is not None and (lc.path in carriers) and is_self_s(ctx, body, c2.arg_path(0)):
                ok_bbs.add(c2.loc.bb)
        w = _must_pass(body, [c.target], ok_bbs, ok_edges)
        R.inst(fn=body.path, site=c.where(), op=c.tname, verdict="carry follows" if w is None else "VIOLATION")
        if w is not None:
            R.viol("%s:%s:no-carry" % (body.path, c.tname), c.where(),
                   "after inserting a user element into MAIN the function can return (path %s) without running the bounded mover although an old table may be pending" % w)
    if n < 1:
        R.anchor("user-insertion", "no user insertion into MAIN found")
    return R
