"""E7 — TAINT: unbounded sizes (public usize parameters, user iterators' size hints) must not reach wrapping arithmetic."""
from core import Loc
from engine import RuleResult


def is_int(ctx, tid):
    return ctx.facts.types[tid].get("k") == "int"


def ty_has_int(ctx, tid, depth=0):
    t = ctx.facts.types[tid]
    if t.get("k") == "int":
        return True
    if depth > 3:
        return False
    for key in ("args", "elems"):
        for x in t.get(key, []):
            if ty_has_int(ctx, x, depth + 1):
                return True
    return False


SANITISE_RESULT = {"core::num::checked_add", "core::num::checked_mul", "core::num::checked_sub"}


class Taint:
    def __init__(self, ctx):
        self.ctx = ctx
        self.param_taint = {}      # body path -> set(local idx) with reason
        self.ret_taint = {}        # body path -> reason or None
        self.local_taint = {}      # body path -> {local: reason}
        self._init_sources()
        self._fix()

    def _init_sources(self):
        ctx = self.ctx
        for b in ctx.facts.bodies.values():
            self.param_taint[b.path] = {}
            if b.kind == "Closure":
                continue
            if b.raw.get("reachable") or b.raw.get("exported"):
                for l in range(1, b.arg_count + 1):
                    if is_int(ctx, b.locals[l]["ty"]) and ctx.facts.types[b.locals[l]["ty"]]["s"] in ("usize", "isize", "u64", "u128", "i64"):
                        self.param_taint[b.path][l] = "parameter `%s` of public fn %s" % (b.local_name(l), b.path)

    def op_taint(self, b, lt, op):
        if op["k"] in ("copy", "move"):
            return lt.get(op["place"]["local"])
        return None

    def flow_body(self, b):
        ctx = self.ctx
        lt = dict(self.param_taint[b.path])
        changed_any = False
        changed = True
        rounds = 0
        while changed and rounds < 50:
            changed = False
            rounds += 1
            for bb in sorted(b.reachable()):
                for st in b.stmts(bb):
                    if st["k"] != "assign":
                        continue
                    dst = st["place"]["local"]
                    rv = st["rv"]
                    src = None
                    k = rv["k"]
                    if k in ("use", "cast"):
                        src = self.op_taint(b, lt, rv["op"])
                    elif k == "binop":
                        op = rv["op"]
                        if op in ("Eq", "Ne", "Lt", "Le", "Gt", "Ge", "Cmp"):
                            src = None
                        elif op in ("Div", "Rem", "Shr", "BitAnd"):
                            # result bounded by the left operand only
                            src = self.op_taint(b, lt, rv["a"])
                        else:
                            src = self.op_taint(b, lt, rv["a"]) or self.op_taint(b, lt, rv["b"])
                    elif k == "aggregate":
                        for o in rv["ops"]:
                            src = src or self.op_taint(b, lt, o)
                    elif k in ("ref", "copy_for_deref"):
                        src = lt.get(rv["place"]["local"])
                    if src and dst not in lt:
                        lt[dst] = src
                        changed = True
                t = b.term(bb)
                if t["k"] == "call":
                    c = ctx.call_at(b, bb)
                    lc = c.local_callee()
                    if lc is not None:
                        # push argument taint into callee params
                        for i, a in enumerate(c.args):
                            ta = self.op_taint(b, lt, a)
                            if ta and (i + 1) <= lc.arg_count and (i + 1) not in self.param_taint[lc.path] and is_int(ctx, lc.locals[i + 1]["ty"]):
                                self.param_taint[lc.path][i + 1] = ta + " -> " + lc.path
                                changed_any = True
                    # the capacity of a standard container is not a count of anything: for zero-sized elements it is usize::MAX
                    capfn = [a for a in c.args if a["k"] == "const" and a.get("fn") and a["fn"].endswith("::capacity")
                             and not a["fn"].startswith(ctx.facts.crate + "::")]
                    if ((c.method == "capacity" and lc is None and not (c.name or "").startswith(("hashbrown::", ctx.facts.crate + "::"))) or capfn) \
                            and "dest" in t and t["dest"]["local"] not in lt:
                        lt[t["dest"]["local"]] = "capacity() of a standard container (usize::MAX when the element type is zero-sized) @ %s" % c.where()
                        changed = True
                    if "dest" in t and ty_has_int(ctx, t["dest"]["ty"]):
                        dst = t["dest"]["local"]
                        src = None
                        if c.unresolved:
                            src = "result of user-supplied %s @ %s" % (c.tname, c.where())
                            # a hasher / Fn closure returning u64 is not a size
                            if ctx.facts.types[t["dest"]["ty"]]["s"] == "u64":
                                src = None
                        elif lc is not None:
                            src = self.ret_taint.get(lc.path)
                        else:
                            nm = c.name or ""
                            if nm.startswith("core::num::") and c.method in ("checked_add", "checked_sub", "checked_mul"):
                                src = None
                            elif c.method == "min" and any(b.op_const(a) is not None for a in c.args):
                                src = None
                            elif nm.startswith("hashbrown::"):
                                src = None
                            else:
                                for a in c.args:
                                    src = src or self.op_taint(b, lt, a)
                        if src and dst not in lt:
                            lt[dst] = src
                            changed = True
        old = self.local_taint.get(b.path)
        self.local_taint[b.path] = lt
        rt = lt.get(0)
        if rt != self.ret_taint.get(b.path) and rt and not self.ret_taint.get(b.path):
            self.ret_taint[b.path] = rt
            changed_any = True
        return changed_any or (old is None)

    def _fix(self):
        rounds = 0
        again = True
        while again and rounds < 20:
            again = False
            rounds += 1
            for b in self.ctx.facts.bodies.values():
                if self.flow_body(b):
                    again = True
            if rounds == 1:
                again = True


def describe(ctx, b, op, depth=0):
    """line-independent description of an operand"""
    if op["k"] == "const":
        return str(op.get("val", op.get("text")))
    if op["k"] not in ("copy", "move"):
        return "?"
    pl = op["place"]
    l = pl["local"]
    if l in b.var_names and not pl["proj"]:
        return b.var_names[l]
    if depth > 4:
        return "_"
    d = b.unique_def(l)
    if d is None:
        return b.var_names.get(l, "_")
    suffix = "".join("." + str(e.get("name", e.get("i"))) for e in pl["proj"] if e["k"] == "field")
    if d[1] == "call":
        c = ctx.call_at(b, d[0].bb)
        return "%s()%s" % (c.method or "call", suffix)
    rv = d[2]["rv"]
    if rv["k"] == "use" or rv["k"] == "cast":
        return describe(ctx, b, rv["op"], depth + 1) + suffix
    if rv["k"] == "binop":
        return "%s(%s,%s)%s" % (rv["op"].replace("WithOverflow", ""), describe(ctx, b, rv["a"], depth + 1), describe(ctx, b, rv["b"], depth + 1), suffix)
    return "_" + suffix


def overflow_sites(ctx, facts=None):
    """all arithmetic that is overflow-checked in this configuration: (body, bb, op, a, b)"""
    f = facts or ctx.facts
    for b in f.bodies.values():
        for bb in sorted(b.reachable()):
            t = b.term(bb)
            if t["k"] == "assert" and t["msg"] == "overflow":
                yield b, bb, t["msg_ops"][0], t["msg_ops"][1], t["msg_ops"][2]


def _const_val(b, op, depth=0):
    """value of an operand that is a constant or constant arithmetic (`R + 1` is a checked Add of two constants in MIR), else None"""
    k = b.op_const(op)
    if k is not None or depth > 4 or op["k"] not in ("copy", "move"):
        return k
    d = b.unique_def(op["place"]["local"])
    hops = 0
    while d is not None and d[1] == "assign" and d[2]["rv"]["k"] == "use" and d[2]["rv"]["op"]["k"] in ("copy", "move") and hops < 4:
        d = b.unique_def(d[2]["rv"]["op"]["place"]["local"])
        hops += 1
    if d is not None and d[1] == "assign" and d[2]["rv"]["k"] == "binop":
        rv = d[2]["rv"]
        x, y = _const_val(b, rv["a"], depth + 1), _const_val(b, rv["b"], depth + 1)
        if x is not None and y is not None:
            if rv["op"].startswith("Add"):
                return x + y
            if rv["op"].startswith("Mul"):
                return x * y
            if rv["op"].startswith("Sub") and x >= y:
                return x - y
    return None


def _sub_cannot_underflow(ctx, b, bb, a, c_):
    """reason why `a - c_` at the overflow check in bb cannot underflow, or None"""
    da, dc = b.source_def(a), b.source_def(c_)
    # capacity() - len() of the same table (hashbrown: capacity >= len)
    if da is not None and dc is not None and da[1] == "call" and dc[1] == "call":
        ca, cc = ctx.call_at(b, da[0].bb), ctx.call_at(b, dc[0].bb)
        if ca.method == "capacity" and cc.method == "len" and ca.arg_path(0) is not None and cc.arg_path(0) is not None \
                and ca.arg_path(0).strip_refs().key() == cc.arg_path(0).strip_refs().key():
            return "capacity() - len() of one table"
    # (x + c1) - c2 with constants c1 >= c2 (x unsigned): the addition's own check covers the rest
    k2 = b.op_const(c_)
    k1_ = b.op_const(a)
    if k2 is not None and k1_ is not None and k1_ >= k2:
        return "%d - %d" % (k1_, k2)
    if k2 is not None and a["k"] in ("copy", "move"):
        pl = a["place"]
        d = b.unique_def(pl["local"])
        hops = 0
        while d is not None and d[1] == "assign" and d[2]["rv"]["k"] == "use" and d[2]["rv"]["op"]["k"] in ("copy", "move") and hops < 4:
            d = b.unique_def(d[2]["rv"]["op"]["place"]["local"])      # through `_x = move (_y.0)` of the checked addition's result pair
            hops += 1
        if d is not None and d[1] == "assign" and d[2]["rv"]["k"] == "binop" and d[2]["rv"]["op"].startswith("Add"):
            for x in (d[2]["rv"]["a"], d[2]["rv"]["b"]):
                k1 = _const_val(b, x)
                if k1 is not None and k1 >= k2:
                    return "(x + %d) - %d" % (k1, k2)
    # guarded: the block is dominated by the true edge of `a >= c` / `a > c` (or the false edge of `a < c` / `a <= c`)
    pa, pc = (b.op_path(a) if a["k"] != "const" else None), (b.op_path(c_) if c_["k"] != "const" else None)
    for x in b.reachable():
        t = b.term(x)
        if t["k"] != "switch":
            continue
        d = b.source_def(t["discr"])
        if d is None or d[1] != "assign" or d[2]["rv"]["k"] != "binop" or d[2]["rv"]["op"] not in ("Ge", "Gt", "Le", "Lt", "Ne", "Eq"):
            continue
        rv = d[2]["rv"]
        la, lb = (b.op_path(rv["a"]) if rv["a"]["k"] != "const" else None), (b.op_path(rv["b"]) if rv["b"]["k"] != "const" else None)
        ka, kb = b.op_const(rv["a"]), b.op_const(rv["b"])

        def same(p, q):
            return p is not None and q is not None and p.key() == q.key()
        true_edge = (x, t["otherwise"])
        false_edges = [(x, tb) for v, tb in t["targets"] if v == 0]
        good = None
        if same(la, pa):
            vs_operand = same(lb, pc)
            # with constants: what the edge tells about `a` must be at least k2
            if rv["op"] == "Ge" and (vs_operand or (kb is not None and k2 is not None and kb >= k2)):
                good = true_edge
            elif rv["op"] == "Gt" and (vs_operand or (kb is not None and k2 is not None and kb + 1 >= k2)):
                good = true_edge
            elif rv["op"] == "Lt" and false_edges and (vs_operand or (kb is not None and k2 is not None and kb >= k2)):
                good = false_edges[0]
            elif rv["op"] == "Le" and false_edges and (kb is not None and k2 is not None and kb + 1 >= k2):
                good = false_edges[0]
            elif rv["op"] == "Ne" and kb == 0 and k2 == 1:
                good = true_edge                   # a != 0  ==>  a - 1 is fine
            elif rv["op"] == "Eq" and kb == 0 and k2 == 1 and false_edges:
                good = false_edges[0]
        if good is not None and (good[1] == bb or good[1] in b.dom().get(bb, set())) and b.preds(good[1], True) == [good[0]]:
            return "guarded by the comparison at %s" % b.where(Loc(x, len(b.stmts(x))))
    return None


def rule_o_wrap(ctx):
    R = RuleResult("O-wrap", "no size supplied by the caller (public usize parameter) or by user code (size_hint of a user iterator) reaches "
                   "+, -, * that panics with overflow checks on and wraps silently with them off")
    tn = ctx.memo("taint", lambda: Taint(ctx))
    n = 0
    for b, bb, op, a, c_ in overflow_sites(ctx):
        n += 1
        lt = tn.local_taint.get(b.path, {})
        ta = tn.op_taint(b, lt, a)
        tb = tn.op_taint(b, lt, c_)
        loc = Loc(bb, len(b.stmts(bb)))
        desc = "%s(%s,%s)" % (op, describe(ctx, b, a), describe(ctx, b, c_))
        if op == "Sub":
            # a - b with tainted operands could underflow as well; report the same way
            pass
        if op in ("Shl", "Shr"):
            # a shift "overflows" only when the shift amount reaches the bit width: the shifted value cannot make it panic or wrap
            ta = None
            amt = b.op_const(c_)
            if amt is not None and 0 <= amt < 64:
                tb = None
        if op == "Sub" and not (ta or tb):
            why_safe = _sub_cannot_underflow(ctx, b, bb, a, c_)
            if why_safe is None:
                R.inst(fn=b.path, site=b.where(loc), expr=desc, verdict="VIOLATION")
                R.viol("%s:%s:underflow" % (b.path, desc), b.where(loc),
                       "%s in %s: nothing shows that the left operand is at least the right one (accepted: capacity() - len() of one table, (x + c1) - c2 with "
                       "constants c1 >= c2, a subtraction guarded by a comparison of its operands); with overflow checks this panics, without them it wraps"
                       % (desc, b.path))
                continue
            R.inst(fn=b.path, site=b.where(loc), expr=desc, verdict="cannot underflow: " + why_safe)
            continue
        if ta or tb:
            R.inst(fn=b.path, site=b.where(loc), expr=desc, tainted_by=ta or tb, verdict="VIOLATION")
            R.viol("%s:%s" % (b.path, desc), b.where(loc),
                   "%s in %s: operand is an unbounded size (%s); with overflow checks this panics `attempt to %s with overflow`, without them it wraps silently"
                   % (desc, b.path, ta or tb, op.lower()))
        else:
            R.inst(fn=b.path, site=b.where(loc), expr=desc, verdict="untainted")
    if n < 5:
        R.anchor("overflow-sites", "expected >= 5 overflow-checked arithmetic sites in configuration F1, found %d (was the crate compiled with overflow checks?)" % n)
    return R
