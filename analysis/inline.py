"""MIR-level inlining of private helper functions: equivalent *views* of the program.

A rule that reports a violation on the program as written is re-run on views in which calls of module-private helper functions
are replaced by the helper's body (locals renumbered, arguments bound by assignments, `return` turned into an assignment of the
call's destination and a jump to the call's successor, `resume` turned into a jump to the call's unwind block).  Inlining
preserves behaviour, so a rule that holds on a view holds on the program: "extract a helper" / "merge a helper into its callers"
refactorings then do not change the verdict.  Nothing here runs griddle code.

View policies (see `VIEWS`):
  leaf     private free functions / associated functions without a split-table receiver (pure fragments)
  private  every module-private function (also private methods of the split table), callers first
  module   additionally every function that is not exported and only called from its own top-level module (and its submodules), whatever its visibility
           (`pub(crate)` helpers in a private submodule)
A function is never inlined when it is recursive, not private, a closure, or creates closures while it has
more than one call site (the closure body would then have two creation sites and capture resolution would be ambiguous).
"""
import copy
import re
from collections import defaultdict

from core import Facts


def strip_generics(s):
    from engine import strip_generics as sg
    return sg(s)


def _vis_module(vis):
    """module path a Restricted visibility names, '' for the crate root, None for pub"""
    if vis == "pub":
        return None
    m = re.search(r"~ ([^\]]+)\[[0-9a-f]+\](.*?)\)\)?$", vis)
    if not m:
        return ""
    return (m.group(1) + m.group(2)).strip()


def is_private(raw):
    """restricted to a module below the crate root (plain `fn`, not pub / pub(crate))"""
    if raw["kind"] not in ("Fn", "AssocFn"):
        return False
    vm = _vis_module(raw.get("vis", "pub"))
    return bool(vm) and "::" in vm


def module_of(raw):
    """source module of a body, from its definition path (griddle::raw::{impl#3}::carry -> griddle::raw)"""
    parts = raw["dpath"].split("::")
    out = []
    for x in parts[:-1]:
        if x.startswith("{"):
            break
        out.append(x)
    return "::".join(out)


def family_of(raw):
    """the top-level module a body belongs to (griddle::raw::util -> griddle::raw): helpers may live in private submodules"""
    return "::".join(module_of(raw).split("::")[:2])


def _map_place(pl, lo):
    pl["local"] += lo
    for e in pl["proj"]:
        if e["k"] == "index":
            e["local"] += lo


def _map_op(op, lo):
    if op["k"] in ("copy", "move"):
        _map_place(op["place"], lo)


def _map_rv(rv, lo):
    k = rv["k"]
    if k in ("use", "repeat", "cast", "wrap_binder"):
        _map_op(rv["op"], lo)
    elif k in ("ref", "rawptr", "discr", "copy_for_deref"):
        _map_place(rv["place"], lo)
    elif k == "binop":
        _map_op(rv["a"], lo); _map_op(rv["b"], lo)
    elif k == "unop":
        _map_op(rv["a"], lo)
    elif k == "aggregate":
        for o in rv["ops"]:
            _map_op(o, lo)


def _map_block(blk, lo, bo, ret_dest, ret_target, unwind_target, ret_local_span):
    """renumber one copied callee block in place"""
    for st in blk["stmts"]:
        if st["k"] in ("assign", "set_discr"):
            _map_place(st["place"], lo)
            if st["k"] == "assign":
                _map_rv(st["rv"], lo)
    t = blk["term"]
    k = t["k"]
    if k == "goto":
        t["target"] += bo
    elif k == "switch":
        _map_op(t["discr"], lo)
        t["targets"] = [[v, b + bo] for v, b in t["targets"]]
        t["otherwise"] += bo
    elif k == "drop":
        _map_place(t["place"], lo)
        t["target"] += bo
        if isinstance(t.get("unwind"), int):
            t["unwind"] += bo
        elif t.get("unwind") == "continue" and unwind_target is not None:
            t["unwind"] = unwind_target
    elif k == "call":
        _map_op(t["func"], lo)
        for a in t["args"]:
            _map_op(a, lo)
        if "dest" in t:
            _map_place(t["dest"], lo)
        if t.get("target") is not None:
            t["target"] += bo
        if isinstance(t.get("unwind"), int):
            t["unwind"] += bo
        elif t.get("unwind") == "continue" and unwind_target is not None:
            t["unwind"] = unwind_target
    elif k == "assert":
        _map_op(t["cond"], lo)
        for x in t["msg_ops"]:
            if isinstance(x, dict):
                _map_op(x, lo)
        t["target"] += bo
        if isinstance(t.get("unwind"), int):
            t["unwind"] += bo
        elif t.get("unwind") == "continue" and unwind_target is not None:
            t["unwind"] = unwind_target
    elif k == "return":
        sp = t["span"]
        if ret_dest is not None:
            blk["stmts"].append({"k": "assign", "place": copy.deepcopy(ret_dest),
                                 "rv": {"k": "use", "op": {"k": "move", "place": {"local": lo, "proj": [], "ty": ret_local_span}}},
                                 "span": sp})
        if ret_target is None:
            blk["term"] = {"k": "unreachable", "span": sp}
        else:
            blk["term"] = {"k": "goto", "target": ret_target, "span": sp}
    elif k == "resume":
        if isinstance(unwind_target, int):
            blk["term"] = {"k": "goto", "target": unwind_target, "span": t["span"]}


def inline_call(caller, bb, callee):
    """splice `callee` (raw body) into `caller` (raw body, modified in place) at the call terminating block bb"""
    t = caller["blocks"][bb]["term"]
    lo = len(caller["locals"])
    bo = len(caller["blocks"])
    caller["locals"].extend(copy.deepcopy(callee["locals"]))
    for v in callee["vars"]:
        v2 = copy.deepcopy(v)
        _map_place(v2["place"], lo)
        caller["vars"].append(v2)
    # argument binding
    stmts = caller["blocks"][bb]["stmts"]
    for i, a in enumerate(t["args"]):
        pl = {"local": lo + 1 + i, "proj": [], "ty": callee["locals"][1 + i]["ty"]}
        stmts.append({"k": "assign", "place": pl, "rv": {"k": "use", "op": a}, "span": t["span"], "inl_arg": True})
    new_blocks = copy.deepcopy(callee["blocks"])
    for blk in new_blocks:
        _map_block(blk, lo, bo, t.get("dest"), t.get("target"), t.get("unwind"), callee["locals"][0]["ty"])
    caller["blocks"].extend(new_blocks)
    caller["blocks"][bb]["term"] = {"k": "goto", "target": bo, "span": t["span"], "inlined": callee["path"]}
    caller.setdefault("inlined", []).append(callee["path"])
    for k_ in ("_sroa", "_threaded", "_rnt", "_lic", "_lor"):
        caller.pop(k_, None)            # the body changed: the load-time normalisations get another look at it
    end = len(caller["blocks"])
    _fold_bound_constants(caller, range(bo, end))
    if t.get("dest") is not None and not t["dest"]["proj"] and t.get("target") is not None:
        _thread_constant_returns(caller, range(bo, end), lo, t["dest"]["local"], t["target"])


VARIANT_INDEX = {("core::option::Option", "None"): 0, ("core::option::Option", "Some"): 1,
                 ("core::result::Result", "Ok"): 0, ("core::result::Result", "Err"): 1}


def _thread_constant_returns(raw, blocks, ret0, dest, T, max_dups=40):
    """Jump threading for an inlined helper that returns a constant bool / a freshly built Option or Result on some of its paths and
    whose caller immediately branches on the result: the path that returns `false` continues at the caller's `false` arm.  The
    caller's test block (and the short goto/drop chain leading to it) is duplicated per constant-returning path (tail duplication:
    behaviour preserving); without this the two facts `helper took its None arm` and `caller sees false` are unrelated in the CFG."""
    B = raw["blocks"]
    tt = B[T]["term"]
    if tt["k"] != "switch" or tt["discr"]["k"] not in ("copy", "move") or tt["discr"]["place"]["proj"]:
        return
    ld = tt["discr"]["place"]["local"]
    mode = None
    if ld == dest:
        mode = "bool"
    for st in B[T]["stmts"]:
        if st["k"] == "assign" and not st["place"]["proj"] and st["place"]["local"] == ld:
            rv = st["rv"]
            if rv["k"] == "discr" and not rv["place"]["proj"] and rv["place"]["local"] == dest:
                mode = "discr"
            elif rv["k"] == "use" and rv["op"]["k"] in ("copy", "move") and not rv["op"]["place"]["proj"] and rv["op"]["place"]["local"] == dest:
                mode = "bool"
            else:
                mode = None
    if mode is None:
        return

    def assigns(blk, local):
        for st in blk["stmts"]:
            if st["k"] in ("assign", "set_discr") and st["place"]["local"] == local:
                return True
        t2 = blk["term"]
        return t2["k"] == "call" and "dest" in t2 and t2["dest"]["local"] == local
    dups = 0
    for P in list(blocks):
        val = None
        for st in B[P]["stmts"]:
            if st["k"] in ("assign", "set_discr") and st["place"]["local"] == ret0:
                val = None
                if st["k"] == "assign" and not st["place"]["proj"]:
                    rv = st["rv"]
                    if mode == "bool" and rv["k"] == "use" and rv["op"]["k"] == "const" and rv["op"].get("val") in (0, 1):
                        val = rv["op"]["val"]
                    elif mode == "discr" and rv["k"] == "aggregate" and (rv.get("adt"), rv.get("variant")) in VARIANT_INDEX:
                        val = VARIANT_INDEX[(rv.get("adt"), rv.get("variant"))]
        if val is None:
            continue
        tp = B[P]["term"]
        if tp["k"] not in ("goto", "drop"):
            continue
        # the region between P and the caller's test: a small acyclic set of blocks of the inlined body, none of which writes the
        # return place, all of whose ways out lead to T (drop-flag switches of the helper's locals are typical)
        region, order, okr = set(), [], True
        work = [tp["target"]]
        while work and okr:
            x = work.pop()
            if x == T or x in region:
                continue
            if x not in blocks or x == P or len(region) >= 8 or _writes(B[x], ret0):
                okr = False
                break
            tx = B[x]["term"]
            if tx["k"] == "goto":
                nx = [tx["target"]]
            elif tx["k"] == "drop":
                nx = [tx["target"]]
            elif tx["k"] == "switch":
                nx = [tb for _, tb in tx["targets"]] + [tx["otherwise"]]
            elif tx["k"] == "unreachable":
                nx = []
            else:
                okr = False
                break
            region.add(x)
            order.append(x)
            work.extend(nx)
        if not okr or dups >= max_dups:
            continue
        # acyclic?
        def reach(a, seen):
            tx = B[a]["term"]
            nx = [tx["target"]] if tx["k"] in ("goto", "drop") else ([tb for _, tb in tx["targets"]] + [tx["otherwise"]] if tx["k"] == "switch" else [])
            for y in nx:
                if y in region and y not in seen:
                    seen.add(y)
                    reach(y, seen)
            return seen
        if any(x in reach(x, set()) for x in region):
            continue
        dups += 1
        new_ids = {}
        for c in order + [T]:
            new_ids[c] = len(B)
            B.append(copy.deepcopy(B[c]))
        for c in order:
            tn = B[new_ids[c]]["term"]
            if tn["k"] in ("goto", "drop"):
                tn["target"] = new_ids.get(tn["target"], tn["target"])
            elif tn["k"] == "switch":
                tn["targets"] = [[v, new_ids.get(tb, tb)] for v, tb in tn["targets"]]
                tn["otherwise"] = new_ids.get(tn["otherwise"], tn["otherwise"])
        tg = [tb for v, tb in tt["targets"] if v == val]
        B[new_ids[T]]["term"] = {"k": "goto", "target": tg[0] if tg else tt["otherwise"], "span": tt["span"], "threaded": val}
        B[P]["term"] = dict(tp, target=new_ids.get(tp["target"], tp["target"]))


def _writes(blk, local):
    for st in blk["stmts"]:
        if st["k"] in ("assign", "set_discr") and st["place"]["local"] == local:
            return True
    t2 = blk["term"]
    return t2["k"] == "call" and "dest" in t2 and t2["dest"]["local"] == local


def _only_copies_ret(blk, ret0, dest):
    """the block touches the helper's return place only to copy it into the call's destination"""
    for st in blk["stmts"]:
        if st["k"] in ("assign", "set_discr") and st["place"]["local"] == ret0:
            return False
    return True


def _fold_bound_constants(raw, blocks):
    """A switch in an inlined body whose operand is (a copy of) a parameter that the call site binds to a constant has one feasible
    successor: replace it by a jump (e.g. `if fallible { .. }` in a helper called with `false`).  Only constants that flow in through
    an argument binding are folded; the program's own constant conditions (cfg!(..)) are left as they are."""
    defs = {}
    for blk in raw["blocks"]:
        for st in blk["stmts"]:
            if st["k"] in ("assign", "set_discr"):
                l = st["place"]["local"]
                if st["k"] == "assign" and not st["place"]["proj"]:
                    defs.setdefault(l, []).append(st)
                else:
                    defs.setdefault(l, []).append(None)
        t = blk["term"]
        if t["k"] == "call" and "dest" in t:
            defs.setdefault(t["dest"]["local"], []).append(None)

    def const_of(op, via_arg=False, depth=0):
        if op["k"] == "const":
            return op.get("val") if via_arg else None
        if op["k"] not in ("copy", "move") or op["place"]["proj"] or depth > 12:
            return None
        l = op["place"]["local"]
        if 1 <= l <= raw["arg_count"]:
            return None
        ds = defs.get(l, [])
        if len(ds) != 1 or ds[0] is None or ds[0]["rv"]["k"] != "use":
            return None
        return const_of(ds[0]["rv"]["op"], via_arg or bool(ds[0].get("inl_arg")), depth + 1)
    for b in blocks:
        t = raw["blocks"][b]["term"]
        if t["k"] != "switch":
            continue
        v = const_of(t["discr"])
        if v is None:
            continue
        tgt = [tb for val, tb in t["targets"] if val == v]
        raw["blocks"][b]["term"] = {"k": "goto", "target": tgt[0] if tgt else t["otherwise"], "span": t["span"], "folded": v}


def _devirtualize(raw, raws):
    """A call through a function pointer that, after inlining, is a plain local bound once to a named function of this crate
    (`combine(self, rhs, HashSet::union)` -> `lazy_view(lhs, rhs)`) is a direct call of that function."""
    defs = {}
    for blk in raw["blocks"]:
        for st in blk["stmts"]:
            if st["k"] in ("assign", "set_discr"):
                l = st["place"]["local"]
                defs.setdefault(l, []).append(st if st["k"] == "assign" and not st["place"]["proj"] else None)
        t = blk["term"]
        if t["k"] == "call" and "dest" in t:
            defs.setdefault(t["dest"]["local"], []).append(None)

    def fn_of(op, depth=0):
        if op["k"] == "const":
            return op if op.get("fn") else None
        if op["k"] not in ("copy", "move") or op["place"]["proj"] or depth > 12:
            return None
        l = op["place"]["local"]
        if l <= raw["arg_count"]:
            return None
        ds = defs.get(l, [])
        if len(ds) != 1 or ds[0] is None:
            return None
        rv = ds[0]["rv"]
        if rv["k"] == "use" or (rv["k"] == "cast" and "ReifyFnPointer" in rv.get("cast", "")):
            return fn_of(rv["op"], depth + 1)
        return None
    n = 0
    for blk in raw["blocks"]:
        t = blk["term"]
        if t["k"] != "call" or t.get("callee") is not None or t["func"]["k"] == "const":
            continue
        c = fn_of(t["func"])
        if c is None:
            continue
        want = strip_generics(c["fn"])
        tgt = [r for r in raws if r["kind"] != "Closure" and strip_generics(r["path"]) == want]
        if len(tgt) != 1:
            continue
        r = tgt[0]
        t["func_indirect"] = t["func"]
        t["func"] = c
        t.update({"callee": c["fn"], "callee_args": c.get("fn_args"), "callee_dpath": r["dpath"], "unsafe": bool(r.get("unsafe")), "local": True,
                  "intrinsic": False, "resolved": {"path": r["path"], "dpath": r["dpath"], "kind": "Item", "local": True}, "devirtualized": True})
        n += 1
    # the same through the Fn* traits: a generic `op: impl FnOnce(A, B) -> R` bound to a named function of this crate, called as `op(a, b)`
    for blk in raw["blocks"]:
        t = blk["term"]
        if t["k"] != "call" or t.get("resolved") or len(t.get("args", [])) != 2 \
                or t.get("callee") not in ("core::ops::FnMut::call_mut", "core::ops::Fn::call", "core::ops::FnOnce::call_once"):
            continue
        a0 = t["args"][0]
        c = fn_of(a0)
        if c is None and a0["k"] in ("copy", "move") and not a0["place"]["proj"]:
            # through one reference (`&mut op` for call_mut)
            ds = defs.get(a0["place"]["local"], [])
            if len(ds) == 1 and ds[0] is not None and ds[0]["rv"]["k"] == "ref" and not ds[0]["rv"]["place"]["proj"]:
                c = fn_of({"k": "move", "place": ds[0]["rv"]["place"]})
        if c is None:
            continue
        want = strip_generics(c["fn"])
        tgt = [r for r in raws if r["kind"] != "Closure" and strip_generics(r["path"]) == want]
        tup = t["args"][1]
        if len(tgt) != 1 or tup["k"] not in ("copy", "move") or tup["place"]["proj"]:
            continue
        r = tgt[0]
        args = []
        for i in range(r["arg_count"]):
            ty = r["locals"][1 + i]["ty"]
            args.append({"k": "move", "place": {"local": tup["place"]["local"], "proj": [{"k": "field", "i": i, "tuple": True, "ty": ty}], "ty": ty}})
        t["func_indirect"] = t["func"]
        t["func"] = c
        t["args"] = args
        t.pop("trait", None)
        t.update({"callee": c["fn"], "callee_args": c.get("fn_args"), "callee_dpath": r["dpath"], "unsafe": bool(r.get("unsafe")), "local": True,
                  "intrinsic": False, "resolved": {"path": r["path"], "dpath": r["dpath"], "kind": "Item", "local": True}, "devirtualized": True})
        n += 1
    return n


def _inline_known_closure_calls(raw, raws, d=None, counter=None, max_sites=4):
    """After a higher-order helper was inlined (`probe_both(|t| t.find(..))`), its calls of the closure parameter are calls of a closure
    that is created in this very body: `FnMut::call_mut(&mut c, (a, b))` with `c = closure(def)[captures]`.  Splice the closure's body
    in (arguments untupled), so that what the closure does is seen where it is done.  Closures that create closures or that are not
    bound exactly once are left alone.  Returns the number of calls spliced."""
    by_dpath = {r["dpath"]: r for r in raws}
    n = 0
    spliced = set()
    closure_of = lambda op: None
    for _round in range(max_sites):
        defs = {}
        for blk in raw["blocks"]:
            for st in blk["stmts"]:
                if st["k"] in ("assign", "set_discr"):
                    l = st["place"]["local"]
                    defs.setdefault(l, []).append(st if st["k"] == "assign" and not st["place"]["proj"] else None)
            t = blk["term"]
            if t["k"] == "call" and "dest" in t:
                defs.setdefault(t["dest"]["local"], []).append(None)

        def closure_of(op, depth=0):
            """the closure aggregate statement an operand (the closure, or a reference to it) goes back to"""
            if op["k"] not in ("copy", "move") or depth > 12:
                return None
            pl = op["place"]
            if pl["proj"] and not (len(pl["proj"]) == 1 and pl["proj"][0]["k"] == "deref"):
                return None
            l = pl["local"]
            if l <= raw["arg_count"]:
                return None
            ds = defs.get(l, [])
            if len(ds) != 1 or ds[0] is None:
                return None
            rv = ds[0]["rv"]
            if rv["k"] == "aggregate" and rv.get("agg") == "closure":
                return ds[0]
            if rv["k"] == "use":
                return closure_of(rv["op"], depth + 1)
            if rv["k"] == "ref" and (not rv["place"]["proj"] or (len(rv["place"]["proj"]) == 1 and rv["place"]["proj"][0]["k"] == "deref")):
                return closure_of({"k": "move", "place": rv["place"]}, depth + 1)
            return None
        did = False
        for bb, blk in enumerate(raw["blocks"]):
            t = blk["term"]
            if t["k"] != "call" or t.get("resolved") or blk.get("cleanup") or "dest" not in t or (len(t.get("args", [])) != 2 and not t.get("untupled")):
                continue
            if t.get("callee") not in ("core::ops::FnMut::call_mut", "core::ops::Fn::call", "core::ops::FnOnce::call_once"):
                continue
            st = closure_of(t["args"][0])
            if st is None:
                continue
            if t.get("untupled"):
                # a call made explicit by `_lower_option_combinators`: the arguments are already the closure's own parameters
                cb = by_dpath.get(st["rv"]["def"])
                if cb is None or cb["dpath"] == raw["dpath"] or len(t["args"]) != cb["arg_count"]:
                    continue
                makes = _creates_closure(cb)
                if makes and (d is None or counter is None or _nested_closures(raws, cb)):
                    continue
                t["closure_call_of"] = cb["dpath"]
                fb, fl = len(raw["blocks"]), len(raw["locals"])
                inline_call(raw, bb, cb)
                if makes:
                    _clone_closures(d, raws, raw, cb, fb, fl, counter)
                spliced.add(cb["dpath"])
                n += 1
                did = True
                break
            cb = by_dpath.get(st["rv"]["def"])
            if cb is None or cb["dpath"] == raw["dpath"]:
                continue
            makes = _creates_closure(cb)
            if makes and (d is None or counter is None or _nested_closures(raws, cb)):
                continue
            tup = t["args"][1]
            nparams = cb["arg_count"] - 1
            if tup["k"] not in ("copy", "move") or tup["place"]["proj"]:
                continue
            args = [t["args"][0]]
            for i in range(nparams):
                ty = cb["locals"][2 + i]["ty"]
                args.append({"k": "move", "place": {"local": tup["place"]["local"], "proj": [{"k": "field", "i": i, "tuple": True, "ty": ty}], "ty": ty}})
            t["args"] = args
            t["closure_call_of"] = cb["dpath"]
            fb, fl = len(raw["blocks"]), len(raw["locals"])
            inline_call(raw, bb, cb)
            if makes:
                _clone_closures(d, raws, raw, cb, fb, fl, counter)      # each spliced copy gets its own copies of the closures it creates
            spliced.add(cb["dpath"])
            n += 1
            did = True
            break
        if not did:
            break
    # a closure whose every call was spliced in, and that is handed to nothing else, has no life of its own any more
    if spliced:
        still = set()
        for blk in raw["blocks"]:
            t = blk["term"]
            if t["k"] == "call":
                for a in t.get("args", []):
                    st = closure_of(a)
                    if st is not None:
                        still.add(st["rv"]["def"])
            for st_ in blk["stmts"]:
                if st_["k"] == "assign" and st_["rv"]["k"] == "aggregate" and st_["rv"].get("agg") != "closure":
                    for o in st_["rv"].get("ops", []):
                        st = closure_of(o)
                        if st is not None:
                            still.add(st["rv"]["def"])
        for dp in spliced - still:
            cb = by_dpath.get(dp)
            if cb is None or cb not in raws:
                continue
            kids = [x for x in raws if x.get("parent") == dp and x["kind"] == "Closure"]
            if kids and not all(any(x2.get("cloned_from") == k["dpath"] for x2 in raws) for k in kids):
                continue
            for k in kids:
                raws.remove(k)
            raws.remove(cb)
    return n


OPT_ = "core::option::Option::<T>::"


def _lower_option_combinators(raw, raws, types, max_sites=12, sites=None):
    """`x.map(c)`, `x.and_then(c)`, `x.or_else(c)`, `x.map_or(d, c)`, `x.unwrap_or_else(c)` with `c` a closure created in this very body are
    what their definitions say: a test of `x` and, on one side, a call of `c`.  Written so (the call of `c` is then spliced in by
    `_inline_known_closure_calls`), a chain of combinators is the control flow it stands for, for every rule at once.  Only in the views."""
    by_dpath = {r["dpath"]: r for r in raws}
    isize = next((i for i, t in enumerate(types) if t.get("s") == "isize"), None)
    if isize is None:
        return 0
    n = 0
    for _round in range(max_sites):
        defs = {}
        for blk in raw["blocks"]:
            for st in blk["stmts"]:
                if st["k"] in ("assign", "set_discr"):
                    l = st["place"]["local"]
                    defs.setdefault(l, []).append(st if st["k"] == "assign" and not st["place"]["proj"] else None)
            t = blk["term"]
            if t["k"] == "call" and "dest" in t:
                defs.setdefault(t["dest"]["local"], []).append(None)

        def closure_def(op, depth=0):
            if op["k"] not in ("copy", "move") or op["place"]["proj"] or depth > 8:
                return None
            l = op["place"]["local"]
            if l <= raw["arg_count"]:
                return None
            ds = defs.get(l, [])
            if len(ds) != 1 or ds[0] is None:
                return None
            rv = ds[0]["rv"]
            if rv["k"] == "aggregate" and rv.get("agg") == "closure":
                return by_dpath.get(rv["def"])
            if rv["k"] == "use":
                return closure_def(rv["op"], depth + 1)
            return None
        did = False
        for bb, blk in enumerate(raw["blocks"]):
            t = blk["term"]
            if t["k"] != "call" or blk.get("cleanup") or t.get("target") is None or "dest" not in t:
                continue
            cal = t.get("callee") or ""
            if not cal.startswith(OPT_):
                continue
            kind = cal[len(OPT_):]
            if kind not in ("map", "and_then", "or_else", "map_or", "unwrap_or_else") or len(t["args"]) != (3 if kind == "map_or" else 2):
                continue
            x = t["args"][0]
            clo = t["args"][-1]
            if x["k"] not in ("copy", "move") or x["place"]["proj"] or clo["k"] not in ("copy", "move"):
                continue
            cb = closure_def(clo)
            if cb is None or cb["dpath"] == raw["dpath"]:
                continue
            xt = types[x["place"]["ty"]]
            if xt.get("adt") != "core::option::Option" or not xt.get("args"):
                continue
            payload_ty = xt["args"][0]
            takes_payload = kind in ("map", "and_then", "map_or")
            if cb["arg_count"] != (2 if takes_payload else 1):
                continue
            sp = t["span"]
            dest, target, unwind = t["dest"], t["target"], t.get("unwind")
            blocks = raw["blocks"]
            L = raw["locals"]
            L.append({"ty": isize, "mut": True})
            d_local = len(L) - 1
            some_bb, none_bb = len(blocks), len(blocks) + 1
            payload = {"k": "move", "place": {"local": x["place"]["local"], "proj": [{"k": "downcast", "variant": "Some", "vidx": 1},
                       {"k": "field", "i": 0, "adt": "core::option::Option", "name": "0", "variant": "Some", "ty": payload_ty}], "ty": payload_ty}}

            def call_closure(dst, args, tgt):
                return {"k": "call", "func": {"k": "const", "ty": clo["place"]["ty"], "text": "<closure call>"}, "callee": "core::ops::FnOnce::call_once",
                        "callee_args": "core::ops::FnOnce::call_once", "callee_dpath": "core::ops::function::FnOnce::call_once", "trait": "core::ops::FnOnce",
                        "targs": [clo["place"]["ty"]], "unsafe": False, "local": False, "intrinsic": False, "resolved": None,
                        "args": [dict(clo)] + args, "untupled": True, "dest": dst, "target": tgt, "unwind": unwind, "span": sp, "lowered_from": cal}
            none_agg = {"k": "aggregate", "agg": "adt", "adt": "core::option::Option", "variant": "None", "vidx": 0, "fields": [], "ops": []}
            if kind == "or_else":
                some_blk = {"stmts": [{"k": "assign", "place": dest, "rv": {"k": "aggregate", "agg": "adt", "adt": "core::option::Option", "variant": "Some", "vidx": 1,
                                                                             "fields": ["0"], "ops": [payload]}, "span": sp}],
                            "term": {"k": "goto", "target": target, "span": sp}, "cleanup": False}
                none_blk = {"stmts": [], "term": call_closure(dest, [], target), "cleanup": False}
                extra = []
            elif kind == "unwrap_or_else":
                some_blk = {"stmts": [{"k": "assign", "place": dest, "rv": {"k": "use", "op": payload}, "span": sp}],
                            "term": {"k": "goto", "target": target, "span": sp}, "cleanup": False}
                none_blk = {"stmts": [], "term": call_closure(dest, [], target), "cleanup": False}
                extra = []
            elif kind == "and_then":
                some_blk = {"stmts": [], "term": call_closure(dest, [payload], target), "cleanup": False}
                none_blk = {"stmts": [{"k": "assign", "place": dest, "rv": none_agg, "span": sp}], "term": {"k": "goto", "target": target, "span": sp}, "cleanup": False}
                extra = []
            elif kind == "map_or":
                some_blk = {"stmts": [], "term": call_closure(dest, [payload], target), "cleanup": False}
                none_blk = {"stmts": [{"k": "assign", "place": dest, "rv": {"k": "use", "op": t["args"][1]}, "span": sp}],
                            "term": {"k": "goto", "target": target, "span": sp}, "cleanup": False}
                extra = []
            else:   # map
                rty = cb["locals"][0]["ty"]
                L.append({"ty": rty, "mut": True})
                r_local = len(L) - 1
                wrap_bb = len(blocks) + 2
                some_blk = {"stmts": [], "term": call_closure({"local": r_local, "proj": [], "ty": rty}, [payload], wrap_bb), "cleanup": False}
                none_blk = {"stmts": [{"k": "assign", "place": dest, "rv": none_agg, "span": sp}], "term": {"k": "goto", "target": target, "span": sp}, "cleanup": False}
                extra = [{"stmts": [{"k": "assign", "place": dest, "rv": {"k": "aggregate", "agg": "adt", "adt": "core::option::Option", "variant": "Some", "vidx": 1,
                                                                           "fields": ["0"], "ops": [{"k": "move", "place": {"local": r_local, "proj": [], "ty": rty}}]}, "span": sp}],
                          "term": {"k": "goto", "target": target, "span": sp}, "cleanup": False}]
            first_new = len(blocks)
            blocks.extend([some_blk, none_blk] + extra)
            if sites is not None and not dest["proj"]:
                sites.append((list(range(first_new, len(blocks))), dest["local"], target))
            blk["stmts"].append({"k": "assign", "place": {"local": d_local, "proj": [], "ty": isize}, "rv": {"k": "discr", "place": dict(x["place"])}, "span": sp})
            blk["term"] = {"k": "switch", "discr": {"k": "move", "place": {"local": d_local, "proj": [], "ty": isize}}, "targets": [[1, some_bb]], "otherwise": none_bb,
                           "span": sp, "lowered_from": cal}
            for k_ in ("_sroa", "_threaded", "_rnt", "_lic", "_lor"):
                raw.pop(k_, None)
            n += 1
            did = True
            break
        if not did:
            break
    return n


def _call_edges(raws):
    """body path -> list of (bb, callee path) for resolved local Item calls; and the set of functions used as values"""
    by_path = {r["path"]: r for r in raws}
    edges = defaultdict(list)
    as_value = set()
    for r in raws:
        for bb, blk in enumerate(r["blocks"]):
            t = blk["term"]
            if t["k"] == "call":
                res = t.get("resolved")
                if res and res.get("local") and res.get("kind") == "Item" and res["path"] in by_path and "dest" in t:
                    if len(t["args"]) == by_path[res["path"]]["arg_count"]:
                        edges[r["path"]].append((bb, res["path"]))
    return by_path, edges


def _fn_values(facts):
    """functions mentioned as values (constants of fn-def type): they must keep their own body"""
    out = set()
    T = facts.types
    for r in facts.raw["bodies"]:
        for blk in r["blocks"]:
            ops = []
            for st in blk["stmts"]:
                if st["k"] == "assign":
                    rv = st["rv"]
                    ops += [rv.get("op"), rv.get("a"), rv.get("b")] + list(rv.get("ops", []))
            t = blk["term"]
            if t["k"] == "call":
                ops += list(t["args"])
            for o in ops:
                if isinstance(o, dict) and o.get("k") == "const" and "fn" in o:
                    out.add(strip_generics(o["fn"]))
    return out


def _creates_closure(raw):
    for blk in raw["blocks"]:
        for st in blk["stmts"]:
            if st["k"] == "assign" and st["rv"]["k"] == "aggregate" and st["rv"].get("agg") == "closure":
                return True
    return False


def _nested_closures(raws, r):
    kids = [x for x in raws if x.get("parent") == r["dpath"] and x["kind"] == "Closure"]
    return any(_creates_closure(k) for k in kids)


def _retype(node, tymap):
    """replace type ids in a copied fragment of the fact tree"""
    if isinstance(node, dict):
        for k, v in list(node.items()):
            if k == "ty" and isinstance(v, int) and v in tymap:
                node[k] = tymap[v]
            else:
                _retype(v, tymap)
    elif isinstance(node, list):
        for x in node:
            _retype(x, tymap)


def _clone_closures(d, raws, caller, callee, first_block, first_local, counter):
    """Give the copy of `callee` that was just spliced into `caller` its own copies of the closures the callee creates, so that every
    closure body has exactly one creation site (capture resolution stays unambiguous when a helper is inlined at several sites)."""
    types = d["types"]
    kids = [x for x in raws if x.get("parent") == callee["dpath"] and x["kind"] == "Closure"]
    if not kids:
        return
    for k in kids:
        counter[0] += 1
        newdef = "%s#inl%d" % (k["dpath"], counter[0])
        k2 = copy.deepcopy(k)
        k2["dpath"] = newdef
        k2["path"] = "%s#inl%d" % (k["path"], counter[0])
        k2["parent"] = caller["dpath"]
        k2["cloned_from"] = k["dpath"]
        raws.append(k2)
        tymap = {}
        for tid, t in enumerate(list(types)):
            if t.get("k") == "closure" and t.get("def") == k["dpath"]:
                t2 = dict(t, **{"def": newdef})
                types.append(t2)
                tymap[tid] = len(types) - 1
        for tid, t in enumerate(list(types)):
            if t.get("k") in ("ref", "ptr") and t.get("inner") in tymap:
                types.append(dict(t, inner=tymap[t["inner"]]))
                tymap[tid] = len(types) - 1
        for blk in caller["blocks"][first_block:]:
            _retype(blk, tymap)
            for st in blk["stmts"]:
                if st["k"] == "assign" and st["rv"]["k"] == "aggregate" and st["rv"].get("agg") == "closure" and st["rv"].get("def") == k["dpath"]:
                    st["rv"]["def"] = newdef
        for l in caller["locals"][first_local:]:
            if l["ty"] in tymap:
                l["ty"] = tymap[l["ty"]]
        # the closure's own first parameter is the closure (or a reference to it)
        _retype(k2["locals"], tymap)


def build_view(facts, policy, roles=None, max_rounds=6, protect=()):
    """Return (Facts of the view, list of (caller, callee) inlined) or (None, []) if nothing was inlined."""
    d = dict(facts.raw)
    raws = copy.deepcopy(facts.raw["bodies"])
    d["bodies"] = raws
    d["types"] = list(facts.raw["types"])
    clone_counter = [0]
    T = facts.types
    fnvals = _fn_values(facts)
    # functions used as values, per module of the using body (a function handed out of its module as a value is part of its interface)
    fnvals_outside = defaultdict(set)
    for r in facts.raw["bodies"]:
        for blk in r["blocks"]:
            ops = list(blk["term"].get("args", [])) if blk["term"]["k"] == "call" else []
            for st in blk["stmts"]:
                if st["k"] == "assign":
                    rv = st["rv"]
                    ops += [x for x in (rv.get("op"), rv.get("a"), rv.get("b")) if isinstance(x, dict)] + list(rv.get("ops", []))
            for o in ops:
                if isinstance(o, dict) and o.get("k") == "const" and o.get("fn"):
                    for r2 in facts.raw["bodies"]:
                        if strip_generics(r2["path"]) == strip_generics(o["fn"]) and family_of(r2) != family_of(r):
                            fnvals_outside[family_of(r2)].add(strip_generics(r2["path"]))

    def has_split_receiver(r):
        if roles is None or r["arg_count"] < 1:
            return False
        t = T[r["locals"][1]["ty"]]
        while t.get("k") in ("ref", "ptr"):
            t = T[t["inner"]]
        return t.get("k") == "adt" and t.get("adt") == roles.S

    done = []
    lowered = policy == "lowered"
    if lowered:
        policy = "private"

    def lower_all():
        k = 0
        for r in list(raws):
            if r not in raws or r["path"] in protect:
                continue          # accessors and "old length or 0" helpers are recognised by their shape: they keep it
            sites = []
            tot = 0
            for _i in range(6):
                m = _lower_option_combinators(r, raws, d["types"], sites=sites)
                sp_ = _inline_known_closure_calls(r, raws, d, clone_counter, max_sites=16) if m else 0
                tot += m
                if not m:
                    break
            if tot:
                # the variant a combinator's result has on each side is known: send each side on to the arm the caller's next test takes
                for new_blocks, dl, tgt in reversed(sites):
                    _thread_constant_returns(r, new_blocks, dl, dl, tgt)
                done.append((r["path"], "<option combinators>"))
                k += tot
        return k
    if lowered:
        lower_all()
    for _ in range(max_rounds):
        by_path, edges = _call_edges(raws)
        # recursion: functions on a cycle of the local call graph
        g = {p: {c for _, c in es} for p, es in edges.items()}

        def reaches(a, b, seen=None):
            seen = seen or set()
            for x in g.get(a, ()):
                if x == b:
                    return True
                if x not in seen:
                    seen.add(x)
                    if reaches(x, b, seen):
                        return True
            return False
        sites = defaultdict(int)
        for p, es in edges.items():
            for _, c in es:
                sites[c] += 1

        callers_of = defaultdict(set)
        for p, es in edges.items():
            for _, c in es:
                callers_of[c].add(p)

        def module_internal(r):
            """not exported, and every caller lives in the same source module (a helper of that module, whatever its visibility)"""
            if r["kind"] not in ("Fn", "AssocFn") or r.get("exported") or r.get("vis") == "pub":
                return False
            m = family_of(r)
            cs = callers_of.get(r["path"], set())
            return bool(cs) and all(family_of(by_path[p]) == m for p in cs) and strip_generics(r["path"]) not in fnvals_outside.get(m, set())

        def eligible(c):
            r = by_path[c]
            if c in protect:
                return False
            if policy == "module":
                if not (is_private(r) or module_internal(r)):
                    return False
            elif not is_private(r):
                return False
            if reaches(c, c):
                return False
            if policy == "leaf" and has_split_receiver(r):
                return False
            if _creates_closure(r) and sites[c] > 1 and _nested_closures(raws, r):
                return False      # closures that create closures are not cloned
            return True
        # inline only callees that themselves contain no further eligible calls (innermost first), so copies are final
        elig = {c for c in by_path if c in sites and eligible(c)}
        ready = {c for c in elig if not any(x in elig for x in g.get(c, ()))}
        if not ready:
            break
        changed = False
        for p, es in list(edges.items()):
            caller = by_path[p]
            for bb, c in es:
                if c in ready and c != p:
                    fb, fl = len(caller["blocks"]), len(caller["locals"])
                    inline_call(caller, bb, by_path[c])
                    _devirtualize(caller, raws)
                    _inline_known_closure_calls(caller, raws, d, clone_counter)
                    if sites[c] > 1 and _creates_closure(by_path[c]):
                        _clone_closures(d, raws, caller, by_path[c], fb, fl, clone_counter)
                    done.append((p, c))
                    changed = True
        if not changed:
            break
        # a helper whose every call site was inlined is dead: drop its body (its closures now belong to the caller)
        _, edges2 = _call_edges(raws)
        still = {c for es in edges2.values() for _, c in es}
        for c in ready:
            if c not in still and strip_generics(by_path[c]["path"]) not in fnvals:
                r = by_path[c]
                callers = {p for p, cc in done if cc == c}
                kids = [x for x in raws if x.get("parent") == r["dpath"] and x["kind"] == "Closure"]
                if kids and len(callers) != 1:
                    continue
                for x in kids:
                    x["parent_inlined_from"] = r["dpath"]
                    x["parent"] = by_path[next(iter(callers))]["dpath"]
                raws.remove(r)
    if lowered:
        lower_all()          # combinators that became visible through inlining
    if not done:
        return None, []
    return Facts.from_raw(d, facts.path + "#" + ("lowered" if lowered else policy)), done


VIEWS = ("leaf", "private", "module", "lowered")
