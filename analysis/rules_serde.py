"""C16 — serde: Z-ser (serialize = collect_* over self), Z-de (visitor inserts every element, propagates errors), Z-place (clear first)."""
from core import Loc
from engine import RuleResult
from symexec import api_of
from rules_protocol import between_blocks


def rule_z_ser(ctx):
    R = RuleResult("Z-ser", "Serialize is exactly Serializer::collect_map/collect_seq over `self`, whose by-reference IntoIterator is the collection's own iter(): "
                   "length and elements therefore come from the (both-tables, exact-length) iterator")
    n = 0
    for b in ctx.facts.bodies.values():
        if b.kind == "Closure" or b.name != "serialize" or b.raw.get("trait") != "serde::Serialize":
            continue
        n += 1
        key = "%s" % b.path
        calls = [c for c in ctx.calls(b) if not b.is_cleanup(c.loc.bb)]
        cs = [c for c in calls if c.name in ("serde::Serializer::collect_map", "serde::Serializer::collect_seq")]
        ok = len(cs) == 1 and len(calls) == 1
        why = []
        if not ok:
            why.append("body is not a single collect_map/collect_seq call (calls: %s)" % [c.tname for c in calls])
        else:
            c = cs[0]
            p = c.arg_path(1)
            if p is None or p.root != 1 or p.fields():
                ok = False
                why.append("the collection handed to the serializer is not `self`")
            if not (c.dest and c.dest["local"] == 0 and not c.dest["proj"]):
                ok = False
                why.append("the serializer's result is not returned directly")
            st = ctx.facts.types[b.raw["self_ty"]]["s"]
            want = "collect_map" if "HashMap" in st else "collect_seq"
            if c.method != want:
                ok = False
                why.append("%s serialised with %s" % (st, c.method))
        R.inst(fn=b.path, verdict="ok" if ok else "VIOLATION")
        if not ok:
            R.viol(key, b.where(Loc(0, 0)), "; ".join(why))
    # &Collection: IntoIterator = iter()
    m = 0
    for b in ctx.facts.bodies.values():
        if b.kind == "Closure" or b.name != "into_iter" or b.raw.get("trait") != "core::iter::IntoIterator":
            continue
        st = ctx.facts.types[b.raw["self_ty"]]
        if st.get("k") != "ref" or st.get("mut"):
            continue
        inner = ctx.facts.types[st["inner"]]
        if inner.get("adt") not in ("griddle::map::HashMap", "griddle::set::HashSet"):
            continue
        m += 1
        calls = [c for c in ctx.calls(b) if not b.is_cleanup(c.loc.bb)]
        ok = len(calls) == 1 and calls[0].local_callee() is not None and api_of(calls[0].local_callee().path) in ("HashMap::iter", "HashSet::iter") \
            and calls[0].dest["local"] == 0 and calls[0].arg_path(0) is not None and calls[0].arg_path(0).root == 1
        R.inst(fn=b.path, verdict="ok" if ok else "VIOLATION")
        if not ok:
            R.viol(b.path, b.where(Loc(0, 0)), "IntoIterator for a shared reference to the collection is not its iter()")
    if n < 2:
        R.anchor("serialize", "expected 2 Serialize impls, found %d" % n)
    if m < 2:
        R.anchor("into_iter", "expected IntoIterator for &HashMap and &HashSet")
    return R


def rule_z_de(ctx):
    R = RuleResult("Z-de", "every deserialisation visitor passes each element it obtains to insert() on the collection before polling again, propagates "
                   "access errors, and returns the collection it filled; deserialize_in_place clears the destination before the loop (Z-place)")
    n = 0
    for b in ctx.facts.bodies.values():
        if b.kind == "Closure" or b.name not in ("visit_map", "visit_seq") or b.raw.get("trait") != "serde::de::Visitor":
            continue
        n += 1
        key = b.path
        polls = [c for c in ctx.calls(b) if c.unresolved and c.method in ("next_entry", "next_element", "next_key", "next_value", "next_entry_seed", "next_element_seed")]
        inserts = [c for c in ctx.calls(b) if c.local_callee() is not None and api_of(c.local_callee().path) in ("HashMap::insert", "HashSet::insert")]
        if len(polls) != 1 or len(inserts) != 1:
            R.inst(fn=b.path, verdict="VIOLATION")
            R.viol(key + ":shape", b.where(Loc(0, 0)), "visitor has %d element polls and %d insert calls (expected one loop with one of each)" % (len(polls), len(inserts)))
            continue
        P, I = polls[0], inserts[0]
        why = []
        loops = [(h, bl) for h, bl in b.loops() if P.loc.bb in bl]
        if not loops:
            why.append("the element poll is not in a loop")
            bl = set()
        else:
            bl = loops[0][1]
        # inserted value derives from the poll
        s, _ = b.slice_back(I.loc, I.args[1:])
        if P.loc not in s:
            why.append("the inserted value does not come from the element just obtained")
        # error propagation: a from_residual assigned to _0 fed by the poll's result
        fr = [c for c in ctx.calls(b) if (c.name or "").endswith("FromResidual::from_residual") and c.dest and c.dest["local"] in b.ret_locals()]
        prop = False
        for f in fr:
            s2, _ = b.slice_back(f.loc, f.args)
            if P.loc in s2:
                prop = True
        if not prop:
            why.append("an error from the access object is not propagated with `?`")
        # every path from the poll back to the poll (next iteration) passes the insert
        if bl:
            seen = set()
            st = list(b.succs(P.loc.bb))
            skipped = False
            while st:
                x = st.pop()
                if x in seen or x == I.loc.bb or x not in bl:
                    continue
                seen.add(x)
                if x == P.loc.bb:
                    skipped = True
                    break
                st.extend(b.succs(x))
            if skipped:
                why.append("an iteration can poll the next element without having inserted the previous one")
        # returned collection
        rp = I.arg_path(0)
        rets = []
        for loc, st_ in b.all_assigns():
            if st_["place"]["local"] in b.ret_locals() and st_["rv"]["k"] == "aggregate" and st_["rv"].get("variant") == "Ok":
                rets.append((loc, st_))
        in_place = False
        for loc, st_ in rets:
            ops = st_["rv"]["ops"]
            if ops and ops[0]["k"] in ("copy", "move"):
                q = b.op_path(ops[0])
                t = ctx.facts.types[ops[0]["place"]["ty"]]
                if t["s"] == "()":
                    in_place = True
                elif rp is None or q is None or q.root != rp.root:
                    why.append("the visitor returns a different collection than the one it inserted into")
            else:
                in_place = True
        if in_place:
            # Z-place: insert receiver comes from self; clear on the same receiver dominates the loop
            if rp is None or rp.root != 1:
                why.append("in-place visitor inserts into something other than its destination")
            clears = [c for c in ctx.calls(b) if c.local_callee() is not None and api_of(c.local_callee().path) in ("HashSet::clear", "HashMap::clear")]
            okc = False
            for c in clears:
                q = c.arg_path(0)
                if q is not None and rp is not None and q.strip_refs().key() == rp.strip_refs().key() and body_dom(b, c.loc, P.loc) and c.loc.bb not in bl:
                    okc = True
            if not okc:
                why.append("deserialize_in_place does not clear the destination before filling it (previous contents would survive)")
        R.inst(fn=b.path, in_place=in_place, verdict="ok" if not why else "VIOLATION")
        if why:
            R.viol(key, b.where(Loc(0, 0)), "; ".join(why))
    if n < 3:
        R.anchor("visitors", "expected 3 deserialisation visitors, found %d" % n)
    return R


def body_dom(b, a, c):
    return b.dominates(a, c)
