"""E6 — SIZE rules: S-grow, S-shrink (+S-full), S-reserve, S-ctor (DESIGN §5/E6)."""
from core import Loc
from engine import RuleResult, MAIN, LEFT, OLD, CURSOR
from rules_protocol import HBT, HBI, hb_calls
from rules_typestate import (left_test_edges, old_empty_edges, self_s_prefix, is_self_left, is_self_s, replacer_sites, N, S, OPT,
                             assumed_full_unsplit, typestate, TOP, BOT, movers)
import sizeexpr as sx
from sizeexpr import V, C


def _yields_old_len(ctx, fb, depth=0):
    """the closure / accessor does nothing but return the length of the old table of the record it is given (directly or through another such accessor)"""
    cc = [x for x in ctx.calls(fb) if not fb.is_cleanup(x.loc.bb)]
    if len(cc) != 1 or cc[0].dest is None or not (cc[0].dest["local"] == 0 or cc[0].dest["local"] in fb.ret_locals()) or fb.loops():
        return False
    c = cc[0]
    if c.tname == HBT + "len" and ctx.role(fb, c.arg_path(0)) == OLD:
        return True
    lc = c.local_callee()
    if lc is not None and lc.kind != "Closure" and depth < 3 and len(c.args) == 1:
        p = c.arg_path(0)
        # handed the record itself (the parameter, re-borrowed)
        if p is not None and p.strip_refs().root in range(1, fb.arg_count + 1) and not p.fields():
            return _yields_old_len(ctx, lc, depth + 1)
    return False


def _old_table_accessors(ctx):
    """private methods of the split table that hand out the old table itself, `Some(&old.table)` exactly when a resize is pending:
    `match self.LEFT { Some(ref o) => Some(&o.table), None => None }` or `self.LEFT.as_ref().map(|o| &o.table)`"""
    def build():
        out = set()
        T = ctx.facts.types
        for fb in ctx.facts.bodies.values():
            if fb.kind == "Closure" or fb.arg_count != 1 or self_s_prefix(ctx, fb) is None or fb.loops():
                continue
            rt = T[fb.locals[0]["ty"]]
            if rt.get("adt") != "core::option::Option" or not rt.get("args"):
                continue
            inner = T[rt["args"][0]]
            if inner.get("k") != "ref" or T[inner["inner"]].get("adt") != "hashbrown::raw::RawTable":
                continue
            cc = [x for x in ctx.calls(fb) if not fb.is_cleanup(x.loc.bb)]
            if not cc:
                # explicit match: every value that reaches the return place is None or Some(&OLD)
                ok, somes = True, 0
                rets = fb.ret_locals() | {0}
                for loc, st in fb.all_assigns():
                    if st["place"]["proj"] or st["place"]["local"] not in rets:
                        continue
                    rv = st["rv"]
                    if rv["k"] == "use" and rv["op"]["k"] in ("copy", "move") and not rv["op"]["place"]["proj"] and rv["op"]["place"]["local"] in rets:
                        continue
                    if rv["k"] == "aggregate" and rv.get("adt") == "core::option::Option":
                        if rv["variant"] == "None":
                            continue
                        q = fb.op_path(rv["ops"][0])
                        if q is not None and ctx.role(fb, q) == OLD and is_self_s(ctx, fb, ctx.roles.s_prefix(q)):
                            somes += 1
                            continue
                    ok = False
                if ok and somes:
                    out.add(fb.path)
                continue
            if len(cc) == 2 and cc[0].name in (OPT + "as_ref", OPT + "as_mut") and is_self_left(ctx, fb, cc[0].arg_path(0)) and cc[1].name == OPT + "map" \
                    and cc[1].dest is not None and (cc[1].dest["local"] in (fb.ret_locals() | {0})) and cc[1].closure_args():
                sd = fb.source_def(cc[1].args[0])
                cb = cc[1].closure_args()[0]
                if sd is None or sd[1] != "call" or sd[0] != cc[0].loc or [x for x in ctx.calls(cb) if not cb.is_cleanup(x.loc.bb)] or cb.loops():
                    continue
                ok, n = True, 0
                rets = cb.ret_locals() | {0}
                for loc, st in cb.all_assigns():
                    if st["place"]["proj"] or st["place"]["local"] not in rets:
                        continue
                    rv = st["rv"]
                    if rv["k"] == "use" and rv["op"]["k"] in ("copy", "move") and not rv["op"]["place"]["proj"] and rv["op"]["place"]["local"] in rets:
                        continue
                    q = None
                    if rv["k"] == "ref":
                        q = cb.expand(rv["place"])
                    elif rv["k"] == "use" and rv["op"]["k"] in ("copy", "move"):
                        q = cb.op_path(rv["op"])
                    if q is not None and q.strip_refs().root == 2 and ctx.role(cb, q) == OLD:
                        n += 1
                        continue
                    ok = False
                if ok and n:
                    out.add(fb.path)
        return out
    return ctx.memo("old_table_accessors", build)


def _pending_len_fns(ctx):
    """private methods of the split table that return "the old table's length, or 0 when there is none":
    `self.leftovers.as_ref().map_or(0, |lo| lo.table.len())` or `self.old_table().map_or(0, |t| t.len())`"""
    def build():
        out = set()
        T = ctx.facts.types
        for fb in ctx.facts.bodies.values():
            if fb.kind == "Closure" or fb.arg_count != 1 or self_s_prefix(ctx, fb) is None or fb.loops() or T[fb.locals[0]["ty"]].get("s") != "usize":
                continue
            cc = [x for x in ctx.calls(fb) if not fb.is_cleanup(x.loc.bb)]
            if len(cc) != 2 or cc[1].name != OPT + "map_or" or len(cc[1].args) != 3 or fb.op_const(cc[1].args[1]) != 0:
                continue
            if cc[1].dest is None or cc[1].dest["local"] not in (fb.ret_locals() | {0}):
                continue
            sd = fb.source_def(cc[1].args[0])
            if sd is None or sd[1] != "call" or sd[0] != cc[0].loc:
                continue
            cbs = cc[1].closure_args() + cc[1].fn_value_args()
            if not cbs:
                continue
            lc0 = cc[0].local_callee()
            if cc[0].name in (OPT + "as_ref", OPT + "as_mut") and is_self_left(ctx, fb, cc[0].arg_path(0)) and _yields_old_len(ctx, cbs[0]):
                out.add(fb.path)
            elif lc0 is not None and lc0.path in _old_table_accessors(ctx) and is_self_s(ctx, fb, cc[0].arg_path(0)) and _yields_len_of_param(ctx, cbs[0]):
                out.add(fb.path)
        return out
    return ctx.memo("pending_len_fns", build)


def _yields_len_of_param(ctx, cb):
    """the closure does nothing but return the length of the (hashbrown) table it is handed"""
    cc = [x for x in ctx.calls(cb) if not cb.is_cleanup(x.loc.bb)]
    if len(cc) != 1 or cb.loops() or cc[0].tname != HBT + "len" or cc[0].dest is None or cc[0].dest["local"] not in (cb.ret_locals() | {0}):
        return False
    q = cc[0].arg_path(0)
    first_param = 2 if cb.kind == "Closure" else 1
    return q is not None and q.strip_refs().root == first_param and not q.fields()


class PathExec:
    """Enumerate loop-free paths from the entry of `body` to a target block, evaluating size arithmetic symbolically."""

    def __init__(self, ctx, body):
        self.ctx = ctx
        self.body = body
        self.left_edges = left_test_edges(ctx, body, ignore_debug=True)
        self.empty_edges = old_empty_edges(ctx, body)
        self.paths = []
        self.incomplete = None

    def run(self, target_bb, max_paths=400):
        env = {}
        for l in range(1, self.body.arg_count + 1):
            env[l] = V("p:%s" % self.body.local_name(l))
        self._walk(0, env, {"left": None, "ne": False, "cmps": [], "ver": 0, "oz_ver": None}, (), target_bb, max_paths)
        return self.paths

    # -- values -----------------------------------------------------------
    def op(self, env, o):
        if o["k"] in ("copy", "move"):
            pl = o["place"]
            v = env.get(pl["local"])
            if v is None:
                return ("unknown", "uninitialised _%d" % pl["local"])
            for e in pl["proj"]:
                if e["k"] == "deref":
                    continue
                if e["k"] == "field":
                    if v[0] == "ovf":
                        v = v[1] if e["i"] == 0 else ("unknown", "overflow flag")
                    elif v[0] in ("opt", "res", "branch", "optleft"):
                        v = v[1]
                    elif v[0] == "tuple":
                        v = v[1][e["i"]]
                    elif v[0] == "struct":
                        v = v[2][e["i"]] if e["i"] < len(v[2]) else ("unknown", "field")
                    elif v[0] == "closure" and "closure" in e:
                        v = v[2][e["i"]] if e["i"] < len(v[2]) else ("unknown", "capture")     # a capture of a closure built on this path
                    else:
                        v = ("unknown", "field of %s" % v[0])
                elif e["k"] == "downcast":
                    continue
                else:
                    v = ("unknown", "projection")
            return v
        if o["k"] == "const":
            if "val" in o:
                return C(o["val"])
            return ("unknown", "const %s" % o.get("text"))
        return ("unknown", "operand")

    def rv(self, env, r):
        k = r["k"]
        if k == "use":
            return self.op(env, r["op"])
        if k == "cast":
            v = self.op(env, r["op"])
            if v[0] == "cmp":
                return ("cmpcast", v[1], v[2], v[3])
            return v
        if k in ("ref", "copy_for_deref"):
            return self.op(env, {"k": "copy", "place": r["place"]})
        if k == "discr":
            if not r["place"]["proj"]:
                v = env.get(r["place"]["local"])
                if v is not None and v[0] == "optleft":
                    return ("leftdiscr",)
            return ("unknown", "discriminant")
        if k == "binop":
            a, b = self.op(env, r["a"]), self.op(env, r["b"])
            o = r["op"]
            base = o.replace("WithOverflow", "").replace("Unchecked", "")
            m = {"Add": "add", "Sub": "sub", "Mul": "mul", "Div": "div", "Rem": "rem"}
            if base in m:
                e = (m[base], a, b)
                return ("ovf", e) if o.endswith("WithOverflow") else e
            if o in ("Eq", "Ne", "Lt", "Le", "Gt", "Ge"):
                return ("cmp", o, a, b)
            return ("unknown", "binop %s" % o)
        if k == "aggregate" and r.get("agg") == "tuple":
            return ("tuple", [self.op(env, o) for o in r["ops"]])
        if k == "aggregate" and r.get("agg") == "adt" and r.get("adt") not in ("core::option::Option", "core::result::Result") \
                and self.ctx.facts.adts.get(r.get("adt"), {}).get("kind") == "Struct":
            return ("struct", r["adt"], [self.op(env, o) for o in r["ops"]])
        if k == "aggregate" and r.get("agg") == "closure":
            return ("closure", r["def"], [self.op(env, o) for o in r["ops"]])
        if k == "aggregate" and r.get("adt") == "core::option::Option":
            return ("opt", self.op(env, r["ops"][0])) if r["ops"] else ("unknown", "None")
        if k == "unop" and r["op"] == "Not":
            v = self.op(env, r["a"])
            if v[0] == "cmp":
                inv = {"Eq": "Ne", "Ne": "Eq", "Lt": "Ge", "Ge": "Lt", "Gt": "Le", "Le": "Gt"}
                return ("cmp", inv[v[1]], v[2], v[3])
        return ("unknown", "rvalue %s" % k)

    def call_value(self, env, st, c):
        ctx, b = self.ctx, self.body
        name = c.tname or ""
        args = [self.op(env, a) for a in c.args]
        ver = "" if st["ver"] == 0 else "@%d" % st["ver"]
        if name in (HBT + "len", HBT + "capacity", HBT + "buckets"):
            role = ctx.role(b, c.arg_path(0))
            nm = {HBT + "len": {MAIN: "m", OLD: "o"}, HBT + "capacity": {MAIN: "cap"}, HBT + "buckets": {MAIN: "buckets"}}[name].get(role)
            if nm:
                return V(nm + ver)
            return ("unknown", "%s of an unknown table" % c.method)
        lc_ = c.local_callee()
        if lc_ is not None and lc_.path in _pending_len_fns(ctx) and c.arg_path(0) is not None and is_self_s(ctx, b, c.arg_path(0)):
            return V("oz" + ver)          # `self.pending_moves()`
        if c.method in ("max", "min") and (name.startswith("core::cmp::") or name.startswith("usize::") or "Ord" in (c.trait or "")) and len(args) == 2:
            return (c.method, args[0], args[1])
        if name.startswith("core::num::") or name.startswith("usize::"):
            if c.method in ("checked_add", "checked_sub", "checked_mul") and len(args) == 2:
                return ("opt", ({"checked_add": "add", "checked_sub": "sub", "checked_mul": "mul"}[c.method], args[0], args[1]))
            if c.method in ("saturating_add", "wrapping_add") and len(args) == 2 and c.method == "saturating_add":
                return ("add", args[0], args[1])
            if c.method == "div_ceil" and len(args) == 2 and args[1][0] == "const" and args[1][1] >= 1:
                return ceil_div(args[0], args[1][1])       # the exact ceiling (cannot overflow), the same number as (a + c - 1) / c
        if name == OPT + "map_or" and len(c.args) == 3:
            # LEFT.as_ref().map_or(0, |t| t.table.len())
            src = b.source_def(c.args[0])
            from_left = False
            if src is not None and src[1] == "call":
                sc = ctx.call_at(b, src[0].bb)
                if sc.name in (OPT + "as_ref", OPT + "as_mut") and is_self_left(ctx, b, sc.arg_path(0)):
                    from_left = True
            elif is_self_left(ctx, b, c.arg_path(0)):
                from_left = True
            cbs = c.closure_args() + c.fn_value_args()        # `|t| t.table.len()` or a named accessor `OldTable::len`
            if from_left and cbs and args[1] == C(0):
                cb = cbs[0]
                if _yields_old_len(ctx, cb):
                    return V("oz" + ver)
            # the old table handed out by an accessor of the split table: self.old_table().map_or(0, |t| t.len())
            if src is not None and src[1] == "call" and cbs and args[1] == C(0):
                sc = ctx.call_at(b, src[0].bb)
                lc = sc.local_callee()
                if lc is not None and lc.path in _old_table_accessors(ctx) and is_self_s(ctx, b, sc.arg_path(0)) and _yields_len_of_param(ctx, cbs[0]):
                    return V("oz" + ver)
            return ("unknown", "map_or")
        if name == OPT + "map" and len(c.args) == 2 and (c.closure_args() or c.fn_value_args()):
            # LEFT.as_ref().map(|t| t.table.len()): Some(o) exactly when an old table is pending
            src = b.source_def(c.args[0])
            from_left = is_self_left(ctx, b, c.arg_path(0))
            if src is not None and src[1] == "call":
                sc = ctx.call_at(b, src[0].bb)
                if sc.name in (OPT + "as_ref", OPT + "as_mut") and is_self_left(ctx, b, sc.arg_path(0)):
                    from_left = True
            cb = (c.closure_args() + c.fn_value_args())[0]
            if from_left and _yields_old_len(ctx, cb):
                return ("optleft", V("o" + ver))
        if name in (OPT + "and_then", OPT + "map") and len(args) == 2 and args[0][0] == "opt" and args[1][0] == "closure":
            cb = ctx.facts.by_dpath.get(args[1][1])
            if cb is not None and not cb.loops():
                sub = PathExec(ctx, cb)
                res = []
                for rb in cb.return_blocks():
                    sub.paths = []
                    sub._walk(0, {1: ("tuple", args[1][2]), 2: args[0][1]}, {"left": None, "ne": False, "cmps": [], "ver": st["ver"], "oz_ver": None}, (), rb, 8)
                    res += [p["env"].get(0) for p in sub.paths]
                res = [r_ for r_ in res if r_ is not None]
                if len(res) == 1:
                    v = res[0]
                    if name == OPT + "map":
                        return ("opt", v)
                    return v if v[0] == "opt" else ("unknown", "and_then closure result")
            return ("unknown", "and_then/map closure")
        if name in (OPT + "ok_or", OPT + "ok_or_else"):
            v = args[0]
            return ("res", v[1]) if v[0] == "opt" else ("unknown", "ok_or of %s" % v[0])
        if name in (OPT + "expect", OPT + "unwrap", "core::result::Result::expect", "core::result::Result::unwrap", OPT + "unwrap_or_else"):
            v = args[0]
            return v[1] if v[0] in ("opt", "res", "branch") else v
        if name.endswith("Try::branch") or (c.name or "").endswith("Try::branch"):
            v = args[0]
            return ("branch", v[1]) if v[0] in ("opt", "res") else ("unknown", "branch")
        lc = c.local_callee()
        if lc is not None and lc.kind != "Closure":
            v = self.inline(lc, args, st)
            if v is not None:
                return v
        if name.endswith("From::from") or name.endswith("Into::into") or (c.name or "").endswith(("From::from", "Into::into")):
            if args[0][0] == "cmp":
                return ("cmpcast", args[0][1], args[0][2], args[0][3])      # usize::from(bool)
            return args[0]
        return ("unknown", "call %s" % (c.tname or "<indirect>"))

    def inline(self, lc, args, st, depth=0):
        """value of a call of a small pure griddle helper (loop-free, no &mut arguments anywhere, integer result), evaluated symbolically"""
        ctx = self.ctx
        T = ctx.facts.types
        if getattr(self, "_depth", 0) > 3 or lc.loops() or T[lc.locals[0]["ty"]].get("k") != "int":
            return None
        for cc in ctx.calls(lc):
            if lc.is_cleanup(cc.loc.bb):
                continue
            for a in cc.args:
                if a["k"] in ("copy", "move"):
                    at = T[a["place"]["ty"]]
                    if at.get("k") == "ref" and at.get("mut"):
                        return None
            if cc.unresolved:
                return None
        sub = PathExec(ctx, lc)
        sub._depth = getattr(self, "_depth", 0) + 1
        results = []
        for rb in lc.return_blocks():
            sub.paths = []
            env = {i + 1: a for i, a in enumerate(args)}
            sub._walk(0, env, {"left": st["left"], "ne": st["ne"], "cmps": [], "ver": st["ver"], "oz_ver": None}, (), rb, 16)
            for p in sub.paths:
                v = p["env"].get(0)
                if v is not None:
                    results.append((p["state"]["left"], v))
        if sub.incomplete or not results:
            return None
        distinct = []
        for lf, v in results:
            if v not in [x[1] for x in distinct]:
                distinct.append((lf, v))
        if len(distinct) == 1:
            return distinct[0][1]
        # the "pending old elements or 0" shape: LEFT = Some -> o, LEFT = None -> 0
        if len(distinct) == 2:
            byleft = {lf: v for lf, v in distinct}
            if byleft.get(N) == C(0) and byleft.get(S) is not None and byleft[S][0] == "var" and byleft[S][1].startswith("o"):
                ver = "" if st["ver"] == 0 else "@%d" % st["ver"]
                if st["left"] == S:
                    return byleft[S]
                if st["left"] == N:
                    return C(0)
                return V("oz" + ver)
            # general form: the value with an old table pending, f(m, o), and the value without, f(m, 0): one expression over `oz`
            eS, eN = byleft.get(S), byleft.get(N)
            if eS is not None and eN is not None and not sx.find_unknown(eS) and not sx.find_unknown(eN):
                def subst(e, frm, to):
                    if e[0] == "var":
                        return to if e[1].split("@")[0] == frm else e
                    if e[0] == "const":
                        return e
                    return tuple(subst(x, frm, to) if isinstance(x, tuple) else x for x in e)
                e0 = subst(eS, "o", C(0))
                try:
                    same = sx.prove_ge(e0, eN)[0] and sx.prove_ge(eN, e0)[0]
                except Exception:
                    same = False
                if same:
                    if st["left"] == S:
                        return eS
                    if st["left"] == N:
                        return eN
                    ver = "" if st["ver"] == 0 else "@%d" % st["ver"]
                    return subst(eS, "o", V("oz" + ver))
        return None

    def mutates_tables(self, c):
        ctx, b = self.ctx, self.body
        T = ctx.facts.types
        for i, a in enumerate(c.args):
            if a["k"] not in ("copy", "move"):
                continue
            aty = T[a["place"]["ty"]]
            if not (aty.get("k") == "ref" and aty.get("mut")):
                continue
            p = c.arg_path(i)
            if p is None:
                continue
            if is_self_s(ctx, b, p) or ctx.role(b, p) in (MAIN, OLD, LEFT, CURSOR):
                return True
        return False

    # -- walk ---------------------------------------------------------------
    def _walk(self, bb, env, st, trail, target_bb, max_paths):
        if len(self.paths) >= max_paths:
            self.incomplete = "more than %d paths" % max_paths
            return
        if bb in trail:
            self.incomplete = "loop on the way to the site (bb%d)" % bb
            return
        b = self.body
        if b.is_cleanup(bb):
            return
        trail = trail + (bb,)
        env = dict(env)
        st = dict(st, cmps=list(st["cmps"]))
        for s_ in b.stmts(bb):
            if s_["k"] != "assign":
                continue
            pl = s_["place"]
            if pl["proj"]:
                p = b.expand(pl, alias=True)
                if is_self_left(self.ctx, b, b.expand(pl)):
                    rvv = s_["rv"]
                    from rules_typestate import _opt_value_state
                    newv = None
                    if rvv["k"] == "aggregate" and rvv.get("adt") == "core::option::Option":
                        newv = N if rvv.get("variant") == "None" else S
                    elif rvv["k"] == "use":
                        newv = _opt_value_state(b, rvv["op"])
                    if newv == N:
                        st["left"] = N
                        st["ne"] = True
                    else:
                        st["left"] = S if newv == S else None
                        st["ne"] = False
                    st["ver"] += 1
                elif p.root in env and p.root != pl["local"]:
                    env[p.root] = ("unknown", "written through a pointer")
                elif pl["proj"][0]["k"] != "deref":
                    env[pl["local"]] = ("unknown", "partial write")
                continue
            env[pl["local"]] = self.rv(env, s_["rv"])
        t = b.term(bb)
        k = t["k"]
        if bb == target_bb:
            self.paths.append({"env": env, "state": st, "trail": trail})
            return
        if k == "goto":
            return self._walk(t["target"], env, st, trail, target_bb, max_paths)
        if k in ("drop", "assert"):
            return self._walk(t["target"], env, st, trail, target_bb, max_paths)
        if k == "call":
            c = self.ctx.call_at(b, bb)
            if c.target is None:
                return
            val = self.call_value(env, st, c)
            if c.name in (OPT + "take", "core::mem::take") and is_self_left(self.ctx, b, c.arg_path(0)):
                st["left"] = N
                st["ne"] = True
                st["ver"] += 1
            elif self.mutates_tables(c):
                lc = c.local_callee()
                st["ver"] += 1
                if lc is not None:
                    post = typestate(self.ctx).summ(lc.path, st["left"] or TOP)
                    st["left"] = post if post in (N, S) else None
                    st["ne"] = (post == N)
                else:
                    # hashbrown mutation of MAIN/OLD: LEFT discriminant unchanged, emptiness knowledge lost
                    st["ne"] = st["left"] == N
            if c.dest is not None and not c.dest["proj"]:
                env[c.dest["local"]] = val
            return self._walk(c.target, env, st, trail, target_bb, max_paths)
        if k == "switch":
            cond = self.op(env, t["discr"])
            for s_ in b.succs(bb):
                st2 = dict(st, cmps=list(st["cmps"]))
                lf = self.left_edges.get((bb, s_))
                if lf is not None:
                    if st2["left"] in (N, S) and st2["left"] != lf:
                        continue   # infeasible
                    st2["left"] = lf
                    if lf == N:
                        st2["ne"] = True
                ee = self.empty_edges.get((bb, s_))
                if ee is not None:
                    if ee is False:
                        st2["ne"] = True
                        st2["nonempty"] = True
                    elif ee == "NE":
                        st2["ne"] = True      # not pending, or pending and non-empty
                    else:
                        st2["empty"] = True
                if cond[0] == "leftdiscr":
                    vals = [v for v, tb in t["targets"] if tb == s_]
                    lf2 = None
                    if vals == [1]:
                        lf2 = S
                    elif vals == [0]:
                        lf2 = N
                    elif s_ == t["otherwise"] and not vals:
                        others = [v for v, _ in t["targets"]]
                        lf2 = N if others == [1] else S if others == [0] else None
                        if b.term(s_)["k"] == "unreachable":
                            continue
                    if lf2 is not None:
                        if st2["left"] in (N, S) and st2["left"] != lf2:
                            continue
                        st2["left"] = lf2
                        if lf2 == N:
                            st2["ne"] = True
                if cond[0] == "cmp":
                    vals = [v for v, tb in t["targets"] if tb == s_]
                    truth = None
                    if s_ == t["otherwise"] and [v for v, _ in t["targets"]] == [0]:
                        truth = True
                    elif vals == [0]:
                        truth = False
                    if truth is not None:
                        st2["cmps"].append((cond[1], cond[2], cond[3], truth))
                elif cond[0] == "const" and not any(m in ("cfg", "$crate::cfg", "debug_assert") or m.endswith("::cfg") for m in t["span"]["macros"]):
                    # (constants produced by cfg!(debug_assertions) are profile switches: both arms are explored)
                    want = [tb for v, tb in t["targets"] if v == cond[1]]
                    tgt = want[0] if want else t["otherwise"]
                    if s_ != tgt:
                        continue
                self._walk(s_, env, st2, trail, target_bb, max_paths)
            return
        return


def constraints_of(st):
    """path comparisons as (L, R, strict) facts usable by the prover"""
    out = []
    for op, a, b, truth in st["cmps"]:
        if not truth:
            op = {"Eq": "Ne", "Ne": "Eq", "Lt": "Ge", "Ge": "Lt", "Gt": "Le", "Le": "Gt"}[op]
        if op == "Gt":
            out.append((a, b, True))
        elif op == "Ge":
            out.append((a, b, False))
        elif op == "Lt":
            out.append((b, a, True))
        elif op == "Le":
            out.append((b, a, False))
    return [c for c in out if not sx.find_unknown(c[0]) and not sx.find_unknown(c[1])]


def R_const(ctx):
    return ctx.batch_const()


def ceil_div(v, r):
    return ("div", ("add", v, C(r - 1)), C(r))


def cur(st, nm):
    return V(nm + ("" if st["ver"] == 0 else "@%d" % st["ver"]))


# ---------------------------------------------------------------------------
def rule_s_grow(ctx):
    R = RuleResult("S-grow", "the table installed by growth has room for every element of the table it replaces (L), for the insertions needed to move them "
                   "(ceil(L/R)) and for the requested extra: at each allocation site arg >= L + max(extra, ceil(L/R)), proved symbolically for all L, extra")
    Rc = R_const(ctx)
    if not Rc:
        R.anchor("R", "batch size constant not found")
        return R
    n = 0
    for b, loc, c in replacer_sites(ctx):
        # the installing step split off into a helper that is handed the new table (`fn split(&mut self, new_main: RawTable, ..)`): the table
        # is sized and allocated by the callers, and each of them carries the obligation at its call of the helper
        newp = None
        if c is not None and c.name == "core::mem::replace" and len(c.args) > 1:
            newp = c.arg_path(1)
        elif c is None:
            st_ = b.stmts(loc.bb)[loc.i] if loc.i < len(b.stmts(loc.bb)) else None
            if st_ is not None and st_["rv"]["k"] == "use" and st_["rv"]["op"]["k"] in ("copy", "move"):
                newp = b.op_path(st_["rv"]["op"])
        own_alloc = any(x.tname in (HBT + "with_capacity", HBT + "try_with_capacity") for x in ctx.calls(b) if not b.is_cleanup(x.loc.bb))
        if newp is not None and 2 <= newp.root <= b.arg_count and not newp.fields() and not own_alloc and b.kind != "Closure":
            callers = 0
            for b2 in ctx.facts.bodies.values():
                for c2 in ctx.calls(b2):
                    lc2 = c2.local_callee()
                    if lc2 is not None and lc2.path == b.path and not b2.is_cleanup(c2.loc.bb):
                        callers += 1
                        n += _grow_body_check(ctx, R, b2, c2.loc, Rc)
            R.inst(fn=b.path, site=b.where(loc), verdict="installs a table handed in by its %d caller(s): sized there" % callers)
            if callers:
                continue
        n += _grow_body_check(ctx, R, b, loc, Rc)
    if n < 1:
        R.anchor("alloc-sites", "expected an allocation site in the replacer, found %d" % n)
    return R


def _main_len_reads(ctx, b):
    """blocks of b that read MAIN.len()"""
    return [c.loc.bb for c in ctx.calls(b) if c.tname == HBT + "len" and ctx.role(b, c.arg_path(0)) == MAIN and not b.is_cleanup(c.loc.bb)]


def _grow_body_check(ctx, R, b, loc, Rc):
    """the obligations of S-grow for one body that replaces MAIN at loc; returns the number of allocation sites checked"""
    n = 0
    if True:
        if self_s_prefix(ctx, b) is None:
            return 0
        allocs = [(x, x.args[0]) for x in ctx.calls(b) if x.tname in (HBT + "with_capacity", HBT + "try_with_capacity") and not b.is_cleanup(x.loc.bb)]
        # allocation delegated to a small helper: the helper passes one of its own parameters straight to hashbrown
        for x in ctx.calls(b):
            lc = x.local_callee()
            if lc is None or lc.kind == "Closure" or b.is_cleanup(x.loc.bb) or lc.path == b.path:
                continue
            from core import ty_contains_adt
            if not ty_contains_adt(ctx.facts.types, lc.locals[0]["ty"], "hashbrown::raw::RawTable"):
                continue      # not a function that hands back a table
            inner = [y for y in ctx.calls(lc) if y.tname in (HBT + "with_capacity", HBT + "try_with_capacity") and not lc.is_cleanup(y.loc.bb)]
            if not inner:
                continue
            idxs = set()
            for y in inner:
                q = y.arg_path(0)
                if q is not None and 1 <= q.root <= lc.arg_count and not q.fields():
                    idxs.add(q.root - 1)
                else:
                    idxs.add(None)
            if len(idxs) == 1 and None not in idxs:
                allocs.append((x, x.args[idxs.pop()]))
            else:
                R.viol("%s:alloc-helper" % b.path, x.where(), "the allocation helper %s does not pass a plain parameter to hashbrown (unproven)" % lc.path)
        if not allocs:
            R.viol("%s:no-alloc" % b.path, b.where(loc), "MAIN is replaced by a table not allocated in the same body (unproven)")
            return 0
        usize_params = [l for l in range(2, b.arg_count + 1) if ctx.facts.types[b.locals[l]["ty"]]["s"] == "usize"]
        for a, size_op in allocs:
            n += 1
            pe = PathExec(ctx, b)
            paths = pe.run(a.loc.bb)
            key = "%s:%s" % (b.path, a.method)
            if pe.incomplete or not paths:
                R.inst(fn=b.path, site=a.where(), verdict="VIOLATION")
                R.viol(key + ":unproven", a.where(), "cannot enumerate the paths to the allocation (%s)" % (pe.incomplete or "unreachable"))
                continue
            bad = None
            shown = None
            for p in paths:
                arg = pe.op(p["env"], size_op)
                shown = sx.show(arg)
                u = sx.find_unknown(arg)
                if u:
                    bad = "allocation size %s is outside the size-expression class (%s)" % (shown, u)
                    break
                if arg[0] == "const" and arg[1] >= (1 << 63) - 1:
                    continue   # hashbrown contract: an allocation of >= isize::MAX elements always fails (capacity overflow), nothing is installed
                L = cur(p["state"], "m")
                obligations = [("add", L, ceil_div(L, Rc))] + [("add", L, V("p:%s" % b.local_name(l))) for l in usize_params]
                for ob in obligations:
                    ok, detail = sx.prove_ge(arg, ob, 0, constraints=constraints_of(p["state"]))
                    if not ok:
                        bad = "allocation size %s is not provably >= %s: %s" % (shown, sx.show(ob), detail)
                        break
                if bad:
                    break
            if not bad:
                # the obligation is stated for the main table's length when the size is computed: nothing may add to the main table between
                # there and the installation of the new table (e.g. finishing a pending move after sizing would make the new table too small)
                from rules_protocol import between_blocks
                pe2 = PathExec(ctx, b)
                sl, _ = b.slice_back(a.loc, [size_op])
                sizing_reads = [rd for rd in _main_len_reads(ctx, b) if any(l.bb == rd and l.i == len(b.stmts(rd)) for l in sl)]
                for x in sorted(between_blocks(b, 0, loc.bb) | {0}):
                    if b.term(x)["k"] != "call" or x == loc.bb or b.is_cleanup(x):
                        continue
                    cx = ctx.call_at(b, x)
                    if pe2.mutates_tables(cx) and any(rd in b.dom().get(x, set()) for rd in sizing_reads) \
                            and not (cx.name in ("core::mem::replace", "core::mem::swap") and x == loc.bb):
                        bad = "the main table may change (%s at %s) after its length was read for sizing and before the new table is installed" % (cx.tname, cx.where())
                        break
            R.inst(fn=b.path, site=a.where(), arg=shown, paths=len(paths), obligation="arg >= L + ceil(L/%d) and arg >= L + extra" % Rc, verdict="ok" if not bad else "VIOLATION")
            if bad:
                R.viol(key, a.where(), "growth in %s: %s. With a tighter table hashbrown's with_capacity can be exact (e.g. 28 of 32 buckets), so moving the "
                       "remaining elements would hit a full table" % (b.path, bad))
    return n


def rule_s_shrink(ctx):
    R = RuleResult("S-shrink", "shrink_to keeps room for the pending old table: whenever an old table may be pending, the bound handed to hashbrown satisfies "
                   "arg - len(main) >= o + ceil(o/R); and (S-full) if the tree assumes `main full => no old table` then arg - len(main) >= 1")
    Rc = R_const(ctx)
    assumed = assumed_full_unsplit(ctx)
    n = 0
    for body, c, role, recv in hb_calls(ctx):
        if c.tname != HBT + "shrink_to" or role != MAIN:
            continue
        n += 1
        pe = PathExec(ctx, body)
        paths = pe.run(c.loc.bb)
        key = "%s:%s" % (body.path, c.tname)
        if pe.incomplete or not paths:
            R.inst(fn=body.path, site=c.where(), verdict="VIOLATION")
            R.viol(key + ":unproven", c.where(), "cannot enumerate the paths to the shrink (%s)" % (pe.incomplete or "unreachable"))
            continue
        bad_head = None
        bad_full = None
        shown = None
        # the caller's own bound is honoured: on every path (split or not) what is handed to hashbrown is at least the `min_size` the function was
        # asked for — hashbrown then keeps capacity >= min(min_size, capacity) (C10); the resize headroom may only raise the bound, never replace it
        req_params = [l for l in range(2, body.arg_count + 1) if ctx.facts.types[body.locals[l]["ty"]]["s"] == "usize"] if self_s_prefix(ctx, body) is not None else []
        for p in paths:
            arg0 = pe.op(p["env"], c.args[1])
            if sx.find_unknown(arg0):
                continue          # reported below as outside the size-expression class (on the paths where an old table may be pending)
            for l in req_params:
                okq, detq = sx.prove_ge(arg0, V("p:%s" % body.local_name(l)), 0, constraints=constraints_of(p["state"]))
                if not okq:
                    R.viol(key + ":request", c.where(), "shrink in %s: on a path (blocks %s) the bound %s handed to hashbrown is not provably >= the requested minimum `%s`: "
                           "the table may end up smaller than the caller asked for (%s)" % (body.path, list(p["trail"]), sx.show(arg0), body.local_name(l), detq))
                    req_params = []
                    break
        for p in paths:
            st = p["state"]
            if st["left"] == N:
                continue
            arg = pe.op(p["env"], c.args[1])
            shown = sx.show(arg)
            u = sx.find_unknown(arg)
            if u:
                bad_head = "bound %s is outside the size-expression class (%s)" % (shown, u)
                break
            m, o = cur(st, "m"), cur(st, "o")
            # the obligation is about the case that an old table is pending; there "the old table's length, or 0 when there is none"
            # (oz, e.g. a `pending_moves()` helper read once into a local) is the old table's length
            def _oz_is_o(e):
                if not isinstance(e, tuple):
                    return e
                if e[0] == "var" and isinstance(e[1], str) and (e[1] == "oz" or e[1].startswith("oz@")):
                    return ("var", "o" + e[1][2:])
                if e[0] == "const":
                    return e
                return tuple(_oz_is_o(x) if isinstance(x, tuple) else x for x in e)
            arg = _oz_is_o(arg)
            # o read earlier under the same version?  if the path never read o we cannot relate: use the variable anyway
            lower = {}
            if st.get("nonempty") or (st["ne"] and st["left"] == S):
                lower[o[1]] = 1
            if st["left"] is None and not st["ne"]:
                pass
            ok, detail = sx.prove_ge(arg, ("add", m, ("add", o, ceil_div(o, Rc))), 0, lower=lower, constraints=constraints_of(st))
            if not ok and bad_head is None:
                bad_head = "on a path where an old table may be pending (blocks %s) the bound %s is not provably >= len + o + ceil(o/%d): %s" % (
                    list(p["trail"]), shown, Rc, detail)
            if assumed:
                ok2, detail2 = sx.prove_ge(arg, ("add", m, C(1)), 0, lower=lower, constraints=constraints_of(st), split_extra={o[1]: Rc})
                if not ok2 and bad_full is None:
                    bad_full = "on a path where an old table is pending (possibly empty: blocks %s) the bound %s is not provably >= len + 1: %s" % (
                        list(p["trail"]), shown, detail2)
        R.inst(fn=body.path, site=c.where(), bound=shown, paths=len(paths), headroom="ok" if not bad_head else "VIOLATION",
               full_unsplit="n/a" if not assumed else ("ok" if not bad_full else "VIOLATION"), verdict="ok" if not (bad_head or bad_full) else "VIOLATION")
        if bad_head:
            R.viol(key + ":headroom", c.where(), "shrink in %s: %s" % (body.path, bad_head))
        if bad_full:
            R.viol("S-full:" + key, c.where(), "shrink in %s: %s — but %s asserts (in all profiles) that a full main table implies no pending old table (%s): "
                   "the shrunk table can be exactly full while an emptied old table is still installed, and the next insertion panics"
                   % (body.path, bad_full, assumed[0][0], assumed[0][1]))
    if n < 1:
        R.anchor("shrink-sites", "no shrink_to on MAIN found")
    return R


def rule_s_reserve(ctx):
    R = RuleResult("S-reserve", "reserve/try_reserve: the in-place branch is guarded by a condition implying free(main) >= pending + additional and asks hashbrown "
                   "for no more than the free space (so hashbrown neither reallocates nor calls the stub hasher); every other branch reaches growth with "
                   "extra >= additional")
    n = 0
    ts = typestate(ctx)
    reps = {b.path for b, _, _ in replacer_sites(ctx)}
    for body, c, role, recv in hb_calls(ctx):
        if c.tname not in (HBT + "reserve", HBT + "try_reserve") or role != MAIN:
            continue
        n += 1
        key = "%s:%s" % (body.path, c.tname)
        usize_params = [l for l in range(2, body.arg_count + 1) if ctx.facts.types[body.locals[l]["ty"]]["s"] == "usize"]
        pe = PathExec(ctx, body)
        paths = pe.run(c.loc.bb)
        if pe.incomplete or not paths:
            R.inst(fn=body.path, site=c.where(), verdict="VIOLATION")
            R.viol(key + ":unproven", c.where(), "cannot enumerate the paths to the in-place reserve (%s)" % (pe.incomplete or "unreachable"))
            continue
        bad = None
        shown = None
        for p in paths:
            st = p["state"]
            arg = pe.op(p["env"], c.args[1])
            shown = sx.show(arg)
            u = sx.find_unknown(arg)
            if u:
                bad = "amount %s is outside the size-expression class (%s)" % (shown, u)
                break
            m, cap = cur(st, "m"), cur(st, "cap")
            free = ("sub", cap, m)
            cons = constraints_of(st)
            # (a) hashbrown is asked for no more than the free space
            ok, d = sx.prove_ge(free, arg, 0, constraints=cons)
            if not ok:
                bad = "the in-place branch asks hashbrown for %s, not provably <= capacity - len of the main table under the branch condition: %s" % (shown, d)
                break
            # (b) the free space covers pending + additional
            pending = cur(st, "oz") if st["left"] != N else C(0)
            if st["left"] == S:
                pending = cur(st, "o")
            for l in usize_params:
                ok, d = sx.prove_ge(free, ("add", pending, V("p:%s" % body.local_name(l))), 0, constraints=cons)
                if not ok:
                    bad = "the branch condition does not imply capacity - len >= pending old elements + %s: %s" % (body.local_name(l), d)
                    break
            if bad:
                break
        R.inst(fn=body.path, site=c.where(), amount=shown, paths=len(paths), verdict="ok" if not bad else "VIOLATION")
        if bad:
            R.viol(key, c.where(), "%s: %s" % (body.path, bad))
    # growth calls pass at least `additional`
    g = 0
    for b in ts.bodies:
        if b.name not in ("reserve", "try_reserve"):
            continue
        usize_params = [l for l in range(2, b.arg_count + 1) if ctx.facts.types[b.locals[l]["ty"]]["s"] == "usize"]
        if b.path in reps:
            # the growth happens in this very body (helper merged into it): arg >= L + <each usize parameter of this body> is proved here
            Rc_ = R_const(ctx)
            for rb_, rloc_, _ in replacer_sites(ctx):
                if rb_.path == b.path and Rc_:
                    g += 1 if _grow_body_check(ctx, R, b, rloc_, Rc_) else 0
        for c in ctx.calls(b):
            lc = c.local_callee()
            if lc is None or not (lc.path in reps or any(p in reps for p in ctx.reachable_bodies(lc.path))) or lc.path in movers(ctx):
                continue
            if not is_self_s(ctx, b, c.arg_path(0)):
                continue
            g += 1
            pe = PathExec(ctx, b)
            paths = pe.run(c.loc.bb)
            bad = None
            for p in paths:
                vals = [pe.op(p["env"], a) for a in c.args[1:]]
                sizes = [v for v, a in zip(vals, c.args[1:]) if a["k"] != "const" and ctx.facts.types[a["place"]["ty"]]["s"] == "usize"]
                for l in usize_params:
                    want = V("p:%s" % b.local_name(l))
                    if not any(sx.prove_ge(v, want, 0)[0] for v in sizes if not sx.find_unknown(v)):
                        bad = "growth is requested with %s, not provably >= %s" % ([sx.show(v) for v in sizes], b.local_name(l))
            R.inst(fn=b.path, site=c.where(), callee=lc.path, verdict="ok" if not bad else "VIOLATION")
            if bad:
                R.viol("%s:grow-extra" % b.path, c.where(), "%s: %s" % (b.path, bad))
    # every way through reserve / try_reserve reserves in place or grows: a path that does neither returns having promised room it did not make
    from rules_typestate import _must_pass
    for b in ts.bodies:
        if b.name not in ("reserve", "try_reserve"):
            continue
        done = set()
        for c in ctx.calls(b):
            if b.is_cleanup(c.loc.bb):
                continue
            lc = c.local_callee()
            if c.tname in (HBT + "reserve", HBT + "try_reserve") and ctx.role(b, c.arg_path(0)) == MAIN:
                done.add(c.loc.bb)
            elif lc is not None and (lc.path in reps or any(p in reps for p in ctx.reachable_bodies(lc.path))) and lc.path not in movers(ctx) \
                    and is_self_s(ctx, b, c.arg_path(0)):
                done.add(c.loc.bb)
        for rb_, rloc_, _ in replacer_sites(ctx):
            if rb_.path == b.path:
                done.add(rloc_.bb)
        for c in ctx.calls(b):
            # (with the growth helper merged into this body:) an allocation was attempted, or the failure of one / of the size arithmetic is being
            # handed to the caller — that path promises nothing
            if not b.is_cleanup(c.loc.bb) and (c.tname in (HBT + "with_capacity", HBT + "try_with_capacity") or (c.name or "").endswith("from_residual")):
                done.add(c.loc.bb)
        for loc_, st_ in b.all_assigns():
            if not b.is_cleanup(loc_.bb) and st_["rv"]["k"] == "aggregate" and st_["rv"].get("adt") == "core::result::Result" and st_["rv"].get("variant") == "Err":
                done.add(loc_.bb)
        w = _must_pass(b, [0], done, set())
        R.inst(fn=b.path, check="every path reserves in place or grows", verdict="ok" if w is None else "VIOLATION")
        if w is not None:
            R.viol("%s:no-room-made" % b.path, b.where(Loc(w[-1], 0)), "%s can return (path %s) without reserving in place and without growing: the caller was promised room "
                   "for `additional` more elements" % (b.path, " -> ".join("bb%d" % x for x in w)))
    # the fallibility switch of the sizing helper: `true` exactly where the caller hands the error on
    T = ctx.facts.types
    for F in ctx.facts.bodies.values():
        if F.kind == "Closure":
            continue
        kinds = {c.tname for c in ctx.calls(F) if not F.is_cleanup(c.loc.bb)}
        if not ({HBT + "with_capacity", HBT + "try_with_capacity"} <= kinds):
            continue
        bparams = [l for l in range(1, F.arg_count + 1) if T[F.locals[l]["ty"]].get("k") == "bool"]
        sel = []
        for l in bparams:
            for bb in F.reachable():
                t = F.term(bb)
                if t["k"] == "switch" and t["discr"]["k"] in ("copy", "move"):
                    pth = F.op_path(t["discr"])
                    if pth is not None and pth.root == l and not pth.fields():
                        # which allocation sits on which side
                        tgt_true = [t["otherwise"]] if [v for v, _ in t["targets"]] == [0] else [tb for v, tb in t["targets"] if v == 1]
                        fall_true = any(c.tname == HBT + "try_with_capacity" and c.loc.bb in F.reach_from(tgt_true) for c in ctx.calls(F))
                        sel.append((l, fall_true))
        if len(sel) != 1:
            continue
        l, true_is_fallible = sel[0]
        for b2 in ctx.facts.bodies.values():
            for c2 in ctx.calls(b2):
                lc2 = c2.local_callee()
                if lc2 is None or lc2.path != F.path or b2.is_cleanup(c2.loc.bb) or l - 1 >= len(c2.args):
                    continue
                v = b2.op_const(c2.args[l - 1])
                if v is None:
                    continue
                own = ctx.facts.closure_parent(b2)
                hands_on = T[own.locals[0]["ty"]].get("adt") == "core::result::Result"
                asked_fallible = bool(v) == true_is_fallible
                ok_ = asked_fallible == hands_on
                R.inst(fn=b2.path, site=c2.where(), callee=F.path, fallible=asked_fallible, caller_returns_result=hands_on, verdict="ok" if ok_ else "VIOLATION")
                if not ok_:
                    R.viol("%s:fallibility" % b2.path, c2.where(), "%s asks %s for the %s allocation but %s: %s" % (
                        b2.path, F.path, "fallible" if asked_fallible else "infallible (panicking / aborting)",
                        "returns a Result its caller expects to carry the failure" if hands_on else "has no way to report a failure",
                        "an allocation failure or capacity overflow panics instead of being returned" if hands_on else "an Err comes back that nothing can hand on"))
    # the same, seen from inside a fallible operation (also after the helper has been merged into it): an allocation that panics or aborts on failure
    # is only reachable under a test of a fallibility parameter of that very function
    for b2 in ctx.facts.bodies.values():
        if b2.kind == "Closure" or T[b2.locals[0]["ty"]].get("adt") != "core::result::Result" or "TryReserveError" not in T[b2.locals[0]["ty"]]["s"]:
            continue
        for c2 in ctx.calls(b2):
            if c2.tname != HBT + "with_capacity" or b2.is_cleanup(c2.loc.bb):
                continue
            guarded = False
            for bb in b2.reachable():
                t = b2.term(bb)
                if t["k"] != "switch" or t["discr"]["k"] not in ("copy", "move"):
                    continue
                pth = b2.op_path(t["discr"])
                if pth is not None and 1 <= pth.root <= b2.arg_count and not pth.fields() and T[b2.locals[pth.root]["ty"]].get("k") == "bool" \
                        and (bb == c2.loc.bb or bb in b2.dom().get(c2.loc.bb, set())):
                    guarded = True
            R.inst(fn=b2.path, site=c2.where(), allocation="infallible", verdict="ok: only under the function's own fallibility parameter" if guarded else "VIOLATION")
            if not guarded:
                R.viol("%s:infallible-allocation" % b2.path, c2.where(), "%s returns a Result for allocation failures but allocates with %s, which panics or aborts instead "
                       "of returning the error" % (b2.path, c2.tname))
    # .. and across calls: a function that reports allocation failures (returns Result<_, TryReserveError>) never calls an *infallible grower* —
    # a function that asks the sizing helper for the infallible allocation (`grow`), or calls hashbrown's with_capacity outside a fallibility test,
    # or calls such a function without itself being able to report the failure (`reserve` at every layer).  `try_reserve` calling `reserve` / `grow`
    # would panic or abort where it promises an Err.
    def returns_try_err(bd):
        t0 = T[bd.locals[0]["ty"]]
        return t0.get("adt") == "core::result::Result" and "TryReserveError" in t0["s"]
    inf = {}
    for i in R.instances:
        if i.get("callee") and i.get("fallible") is False and i.get("fn") in ctx.facts.bodies and not returns_try_err(ctx.facts.closure_parent(ctx.facts.bodies[i["fn"]])):
            inf[ctx.facts.closure_parent(ctx.facts.bodies[i["fn"]]).path] = "asks %s for the infallible allocation" % i["callee"]
    for b2 in ctx.facts.bodies.values():
        if b2.kind == "Closure" or returns_try_err(b2):
            continue
        if any(c2.tname == HBT + "with_capacity" and not b2.is_cleanup(c2.loc.bb) for c2 in ctx.calls(b2)) and self_s_prefix(ctx, b2) is not None \
                and b2.arg_count >= 1 and b2.name not in ("with_capacity", "new", "default", "clone", "clone_with_hasher"):
            inf.setdefault(b2.path, "allocates with hashbrown's with_capacity")
    changed = True
    rounds = 0
    while changed and rounds < 8:
        changed = False
        rounds += 1
        for b2 in ctx.facts.bodies.values():
            own = ctx.facts.closure_parent(b2)
            if own.path in inf or returns_try_err(own):
                continue
            for c2 in ctx.calls(b2):
                lc2 = c2.local_callee()
                if lc2 is not None and lc2.path in inf and not b2.is_cleanup(c2.loc.bb) and lc2.name in ("reserve", "grow") :
                    inf[own.path] = "calls %s" % lc2.path
                    changed = True
                    break
    nf = 0
    for b2 in ctx.facts.bodies.values():
        own = ctx.facts.closure_parent(b2)
        if not returns_try_err(own):
            continue
        for c2 in ctx.calls(b2):
            lc2 = c2.local_callee()
            if lc2 is None or b2.is_cleanup(c2.loc.bb):
                continue
            if lc2.path in inf:
                nf += 1
                R.inst(fn=own.path, site=c2.where(), callee=lc2.path, verdict="VIOLATION")
                R.viol("%s:calls-infallible:%s" % (own.path, lc2.name), c2.where(), "%s returns a Result for allocation failures but calls %s, which %s: a capacity "
                       "overflow or allocation failure panics / aborts instead of coming back as Err" % (own.path, lc2.path, inf[lc2.path]))
    R.inst(fn="*", check="fallible operations call no infallible grower", infallible_growers=sorted(inf), verdict="ok" if not nf else "found")
    if not inf:
        R.anchor("infallible-growers", "expected the infallible growth path (grow, reserve) to be found")
    fns_inplace = {i["fn"] for i in R.instances if "amount" in i or i.get("verdict") == "VIOLATION"}
    if n < 2 or len(fns_inplace) < 2:
        R.anchor("in-place-sites", "expected an in-place reserve site in each of reserve and try_reserve, found %d in %d functions" % (n, len(fns_inplace)))
    if g < 2:
        R.anchor("growth-sites", "expected growth calls in reserve and try_reserve, found %d" % g)
    return R


def rule_s_ctor(ctx):
    R = RuleResult("S-ctor", "capacity-taking constructors hand hashbrown at least the capacity the caller asked for, through every layer")
    n = 0
    for b in ctx.facts.bodies.values():
        if b.kind == "Closure" or "with_capacity" not in b.name:
            continue
        usize_params = [l for l in range(1, b.arg_count + 1) if ctx.facts.types[b.locals[l]["ty"]]["s"] == "usize"]
        if not usize_params:
            continue
        for c in ctx.calls(b):
            if "with_capacity" not in (c.method or ""):
                continue
            n += 1
            pe = PathExec(ctx, b)
            paths = pe.run(c.loc.bb)
            bad = None
            for p in paths:
                sizes = [pe.op(p["env"], a) for a in c.args if a["k"] != "const" and ctx.facts.types[a["place"]["ty"]]["s"] == "usize"]
                for l in usize_params:
                    want = V("p:%s" % b.local_name(l))
                    if not any(sx.prove_ge(v, want, 0)[0] for v in sizes if not sx.find_unknown(v)):
                        bad = "passes %s, not provably >= %s" % ([sx.show(v) for v in sizes], b.local_name(l))
            if not all(c.loc.bb in b.dom().get(rb, set()) for rb in b.return_blocks()):
                bad = (bad or "") + " the capacity-taking callee is not reached on every path"
            R.inst(fn=b.path, site=c.where(), callee=c.tname, verdict="ok" if not bad else "VIOLATION")
            if bad:
                R.viol("%s:%s" % (b.path, c.tname), c.where(), "%s %s" % (b.path, bad))
    if n < 3:
        R.anchor("ctor-sites", "expected >= 3 with_capacity hops, found %d" % n)
    return R


def rule_a_ind(ctx):
    """The arithmetic of the appendix induction, machine-checked for the compiled R with the same prover that discharges the site obligations."""
    R = RuleResult("A-ind", "the inductive steps of the headroom invariant `pending old table => free(main) >= need(o)`, need(o) = o + ceil(o/R), are proved for the "
                   "compiled batch size R: a full batch (o >= R) and the final batch (o < R) preserve it across `one user insertion + min(R, o) moves`, "
                   "the user insertion always has room while elements remain (need(o) >= 2), removals never break it, and a resize of L elements ends within ceil(L/R) batches")
    Rc = R_const(ctx)
    if not Rc:
        R.anchor("R", "batch size constant not found")
        return R
    o, g = V("o"), V("g")

    def need(x):
        return ("add", x, ceil_div(x, Rc))
    lemmas = [
        # name, A, B, k, lower bounds, constraints, text
        ("full-batch", ("sub", ("sub", g, C(1)), C(Rc)), need(("sub", o, C(Rc))), 0, {"o": Rc}, [(g, need(o), False)],
         "o >= R and g >= need(o)  =>  g - 1 - R >= need(o - R)"),
        ("last-batch", ("sub", ("sub", g, C(1)), o), C(0), 0, {"o": 1}, [(g, need(o), False)],
         "1 <= o and g >= need(o)  =>  g - 1 - o >= 0   (the last min(R,o)=o moves and the user insertion fit)"),
        ("room-for-user-insert", need(o), C(2), 0, {"o": 1}, [], "o >= 1  =>  need(o) >= 2   (a user insertion never meets a full table while elements remain)"),
        ("removal-from-old", need(o), need(("sub", o, C(1))), 0, {"o": 1}, [], "o >= 1  =>  need(o) >= need(o - 1)   (removing from the old table never breaks the invariant)"),
        ("batches", ("mul", ceil_div(o, Rc), C(Rc)), o, 0, {}, [], "ceil(o/R) * R >= o   (ceil(L/R) batches of R moves empty the old table)"),
        ("emptied-then-one", need(o), C(2), 0, {"o": 1}, [], "entering `pending and empty` is only possible from o = 1, where g >= need(1) = 2 >= 1"),
    ]
    for name, A, B, k, lower, cons, text in lemmas:
        ok, detail = sx.prove_ge(A, B, k, lower=lower, constraints=cons)
        R.inst(lemma=name, statement=text, R=Rc, verdict="ok" if ok else "VIOLATION", detail=detail)
        if not ok:
            R.viol("lemma:%s" % name, "DESIGN.md appendix", "inductive step `%s` does not hold for R = %d: %s" % (text, Rc, detail))
    # the premises that connect the lemmas to the code are the site rules; name them so the evidence shows the chain
    R.notes.append("premises decided on the code by: S-grow (installation), M-carry + T-mover (one user insertion then min(R,o) moves, each one insert_no_grow), "
                   "P-only (nothing else changes o upward), S-shrink / S-reserve (the other producers of free space), T-grow (installation only when unsplit)")
    R.floor(6, "lemmas")
    return R


# ---------------------------------------------------------------------------
# S-room: the no-grow insertion of a caller's element is only reached when the main table is known to have room
# ---------------------------------------------------------------------------
EXACT_LEN_SOURCES = {"drain", "iter", "iter_mut", "keys", "values", "values_mut", "into_iter"}


def _reserved_loop_proof(ctx, body, c, sp):
    """`self.reserve(other.len()); for e in other.drain() { .. at most one no-grow insertion into self .. }`: reserve(n) makes room for n
    insertions (S-reserve, S-grow), griddle's own iterators yield exactly len() elements (C08's rules), so each insertion finds a free
    slot — provided nothing else puts elements into self, or changes `other`, in between.  Returns a description, or None."""
    from symexec import api_of
    T = ctx.facts.types
    if sp is None:
        return None
    loops = [(h, bl) for h, bl in body.loops() if c.loc.bb in bl]
    if not loops:
        return None
    h, bl = min(loops, key=lambda x: len(x[1]))
    polls = [x for x in ctx.calls(body) if x.loc.bb in bl and x.method == "next" and not body.is_cleanup(x.loc.bb)]
    if len(polls) != 1 or not (polls[0].self_adt or "").startswith("griddle::"):
        return None
    Y = polls[0]
    s_, _ = body.slice_back(Y.loc, [Y.args[0]])
    makers = []
    for l in s_:
        if l.i == len(body.stmts(l.bb)) and body.term(l.bb)["k"] == "call" and l.bb not in bl:
            m = ctx.call_at(body, l.bb)
            lc = m.local_callee()
            if lc is not None and lc.kind != "Closure" and lc.name in EXACT_LEN_SOURCES and "self_ty" in lc.raw \
                    and T[strip_ref_id(T, lc.raw["self_ty"])].get("adt") in ctx.roles.holders:
                makers.append(m)
    if len(makers) != 1:
        return None
    M = makers[0]
    X = M.arg_path(0)
    if X is None:
        return None
    xkey = X.strip_refs().key()

    def touches_self(cx):
        """the call is handed `&mut` access to the split table the insertion goes into (or to the map that holds it)"""
        for i, a in enumerate(cx.args):
            if a["k"] not in ("copy", "move"):
                continue
            aty = T[a["place"]["ty"]]
            if not (aty.get("k") == "ref" and aty.get("mut")):
                continue
            q = cx.arg_path(i)
            if q is None:
                continue
            q2 = ctx.resolve(body, q)[1]
            qs = ctx.roles.s_prefix(q2) if q2 is not None else None
            if q2 is None:
                continue
            k2 = (qs if qs is not None else q2).strip_refs().key()
            kq = q2.strip_refs().key()
            if k2 == sp or (kq[0] == sp[0] and tuple(sp[1][:len(kq[1])]) == tuple(kq[1])):
                return True       # the table itself, or a value it is part of (the map)
        return False
    # one insertion per element
    if c.target is not None and c.loc.bb in body.reach_from([c.target], stop={Y.loc.bb}):
        return None
    for cx in ctx.calls(body):
        if cx.loc.bb in bl and cx.loc != c.loc and not body.is_cleanup(cx.loc.bb) and touches_self(cx):
            return None
    # the reservation
    for Rv in ctx.calls(body):
        lc = Rv.local_callee()
        if lc is None or lc.name != "reserve" or body.is_cleanup(Rv.loc.bb) or Rv.loc.bb in bl or not touches_self(Rv) or len(Rv.args) < 2:
            continue
        if not (Rv.loc.bb in body.dom().get(h, set()) or Rv.loc.bb == h):
            continue
        d = body.source_def(Rv.args[1])
        if d is None or d[1] != "call":
            continue
        Ln = ctx.call_at(body, d[0].bb)
        ll = Ln.local_callee()
        if ll is None or ll.name != "len" or "self_ty" not in ll.raw or T[strip_ref_id(T, ll.raw["self_ty"])].get("adt") not in ctx.roles.holders:
            continue
        lp = Ln.arg_path(0)
        if lp is None or lp.strip_refs().key() != xkey:
            continue
        # nothing changes `other` between len() and the iterator's creation; nothing else fills self between the reservation and the loop
        bad = False
        for x in between_blocks_incl(body, Ln.loc.bb, M.loc.bb):
            if body.term(x)["k"] != "call" or x in (Ln.loc.bb, M.loc.bb):
                continue
            cx = ctx.call_at(body, x)
            for i, a in enumerate(cx.args):
                q = cx.arg_path(i)
                aty = T[a["place"]["ty"]] if a["k"] in ("copy", "move") else {}
                if q is not None and aty.get("k") == "ref" and aty.get("mut"):
                    kq = q.strip_refs().key()
                    if kq[0] == xkey[0] and (tuple(kq[1][:len(xkey[1])]) == tuple(xkey[1]) or tuple(xkey[1][:len(kq[1])]) == tuple(kq[1])):
                        bad = True
        for x in between_blocks_incl(body, Rv.loc.bb, h):
            if body.term(x)["k"] != "call" or x == Rv.loc.bb:
                continue
            cx = ctx.call_at(body, x)
            if touches_self(cx):
                bad = True
        if bad:
            continue
        return ("room was reserved for %s.len() elements at %s and the loop inserts at most one element per element of %s (an exact-length griddle iterator)"
                % (X, Rv.where(), M.tname))
    return None


def strip_ref_id(T, tid):
    while T[tid].get("k") == "ref":
        tid = T[tid]["inner"]
    return tid


def between_blocks_incl(body, a_bb, b_bb):
    from rules_protocol import between_blocks
    return between_blocks(body, a_bb, b_bb) | {a_bb, b_bb}


def _growers(ctx):
    """{body path: [indices of usize parameters]} of the functions that leave the main table with at least that much free room: the function
    that installs a new main table (S-grow: allocation >= L + p for each usize parameter p; the new table holds 0 or, for zero-sized elements,
    L elements) and wrappers that hand one of their own usize parameters to it on every path that returns"""
    def build():
        T = ctx.facts.types
        out = {}
        for b, loc, c in replacer_sites(ctx):
            if self_s_prefix(ctx, b) is None or b.kind == "Closure":
                continue
            ps = [l for l in range(2, b.arg_count + 1) if T[b.locals[l]["ty"]]["s"] == "usize"]
            if ps:
                out[b.path] = ps
        for _ in range(2):
            for b in ctx.facts.bodies.values():
                if b.path in out or b.kind == "Closure" or self_s_prefix(ctx, b) is None:
                    continue
                cs = [x for x in ctx.calls(b) if not b.is_cleanup(x.loc.bb) and x.local_callee() is not None and x.local_callee().path in out]
                if len(cs) != 1:
                    continue
                x = cs[0]
                rp = x.arg_path(0)
                if rp is None or not is_self_s(ctx, b, rp):
                    continue
                # every returning path passes through the call
                if any(b.term(y)["k"] == "return" for y in b.reach_from([0], stop={x.loc.bb})):
                    continue
                pe = PathExec(ctx, b)
                after = b.reach_from([x.target]) if x.target is not None else set()
                if any(b.term(y)["k"] == "call" and not b.is_cleanup(y) and pe.mutates_tables(ctx.call_at(b, y)) for y in after):
                    continue
                mine = []
                for gi in out[x.local_callee().path]:
                    q = x.arg_path(gi - 1)
                    if q is not None and not q.fields() and 2 <= q.root <= b.arg_count and T[b.locals[q.root]["ty"]]["s"] == "usize" \
                            and len([1 for l_, st_ in b.all_assigns() if not st_["place"]["proj"] and st_["place"]["local"] == q.root]) == 0:
                        mine.append(q.root)
                if mine:
                    out[b.path] = mine
        return out
    return ctx.memo("growers", build)


def _tested_or_grown_proof(ctx, body, c, sp):
    """every path to the insertion comes either over the has-room edge of a `capacity() != len()` test of the same table or from a call that
    grows that table by a constant >= 1, and nothing touches the tables between there and the insertion"""
    from rules_typestate import full_test_switches
    from rules_protocol import between_blocks
    if sp is None:
        return None
    est = {}
    for bb, full_t in full_test_switches(ctx, body).items():
        t = body.term(bb)
        nf = [s_ for s_ in body.succs(bb) if s_ != full_t]
        if len(nf) != 1 or body.preds(nf[0], True) != [bb]:
            continue
        d = body.source_def(t["discr"])
        same = False
        if d is not None and d[1] == "assign" and d[2]["rv"]["k"] == "binop":
            for o in (d[2]["rv"]["a"], d[2]["rv"]["b"]):
                sd = body.source_def(o)
                if sd is not None and sd[1] == "call":
                    q = ctx.resolve(body, ctx.call_at(body, sd[0].bb).arg_path(0))[1]
                    qs = ctx.roles.s_prefix(q) if q is not None else None
                    if qs is not None and qs.strip_refs().key() == sp:
                        same = True
                    elif qs is None and q is not None and q.strip_refs().key() == sp:
                        same = True
        if same:
            est[nf[0]] = "the has-room edge of the capacity test at %s" % body.where(Loc(bb, len(body.stmts(bb))))
    G = _growers(ctx)
    grown = 0
    for x in ctx.calls(body):
        lc = x.local_callee()
        if lc is None or lc.path not in G or body.is_cleanup(x.loc.bb) or x.target is None:
            continue
        if ctx.facts.types[lc.locals[0]["ty"]]["s"] != "()":
            continue          # a fallible growth returns whether it grew: only the infallible wrapper establishes room by returning
        rp = x.arg_path(0)
        q = ctx.resolve(body, rp)[1] if rp is not None else None
        qs = ctx.roles.s_prefix(q) if q is not None else None
        if q is None or (qs if qs is not None else q).strip_refs().key() != sp:
            continue
        for gi in G[lc.path]:
            a = x.args[gi - 1]
            v = None
            if a["k"] == "const":
                v = a.get("val")
            else:
                sd = body.source_def(a)
                if sd is not None and sd[1] == "assign" and sd[2]["rv"]["k"] == "use" and sd[2]["rv"]["op"]["k"] == "const":
                    v = sd[2]["rv"]["op"].get("val")
            if isinstance(v, int) and v >= 1:
                est[x.target] = "the call %s(.., %d) at %s (S-grow: the installed table has room for that many more)" % (lc.path, v, x.where())
                grown += 1
                break
    if not grown or not est:
        return None
    if 0 not in est and c.loc.bb in body.reach_from([0], stop=set(est)):
        return None            # a path that establishes nothing
    if c.target is not None and c.loc.bb in body.reach_from([c.target], stop=set(est)):
        return None            # a second insertion without a new test / growth
    pe = PathExec(ctx, body)
    used = []
    for e, how in sorted(est.items()):
        if c.loc.bb != e and c.loc.bb not in body.reach_from([e]):
            continue
        for y in between_blocks(body, e, c.loc.bb) | {e}:
            if y == c.loc.bb or body.term(y)["k"] != "call" or body.is_cleanup(y):
                continue
            if pe.mutates_tables(ctx.call_at(body, y)):
                return None
        used.append(how)
    if not used:
        return None
    return "every path comes from " + " or from ".join(used) + ", with nothing touching the tables in between"


def rule_s_room(ctx):
    R = RuleResult("S-room", "hashbrown's insert_no_grow must find a free slot (it does not check): a caller-supplied element is put into the main table with it "
                   "only on the `capacity() != len()` edge of a test of that same table (nothing touching the table in between), directly or through "
                   "griddle's unsafe wrapper, whose every call site then carries the obligation; or every path comes over such an edge or from a growth of "
                   "that table by a constant >= 1 (S-grow); or the insertions are the body of a loop over exactly the n elements a preceding reserve(n) "
                   "made room for; an advisory size hint is not accepted")
    from rules_typestate import full_test_switches
    from rules_protocol import between_blocks
    mv = movers(ctx)
    # sites: (body, call) that put a non-mover element into MAIN without growing
    work = []
    for body, c, role, recv in hb_calls(ctx):
        if c.tname == HBT + "insert_no_grow" and role == MAIN and not body.is_cleanup(c.loc.bb):
            if body.path in mv and mv[body.path]["ins"].loc == c.loc:
                continue          # the mover's own insertion: room is the headroom invariant (S-grow, A-ind)
            work.append((body, c, ctx.resolve(body, recv)[1]))
    seen = set()
    n = 0
    while work:
        body, c, recv = work.pop()
        if (body.path, c.loc.bb) in seen:
            continue
        seen.add((body.path, c.loc.bb))
        n += 1
        key = "%s:%s" % (body.path, c.tname)
        sp = None
        if recv is not None:
            sp0 = ctx.roles.s_prefix(recv)
            sp = (sp0 if sp0 is not None else recv).strip_refs().key()      # the split table the element goes into
        guard = None
        for bb, full_t in full_test_switches(ctx, body).items():
            t = body.term(bb)
            nf = [s_ for s_ in body.succs(bb) if s_ != full_t]
            if len(nf) != 1 or body.preds(nf[0], True) != [bb]:
                continue
            if not (nf[0] == c.loc.bb or nf[0] in body.dom().get(c.loc.bb, set())):
                continue
            # the test is about the same table
            d = body.source_def(t["discr"])
            same = False
            if d is not None and d[1] == "assign" and d[2]["rv"]["k"] == "binop":
                for o in (d[2]["rv"]["a"], d[2]["rv"]["b"]):
                    sd = body.source_def(o)
                    if sd is not None and sd[1] == "call":
                        q = ctx.resolve(body, ctx.call_at(body, sd[0].bb).arg_path(0))[1]
                        qs = ctx.roles.s_prefix(q) if q is not None else None
                        if sp is not None and qs is not None and qs.strip_refs().key() == sp:
                            same = True
                        elif sp is not None and qs is None and q is not None and q.strip_refs().key() == sp:
                            same = True          # a helper of the split table itself (`self.spare() == 0`)
            if not same:
                continue
            pe = PathExec(ctx, body)
            dirty = None
            for x in between_blocks(body, bb, c.loc.bb):
                if body.term(x)["k"] == "call":
                    cx = ctx.call_at(body, x)
                    if pe.mutates_tables(cx):
                        dirty = cx
            if dirty is None:
                guard = bb
                break
        if guard is not None:
            R.inst(fn=body.path, site=c.where(), callee=c.tname, verdict="ok: on the has-room edge of the capacity test at %s" % body.where(Loc(guard, len(body.stmts(guard)))))
            continue
        proof = _reserved_loop_proof(ctx, body, c, sp) if guard is None else None
        if proof is None:
            proof = _tested_or_grown_proof(ctx, body, c, sp)
        if proof is not None:
            R.inst(fn=body.path, site=c.where(), callee=c.tname, verdict="ok: " + proof)
            continue
        if body.raw.get("unsafe") and body.kind != "Closure":
            # an unsafe wrapper: its callers inherit the obligation
            callers = 0
            for b2 in ctx.facts.bodies.values():
                for c2 in ctx.calls(b2):
                    lc = c2.local_callee()
                    if lc is not None and lc.path == body.path and not b2.is_cleanup(c2.loc.bb):
                        callers += 1
                        work.append((b2, c2, ctx.resolve(b2, c2.arg_path(0))[1] if c2.arg_path(0) is not None else None))
            R.inst(fn=body.path, site=c.where(), callee=c.tname, verdict="obligation passed to the %d caller(s) of this unsafe function" % callers)
            continue
        R.inst(fn=body.path, site=c.where(), callee=c.tname, verdict="VIOLATION")
        R.viol(key, c.where(), "%s puts an element into the main table with %s on a path where nothing has established that the table has a free slot "
               "(no `capacity() != len()` test of that table dominates the call): with a full table hashbrown's bookkeeping underflows (debug: panic, "
               "release: out-of-bounds write or an endless probe)" % (body.path, c.tname))
    R.floor(1, "no-grow insertions of caller-supplied elements")
    return R
