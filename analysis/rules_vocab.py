"""E10 — VOCAB: closed vocabularies (who-may-call): unsafe operations, ownership-escaping primitives, unsafe impls."""
import os
import shutil
import subprocess
import tempfile

from core import Loc, Facts
from engine import RuleResult, Ctx, strip_generics
from rules_protocol import HBT, HBI

HB_UNSAFE_VOCAB = {
    HBT + "iter", HBT + "erase", HBT + "remove", HBT + "insert_no_grow", HBT + "replace_bucket_with", HBT + "into_iter_from",
    HBI + "reflect_remove", HBI + "reflect_insert",
    "hashbrown::raw::Bucket::as_ref", "hashbrown::raw::Bucket::as_mut",
    "hashbrown::external_trait_impls::rayon::raw::par_iter",
}
COVERED_BY = {
    HBT + "iter": "P-new / K-field (iterator tied to the table it is stored with); borrow witnesses",
    HBT + "erase": "P-rem, K-use", HBT + "remove": "P-rem, K-use, M-pair", HBT + "replace_bucket_with": "P-rem, P-fill, K-use",
    HBT + "insert_no_grow": "M-carry, S-grow/S-shrink headroom, L-use", HBT + "into_iter_from": "B-into",
    HBI + "reflect_remove": "P-rem, P-zst, K-use", HBI + "reflect_insert": "P-fill (never accepted as undo), P-zst",
    "hashbrown::raw::Bucket::as_ref": "L-use, L-handle", "hashbrown::raw::Bucket::as_mut": "L-use, L-handle",
    "hashbrown::external_trait_impls::rayon::raw::par_iter": "K-field, B-par",
    "core::hint::unreachable_unchecked": "V-unreach",
}

_FORBIDDEN_SUFFIX = {
    "mem::forget": "mem::forget",
    "ManuallyDrop::new": "ManuallyDrop", "ManuallyDrop::take": "ManuallyDrop::take", "ManuallyDrop::drop": "ManuallyDrop::drop",
    "ManuallyDrop::into_inner": "ManuallyDrop::into_inner",
    "ptr::read": "ptr::read", "ptr::read_unaligned": "ptr::read", "ptr::read_volatile": "ptr::read",
    "ptr::write": "ptr::write", "ptr::write_unaligned": "ptr::write", "ptr::write_volatile": "ptr::write", "ptr::write_bytes": "ptr::write_bytes",
    "ptr::copy": "ptr::copy", "ptr::copy_nonoverlapping": "ptr::copy_nonoverlapping",
    "intrinsics::copy": "ptr::copy", "intrinsics::copy_nonoverlapping": "ptr::copy_nonoverlapping",
    "ptr::drop_in_place": "ptr::drop_in_place", "ptr::swap": "ptr::swap", "ptr::replace": "ptr::replace",
    "MaybeUninit::assume_init": "MaybeUninit::assume_init", "MaybeUninit::assume_init_read": "MaybeUninit::assume_init_read",
    "MaybeUninit::assume_init_mut": "MaybeUninit::assume_init_mut", "MaybeUninit::assume_init_ref": "MaybeUninit::assume_init_ref",
    "MaybeUninit::assume_init_drop": "MaybeUninit::assume_init_drop",
    "mem::zeroed": "mem::zeroed", "mem::uninitialized": "mem::uninitialized",
    "mem::transmute": "transmute", "intrinsics::transmute": "transmute", "mem::transmute_copy": "transmute_copy",
    "Box::leak": "Box::leak", "Box::into_raw": "Box::into_raw", "Box::from_raw": "Box::from_raw",
    "Vec::set_len": "Vec::set_len", "Vec::from_raw_parts": "Vec::from_raw_parts",
    "raw::Bucket::read": "Bucket::read", "raw::Bucket::write": "Bucket::write", "raw::Bucket::drop": "Bucket::drop",
    "raw::Bucket::copy_from_nonoverlapping": "Bucket::copy_from_nonoverlapping",
    "raw::RawTable::clear_no_drop": "clear_no_drop", "raw::RawTable::into_allocation": "into_allocation",
    "raw::RawTable::allocation_info": "allocation_info", "raw::RawTable::data_end": "data_end",
    "raw::RawTable::bucket": "RawTable::bucket", "raw::RawTable::bucket_index": "RawTable::bucket_index",
    "raw::RawTable::insert_in_slot": "insert_in_slot",
}


class _Forbidden:
    """lookup by path suffix: the pretty path of a std item depends on how the analysed crate names it (core:: vs std::)"""

    def get(self, name):
        if not name or not name.startswith(("core::", "std::", "alloc::", "hashbrown::")):
            return None
        for suf, label in _FORBIDDEN_SUFFIX.items():
            if name.endswith("::" + suf):
                return label
        return None

    def __contains__(self, name):
        return self.get(name) is not None

    def __getitem__(self, name):
        return self.get(name)


FORBIDDEN_OWN = _Forbidden()


def _owns_no_element(ctx, tid, depth=0):
    """a type whose by-value content is only references (e.g. a guard struct wrapping &mut T)"""
    t = ctx.facts.types[tid]
    k = t.get("k")
    if k in ("ref", "int", "bool"):
        return True
    if k == "adt" and depth < 3:
        a = ctx.facts.adts.get(t["adt"])
        if a is None:
            return False
        for v in a["variants"]:
            for f in v["fields"]:
                if not _owns_no_element(ctx, f["ty"], depth + 1):
                    return False
        return True
    if k == "tuple":
        return all(_owns_no_element(ctx, x, depth + 1) for x in t.get("elems", []))
    return False


def _pointer_part_unused(b, local):
    """the (NonNull<u8>, Layout) pair in `local` is only ever read through its field 1"""
    def bad(pl):
        if pl["local"] != local:
            return False
        pj = pl["proj"]
        return not (pj and pj[0]["k"] == "field" and pj[0]["i"] == 1)

    def ops_of(x):
        out = []
        if isinstance(x, dict):
            if x.get("k") in ("copy", "move") and "place" in x:
                out.append(x["place"])
            for k, v in x.items():
                if k in ("place",) and isinstance(v, dict) and "local" in v and x.get("k") not in ("copy", "move", "assign"):
                    out.append(v)
                elif isinstance(v, (dict, list)) and k not in ("span", "dest"):
                    out += ops_of(v)
        elif isinstance(x, list):
            for v in x:
                out += ops_of(v)
        return out
    for bb in b.reachable():
        if b.is_cleanup(bb):
            continue
        for st in b.stmts(bb):
            if st["k"] == "assign" and any(bad(pl) for pl in ops_of(st["rv"])):
                return False
        t = b.term(bb)
        if any(bad(pl) for pl in ops_of({k: v for k, v in t.items() if k not in ("dest", "span")})):
            return False
    return True


def scan_own(ctx, R, fixture=False):
    n_hits = 0
    for b in ctx.facts.bodies.values():
        for c in ctx.calls(b):
            nm = c.name
            if nm not in FORBIDDEN_OWN or FORBIDDEN_OWN[nm] is None:
                continue
            if c.t["span"]["exp"] and not c.t["span"]["file"].startswith("src/"):
                continue
            if c.t["span"]["exp"] and (c.name or "").startswith(("core::fmt::Arguments::", "core::fmt::rt::")) \
                    and any(m in ("format_args", "write", "writeln", "format_args_nl", "panic", "assert", "unreachable", "debug_assert", "assert_eq", "assert_ne",
                                  "debug_assert_eq", "debug_assert_ne", "todo", "unimplemented", "const_format_args")
                            or m.endswith("panic_2021") or m.endswith("panic_2015") for m in c.t["span"].get("macros", [])):
                continue      # the argument packing that format_args! expands to: compiler-generated, not an unsafe operation of griddle's
            what = FORBIDDEN_OWN[nm]
            if what == "mem::forget" and not fixture:
                aty = c.args[0]["place"]["ty"] if c.args[0]["k"] in ("copy", "move") else None
                if aty is not None and _owns_no_element(ctx, aty):
                    R.inst(fn=b.path, site=c.where(), primitive=what, verdict="ok: forgets a guard that owns no element (%s)" % ctx.facts.types[aty]["s"])
                    continue
            if what == "allocation_info" and not fixture and c.dest is not None and not c.dest["proj"] and _pointer_part_unused(b, c.dest["local"]):
                R.inst(fn=b.path, site=c.where(), primitive=what, verdict="ok: only the Layout half of (pointer, layout) is read; the allocation's address goes nowhere")
                continue
            n_hits += 1
            R.inst(fn=b.path, site=c.where(), primitive=what, verdict="VIOLATION" if not fixture else "control")
            if not fixture:
                R.viol("%s:%s" % (b.path, what), c.where(), "%s uses the ownership-escaping primitive %s: exactly-once dropping of elements is no longer guaranteed by rustc's drop elaboration" % (b.path, what))
        for loc, st in b.all_assigns():
            rv = st["rv"]
            if rv["k"] == "cast" and "Transmute" in rv["cast"] and not st["span"]["exp"]:
                n_hits += 1
                R.inst(fn=b.path, site=b.where(loc), primitive="transmute", verdict="VIOLATION" if not fixture else "control")
                if not fixture:
                    R.viol("%s:transmute" % b.path, b.where(loc), "transmute in %s" % b.path)
    return n_hits


def fixture_ctx(ctx):
    """analyse the positive-control crate with the same driver (cached per run)"""
    def build():
        import extract
        verif = getattr(ctx, "verif", os.path.dirname(os.path.dirname(os.path.abspath(__file__))))
        src = os.path.join(verif, "fixtures", "vocab")
        work = tempfile.mkdtemp(prefix="fixture-", dir=extract.scratch_root())
        try:
            out = os.path.join(work, "fixture.json")
            env = extract.offline_env()
            env["LD_LIBRARY_PATH"] = os.path.join(extract.nightly_sysroot(), "lib") + ":" + env.get("LD_LIBRARY_PATH", "")
            env["RUSTFLAGS"] = "-Zmir-opt-level=0 -Awarnings"
            env["RUSTC_WORKSPACE_WRAPPER"] = extract.build_driver()
            env["VERIF_CRATE"] = "vocabfixture"
            env["VERIF_FACTS_OUT"] = out
            env["CARGO_TARGET_DIR"] = os.path.join(work, "target")
            p = subprocess.run(["cargo", "+nightly", "check", "--offline", "--lib"], cwd=src, capture_output=True, text=True, env=env)
            if p.returncode != 0 or not os.path.exists(out):
                return None, p.stderr[-2000:]
            f = Facts(out)
            return f, None
        finally:
            shutil.rmtree(work, ignore_errors=True)
    return ctx.memo("fixture_facts", build)


class _MiniCtx:
    """enough of Ctx for scanning the fixture (no roles)"""

    def __init__(self, facts):
        self.facts = facts
        self._calls = {}
        self._cache = {}

    def calls(self, body):
        from engine import Call
        if body.path not in self._calls:
            self._calls[body.path] = [Call(self, body, loc, t) for loc, t in body.calls()]
        return self._calls[body.path]

    def closure_of_operand(self, body, op):
        return None


def rule_v_own(ctx):
    R = RuleResult("V-own", "griddle never takes ownership bookkeeping into its own hands: no mem::forget (except on a guard owning no element), ManuallyDrop, "
                   "ptr::read/write/copy, assume_init, transmute, hashbrown Bucket::{read,write,drop}, clear_no_drop, … — so rustc's drop elaboration "
                   "drops every element griddle holds exactly once")
    scan_own(ctx, R)
    # positive control
    ff, err = fixture_ctx(ctx)
    if ff is None:
        R.anchor("fixture", "positive-control crate could not be analysed: %s" % err)
    else:
        RC = RuleResult("V-own-control", "")
        hits = scan_own(_MiniCtx(ff), RC, fixture=True)
        want = {"mem::forget", "ManuallyDrop", "ptr::read", "ptr::write", "ptr::copy_nonoverlapping", "ptr::drop_in_place", "MaybeUninit::assume_init",
                "transmute", "mem::zeroed", "Box::leak"}
        got = {i["primitive"] for i in RC.instances}
        R.notes.append("positive control: %d/%d forbidden primitives detected in fixtures/vocab" % (len(want & got), len(want)))
        R.inst(fn="fixtures/vocab", verdict="control: detected %s" % sorted(want & got))
        if not want <= got:
            R.anchor("control", "positive controls not detected: %s — the rule would pass vacuously" % sorted(want - got))
    return R


def rule_v_unsafe(ctx):
    R = RuleResult("V-unsafe", "every unsafe operation in griddle belongs to a closed vocabulary each member of which is covered by a rule: calls of unsafe "
                   "hashbrown functions, griddle's own unsafe wrappers of those, unreachable_unchecked (V-unreach); no raw-pointer dereference, no transmute")
    n = 0
    for b in ctx.facts.bodies.values():
        for c in ctx.calls(b):
            if not c.is_unsafe:
                continue
            if c.t["span"]["exp"] and not c.t["span"]["file"].startswith("src/"):
                continue
            if c.t["span"]["exp"] and (c.name or "").startswith(("core::fmt::Arguments::", "core::fmt::rt::")) \
                    and any(m in ("format_args", "write", "writeln", "format_args_nl", "panic", "assert", "unreachable", "debug_assert", "assert_eq", "assert_ne",
                                  "debug_assert_eq", "debug_assert_ne", "todo", "unimplemented", "const_format_args")
                            or m.endswith("panic_2021") or m.endswith("panic_2015") for m in c.t["span"].get("macros", [])):
                continue      # the argument packing that format_args! expands to: compiler-generated, not an unsafe operation of griddle's
            n += 1
            nm = c.tname
            lc = c.local_callee()
            if lc is not None or (c.resolved and c.resolved.get("local")):
                R.inst(fn=b.path, site=c.where(), callee=nm, verdict="griddle wrapper (its body is analysed)")
                continue
            if nm in HB_UNSAFE_VOCAB or c.name in HB_UNSAFE_VOCAB:
                R.inst(fn=b.path, site=c.where(), callee=nm, covered_by=COVERED_BY.get(nm) or COVERED_BY.get(c.name), verdict="in vocabulary")
                continue
            if (c.name or "").endswith("hint::unreachable_unchecked"):
                R.inst(fn=b.path, site=c.where(), callee=nm, covered_by="V-unreach", verdict="in vocabulary")
                continue
            R.inst(fn=b.path, site=c.where(), callee=nm, verdict="VIOLATION")
            R.viol("%s:%s" % (b.path, nm), c.where(), "call of unsafe function %s, which is outside the vocabulary covered by the protocol/colour/liveness rules" % nm)
        for loc, st in b.all_assigns():
            pls = [st["place"]]
            rv = st["rv"]
            if "place" in rv:
                pls.append(rv["place"])
            if rv["k"] == "use" and rv["op"]["k"] in ("copy", "move"):
                pls.append(rv["op"]["place"])
            for pl in pls:
                if any(e["k"] == "deref" and e.get("raw") for e in pl["proj"]) and not st["span"]["exp"]:
                    R.inst(fn=b.path, site=b.where(loc), verdict="VIOLATION")
                    R.viol("%s:raw-deref" % b.path, b.where(loc), "raw pointer dereference in %s" % b.path)
    if n < 20:
        R.anchor("unsafe-calls", "expected >= 20 unsafe call sites, found %d" % n)
    # control
    ff, err = fixture_ctx(ctx)
    if ff is None:
        R.anchor("fixture", "positive-control crate could not be analysed: %s" % err)
    else:
        mc = _MiniCtx(ff)
        unsafe_calls = [c for b in ff.bodies.values() for c in mc.calls(b) if c.is_unsafe]
        derefs = [1 for b in ff.bodies.values() for loc, st in b.all_assigns()
                  for pl in ([st["place"]] + ([st["rv"]["op"]["place"]] if st["rv"]["k"] == "use" and st["rv"]["op"]["k"] in ("copy", "move") else []))
                  if any(e["k"] == "deref" and e.get("raw") for e in pl["proj"])]
        R.notes.append("positive control: %d unsafe calls, %d raw derefs seen in fixtures/vocab" % (len(unsafe_calls), len(derefs)))
        if len(unsafe_calls) < 5 or not derefs:
            R.anchor("control", "positive controls for unsafe calls / raw dereference not detected")
    return R


AUTO = ("core::marker::Send", "core::marker::Sync")


def _param_modes(facts, adt, _depth=0):
    """{type parameter of adt: True if every occurrence in its fields is behind a shared reference}; parameters that occur in no field are absent"""
    T = facts.types
    out = {}

    def walk(tid, depth, shared):
        t = T[tid]
        if t.get("k") == "param":
            out[t["name"]] = out.get(t["name"], True) and shared
        sub = facts.adts.get(t.get("adt")) if t.get("k") == "adt" else None
        if sub is not None and depth < 6 and _depth < 4 and sub is not adt:
            modes = _param_modes(facts, sub, _depth + 1)
            gens_ = [g for g in sub["generics"] if not g.startswith("'")]
            for g_, x in zip(gens_, t.get("args", [])):
                if g_ in modes:
                    walk(x, depth + 1, shared or modes[g_])
            return
        for key_ in ("args", "elems"):
            for x in t.get(key_, []):
                if depth < 6:
                    walk(x, depth + 1, shared)
        if "inner" in t and depth < 6:
            walk(t["inner"], depth + 1, shared or (t.get("k") == "ref" and not t.get("mut")))
    for v in adt["variants"]:
        for f in v["fields"]:
            walk(f["ty"], 0, False)
    return out


def check_unsafe_impls(facts, R, report=True):
    """every type parameter of the implementing ADT that occurs in one of its fields is bounded by the auto trait being asserted"""
    T = facts.types
    found = []
    for im in facts.impls:
        if not im.get("unsafe"):
            continue
        tr = im.get("trait")
        st = T[im["self_ty"]]
        key = "%s for %s" % (tr, st["s"])
        if tr not in AUTO:
            found.append((key, "unsafe impl of a non-auto trait"))
            if report:
                R.viol("impl:%s" % key, "%s:%d" % (im["span"]["file"], im["span"]["line"]), "unsafe impl of %s: outside the vocabulary" % tr)
            continue
        adt = facts.adts.get(st.get("adt"))
        if adt is None:
            continue
        # params used in fields
        used = set()

        shared_only = {}

        def walk(tid, depth=0, shared=False):
            t = T[tid]
            if t.get("k") == "param":
                used.add(t["name"])
                shared_only[t["name"]] = shared_only.get(t["name"], True) and shared
            inner_adt = facts.adts.get(t.get("adt")) if t.get("k") == "adt" else None
            if inner_adt is not None and depth < 8:
                # a type of the crate: how it holds each of its own parameters decides how the arguments are held
                modes = _param_modes(facts, inner_adt)
                gens_ = [g for g in inner_adt["generics"] if not g.startswith("'")]
                for g_, x in zip(gens_, t.get("args", [])):
                    if g_ in modes:
                        walk(x, depth + 1, shared or modes[g_])
                return
            for key_ in ("args", "elems"):
                for x in t.get(key_, []):
                    if depth < 8:
                        walk(x, depth + 1, shared)
            if "inner" in t and depth < 8:
                walk(t["inner"], depth + 1, shared or (t.get("k") == "ref" and not t.get("mut")))
        for v in adt["variants"]:
            for f in v["fields"]:
                walk(f["ty"])
        # impl's params corresponding: positional mapping adt generics -> impl self_ty args
        mapping = {}
        targs = [T[x] for x in st.get("args", [])]
        gens = [g for g in adt["generics"] if not g.startswith("'")]
        for g, a in zip(gens, targs):
            mapping[g] = a
        short = tr.split("::")[-1]
        missing = []
        for g in sorted(used):
            a = mapping.get(g)
            if a is None or a.get("k") != "param":
                continue
            nm = a["name"]
            # data reached only through a shared reference crosses threads as `&X`, which is Send exactly when X is Sync
            # (`X: Sync` is accepted there as well as the bound hashbrown itself writes, `X: Send`)
            needs = [tr] + (["core::marker::Sync"] if (tr == "core::marker::Send" and shared_only.get(g)) else [])
            if not any(p.replace(" ", "") == ("%s:%s" % (nm, need)).replace(" ", "") for p in im["predicates"] for need in needs):
                missing.append(nm)
        R.inst(impl=key, field_params=sorted(used), bounds=[p for p in im["predicates"] if not p.endswith("Sized")], verdict="ok" if not missing else "VIOLATION")
        if missing:
            found.append((key, missing))
            if report:
                R.viol("impl:%s:%s" % (key, ",".join(missing)), "%s:%d" % (im["span"]["file"], im["span"]["line"]),
                       "`unsafe impl %s for %s` does not require %s: %s although the type stores data of that type — safe code can move/share a non-%s value across threads"
                       % (short, st["s"], ",".join(missing), short, short))
    return found


def rule_v_impl(ctx):
    R = RuleResult("V-impl", "every `unsafe impl Send/Sync` bounds every type parameter that occurs in a field of the type by the same auto trait")
    check_unsafe_impls(ctx.facts, R)
    ff, err = fixture_ctx(ctx)
    if ff is not None:
        RC = RuleResult("c", "")
        f = check_unsafe_impls(ff, RC, report=False)
        R.notes.append("positive control: %d unbounded unsafe impls detected in fixtures/vocab" % len(f))
        if not any("Holder" in k for k, _ in f):
            R.anchor("control", "positive control (Holder<S,K> with unbounded S) not detected")
    else:
        R.anchor("fixture", "positive-control crate could not be analysed: %s" % err)
    R.floor(3, "unsafe impls")
    return R


def rule_v_unreach(ctx):
    R = RuleResult("V-unreach", "unreachable_unchecked is only reached on the error result of a callee invoked with constant arguments under which that callee "
                   "can never produce an error (every Err-producing path of the callee is control-dependent on a parameter that the caller passes as false)")
    n = 0
    for b in ctx.facts.bodies.values():
        for c in ctx.calls(b):
            if not (c.name or "").endswith("hint::unreachable_unchecked"):
                continue
            n += 1
            key = "%s:unreachable_unchecked" % b.path
            ok, why = _unreach_ok(ctx, b, c)
            R.inst(fn=b.path, site=c.where(), verdict="ok: " + why if ok else "VIOLATION")
            if not ok:
                R.viol(key, c.where(), "unreachable_unchecked in %s may be reachable: %s" % (b.path, why))
    R.floor(0, "unreachable_unchecked sites")
    return R


def _unreach_ok(ctx, b, c):
    """the call is only reached on the Err outcome (is_err() true edge, or the Err arm of a match) of the result of a griddle call that can never be Err"""
    for bb in b.dom().get(c.loc.bb, set()):
        t = b.term(bb)
        if t["k"] != "switch":
            continue
        d = b.source_def(t["discr"])
        rp = None
        err_target = None
        if d is not None and d[1] == "call":
            ce = ctx.call_at(b, d[0].bb)
            if ce.name == "core::result::Result::is_err":
                rp = ce.arg_path(0)
                err_target = t["otherwise"]
            elif ce.name == "core::result::Result::is_ok":
                rp = ce.arg_path(0)
                z = [tb for v, tb in t["targets"] if v == 0]
                err_target = z[0] if z else None
        elif d is not None and d[1] == "assign" and d[2]["rv"]["k"] == "discr":
            q = b.expand(d[2]["rv"]["place"])
            ty = ctx.facts.types[d[2]["rv"]["place"]["ty"]]
            if ty.get("adt") == "core::result::Result" and not q.fields():
                rp = q
                e1 = [tb for v, tb in t["targets"] if v == 1]
                err_target = e1[0] if e1 else (t["otherwise"] if [v for v, _ in t["targets"]] == [0] else None)
        if rp is None or err_target is None:
            continue
        if not (err_target == c.loc.bb or err_target in b.dom().get(c.loc.bb, set())):
            continue
        rd = b.unique_def(rp.root)
        if rd is None or rd[1] != "call":
            if 1 <= rp.root <= b.arg_count:
                return False, "the tested Result is a parameter"
            return _never_err(ctx, b, {}, 0, rp.root)
        rc = ctx.call_at(b, rd[0].bb)
        lc = rc.local_callee()
        if lc is None:
            return False, "the tested Result comes from %s, which is not a griddle function" % rc.tname
        consts = {i + 1: b.op_const(a) for i, a in enumerate(rc.args)}
        return _never_err(ctx, lc, consts, 0)
    return False, "not guarded by the Err outcome of a call result"


def _never_err(ctx, f, consts, depth, local=0, _seen=None):
    """every place where f's return value (or the given Result-typed local) becomes Err is control-dependent on a bool parameter being true
    while the caller passes false, or on a condition that is the constant false in this body"""
    if depth > 3:
        return False, "call chain too deep (unproven)"
    _seen = _seen if _seen is not None else set()
    if local in _seen:
        return True, "cyclic copy"
    _seen.add(local)
    sites = []
    for d in f.defs().get(local, []):
        if f.is_cleanup(d[0].bb):
            continue
        if d[1] == "assign":
            rv = d[2]["rv"]
            if rv["k"] == "aggregate" and rv.get("adt") == "core::result::Result":
                if rv["variant"] == "Err":
                    sites.append((d[0], "Err(..)"))
                continue
            if rv["k"] == "use" and rv["op"]["k"] in ("copy", "move") and not rv["op"]["place"]["proj"]:
                sites.append((d[0], "copy of _%d" % rv["op"]["place"]["local"], None, rv["op"]["place"]["local"]))
                continue
            sites.append((d[0], "unknown assignment to the return place"))
        elif d[1] == "call":
            cc = ctx.call_at(f, d[0].bb)
            if cc.name and cc.name.endswith("FromResidual::from_residual"):
                # which call's error is being propagated?
                s, _ = f.slice_back(cc.loc, cc.args)
                srcs = [ctx.call_at(f, l.bb) for l in s if l.i == len(f.stmts(l.bb)) and f.term(l.bb)["k"] == "call"]
                srcs = [x for x in srcs if x is not None and x.dest is not None and "Result<" in ctx.facts.types[x.dest["ty"]]["s"]
                        and not (x.name or "").endswith(("Try::branch", "from_residual"))]
                local_src = [x for x in srcs if x.local_callee() is not None]
                if len(srcs) == 1 and local_src:
                    sites.append((d[0], "`?` on %s" % local_src[0].tname, local_src[0]))
                else:
                    sites.append((d[0], "`?` propagation"))
            elif cc.local_callee() is not None and "Result<" in ctx.facts.types[cc.dest["ty"]]["s"]:
                sites.append((d[0], "result of %s" % cc.tname, cc))
            else:
                sites.append((d[0], "result of %s" % cc.tname))
    if not sites:
        return True, "%s never assigns an error" % f.path
    for site in sites:
        loc, what = site[0], site[1]
        guarded = False
        if len(site) > 3:
            ok_sub, why_sub = _never_err(ctx, f, consts, depth, site[3], _seen)
            if ok_sub:
                continue
        if len(site) == 3:
            # the error can only come from a griddle callee: it cannot, if that callee never errs under the constants we pass on
            g = site[2]
            sub = {}
            for i, a in enumerate(g.args):
                v = f.op_const(a)
                if v is None and a["k"] in ("copy", "move"):
                    q = f.op_path(a)
                    if q is not None and not q.fields() and 1 <= q.root <= f.arg_count:
                        v = consts.get(q.root)
                sub[i + 1] = v
            ok_sub, why_sub = _never_err(ctx, g.local_callee(), sub, depth + 1)
            if ok_sub:
                continue
        for bb in f.dom().get(loc.bb, set()):
            t = f.term(bb)
            if t["k"] != "switch":
                continue
            p = f.op_path(t["discr"])
            if f.op_const(t["discr"]) == 0:
                pass        # the condition is the constant `false` in this body (e.g. an inlined helper's flag)
            elif p is None or p.fields() or not (1 <= p.root <= f.arg_count) or consts.get(p.root) != 0:
                continue
            # the site must lie on the non-zero edge
            tb = t["otherwise"]
            zero_targets = [x for v, x in t["targets"] if v == 0]
            if (tb == loc.bb or tb in f.dom().get(loc.bb, set())) and f.preds(tb, True) == [bb] and tb not in zero_targets:
                guarded = True
        if not guarded:
            return False, "%s can produce an error at %s (%s) on a path that does not depend on an argument the caller fixes to false" % (f.path, f.where(loc), what)
    return True, "every error exit of %s is guarded by a parameter passed as `false`" % f.path


# ---------------------------------------------------------------------------
# V-panic: closed vocabulary of griddle's own panic sites
# ---------------------------------------------------------------------------
PANIC_DOC_UNWRAP = {"replace_entry", "replace_key"}     # hashbrown-documented: "panics if this OccupiedEntry was created through Entry::insert"


def _is_capacity_overflow_panic(ctx, b, c):
    """expect()/unwrap() of an Option that comes from checked size arithmetic only, in a body that allocates a new main table"""
    from rules_typestate import replacer_sites
    from rules_both import slice_calls_deep
    if b.path not in {rb.path for rb, _, _ in replacer_sites(ctx)}:
        return False
    calls = slice_calls_deep(ctx, b, c.loc, [c.args[0]])
    names = {(x.name or "") for x in calls}
    arith = {n for n in names if n.startswith(("core::num::", "usize::")) and n.split("::")[-1].startswith("checked_")}
    other = {n for n in names if n not in arith and not n.startswith("core::option::Option::") and not n.startswith(("hashbrown::raw::RawTable::len",))
             and not (n.startswith("core::cmp::") or n.endswith("::max") or n.endswith("::min"))}
    return bool(arith) and not other


def rule_v_panic(ctx):
    R = RuleResult("V-panic", "every place where griddle's own code can panic belongs to a closed set of classes, each documented or tied to the rule that "
                   "shows it unreachable: Index::index on a missing key and OccupiedEntry::replace_entry/replace_key on an entry made by insert "
                   "(documented); expect() on the guarded in-place try_reserve (S-reserve); the all-profile assertion `no old table pending` (S-full); "
                   "unreachable!() after a located bucket said `old table` (K-use) and in the stub hasher of the in-place reserve (S-reserve); divisions "
                   "by a non-zero constant; debug-only assertions (G-pure, T-dbg); overflow checks (O-wrap)")
    from engine import MAIN, in_macro as in_mac
    from rules_misc import _debug_only_blocks, _region_blocks
    from rules_typestate import option_test_edges, N as N_, rule_t_assume
    from rules_protocol import HBT as HBT_
    T = ctx.facts.types
    ro = ctx.roles
    assumed_sites = {i["site"] for i in rule_t_assume(ctx).instances}

    def diverging_stub(fb):
        """the body does nothing but panic with unreachable!()"""
        cs = [c for c in ctx.calls(fb) if not fb.is_cleanup(c.loc.bb)]
        return bool(cs) and not fb.return_blocks() and all(in_mac(c.t["span"], "unreachable") for c in cs)

    def stub_uses_ok(fb):
        """every use of the stub is as an argument of hashbrown's reserve/try_reserve on the main table"""
        uses = 0
        for b2 in ctx.facts.bodies.values():
            for c in ctx.calls(b2):
                if fb in c.closure_args() or fb in c.fn_value_args():
                    uses += 1
                    if not (c.tname in (HBT_ + "reserve", HBT_ + "try_reserve") and ctx.role(b2, c.arg_path(0)) == MAIN):
                        return False
        return uses > 0

    n = 0
    for b in ctx.facts.bodies.values():
        dbg = set()
        for sw, d_, rel, is_da in _debug_only_blocks(ctx, b):
            dbg |= _region_blocks(b, d_, rel)
        stub = diverging_stub(b)
        for bb in sorted(b.reachable()):
            if b.is_cleanup(bb):
                continue
            t = b.term(bb)
            kind, where, detail = None, None, None
            if t["k"] == "assert" and t["msg"] not in ("overflow", "overflow_neg"):
                kind = t["msg"]
                where = b.where(Loc(bb, len(b.stmts(bb))))
            elif t["k"] == "call":
                c = ctx.call_at(b, bb)
                nm = c.name or ""
                if nm in ("core::option::Option::unwrap", "core::option::Option::expect", "core::result::Result::unwrap", "core::result::Result::expect",
                          "core::option::Option::unwrap_unchecked", "core::result::Result::unwrap_unchecked"):
                    kind = nm.split("::")[-2] + "::" + nm.split("::")[-1]
                    where = c.where()
                elif nm.startswith("core::panicking::") and c.target is None:
                    mac = [m.split("::")[-1] for m in c.t["span"]["macros"]]
                    kind = next((m for m in reversed(mac) if m in ("assert", "assert_eq", "assert_ne", "unreachable", "panic", "unimplemented", "todo",
                                                                   "debug_assert", "debug_assert_eq", "debug_assert_ne")), nm.split("::")[-1])
                    where = c.where()
            if kind is None:
                continue
            n += 1
            key = "%s:%s" % (b.path, kind)
            ok = None
            if bb in dbg or kind.startswith("debug_assert") or in_mac(t["span"], "debug_assert", "debug_assert_eq", "debug_assert_ne"):
                ok = "debug-only (G-pure / T-dbg)"
            elif kind in ("div_zero", "rem_zero"):
                # assert(!(divisor == 0)): the condition is `Eq(divisor, 0)`
                d = b.source_def(t["cond"])
                dv = None
                if d is not None and d[1] == "assign" and d[2]["rv"]["k"] == "binop" and d[2]["rv"]["op"] == "Eq":
                    for x, y in ((d[2]["rv"]["a"], d[2]["rv"]["b"]), (d[2]["rv"]["b"], d[2]["rv"]["a"])):
                        if b.op_const(y) == 0 and b.op_const(x) is not None:
                            dv = b.op_const(x)
                if dv:
                    ok = "division by the non-zero constant %d" % dv
                else:
                    detail = "a division whose divisor is not a non-zero constant (e.g. a size_of::<T>() that is 0 for zero-sized types)"
            elif kind in ("Option::unwrap", "Option::expect"):
                c = ctx.call_at(b, bb)
                own = ctx.facts.closure_parent(b)
                if own.raw.get("trait") == "core::ops::Index" and own.name == "index":
                    ok = "documented: indexing a missing key"
                else:
                    p = c.arg_path(0)
                    st = T[own.raw["self_ty"]].get("adt") if "self_ty" in own.raw else None
                    fs = p.fields() if p is not None else []
                    if st in ro.handles and own.name in PANIC_DOC_UNWRAP and p is not None and p.root == 1 and len(fs) == 1 and fs[0][1] == st:
                        ok = "documented: %s on an entry created by Entry::insert" % own.name
                    elif _is_capacity_overflow_panic(ctx, b, c):
                        ok = "documented: capacity overflow while sizing the new table of an infallible reserve (checked size arithmetic)"
                    else:
                        detail = "an unwrap/expect of an Option outside the documented ones (Index::index, OccupiedEntry::replace_entry / replace_key)"
            elif kind in ("Result::unwrap", "Result::expect"):
                c = ctx.call_at(b, bb)
                d = b.source_def(c.args[0])
                if d is not None and d[1] == "call":
                    sc = ctx.call_at(b, d[0].bb)
                    if sc.tname == HBT_ + "try_reserve" and ctx.role(b, sc.arg_path(0)) == MAIN:
                        ok = "expect() on the in-place try_reserve (cannot fail: S-reserve)"
                if ok is None:
                    detail = "an unwrap/expect of a Result other than the guarded in-place try_reserve"
            elif kind == "assert":
                if where in assumed_sites or any(s_.split(":")[:2] == where.split(":")[:2] for s_ in assumed_sites):
                    ok = "all-profile assertion about the pending old table (T-assume; S-full shows it cannot fire)"
                else:
                    detail = "an assertion that exists in all build profiles and is not about the pending-resize state"
            elif kind == "unreachable":
                if stub and stub_uses_ok(b):
                    ok = "stub hasher handed to the in-place reserve only (never called: S-reserve)"
                else:
                    # reached on the `no old table` edge in a body that was handed a located bucket
                    has_b = any(T[b.locals[l]["ty"]].get("adt") == ro.B for l in range(1, b.arg_count + 1))
                    edges = option_test_edges(ctx, b, lambda p_: ro.is_left_place(p_), ignore_debug=False)
                    on_none = any(v == N_ and (e[1] == bb or e[1] in b.dom().get(bb, set())) and b.preds(e[1], True) == [e[0]] for e, v in edges.items())
                    if has_b and on_none:
                        ok = "a located bucket said `old table` but none is pending: excluded by K-new / K-use"
                    else:
                        detail = "an unreachable!() that is not the `invalid bucket state` arm nor the stub hasher"
            else:
                detail = "a panic of kind `%s`" % kind
            R.inst(fn=b.path, site=where, kind=kind, verdict=("ok: " + ok) if ok else "VIOLATION")
            if not ok:
                R.viol(key, where, "%s can panic here through %s: not one of the documented panics and not tied to a rule that shows it unreachable"
                       % (b.path, detail))
    R.floor(8, "panic sites")
    return R
