"""E6 — SIZE: path-sensitive extraction of size arithmetic and a small decision procedure.

Expressions:  ('var', name) ('const', n) ('add',a,b) ('sub',a,b) ('mul',a,b) ('div',a,b) ('rem',a,b) ('max',a,b) ('min',a,b)
              ('cmpcast', op, a, b)   — (a op b) as usize
Decision:     variables that occur under a division/remainder by a constant c are split by residue (v = c*q + r); every expression
              then normalises to a max of affine forms over non-negative integer variables; A >= B + k is proved when for every
              branch b of B some branch a of A has (a - b - k) with non-negative coefficients and non-negative value at the
              variables' lower bounds (optionally after subtracting a known-positive path constraint).
Anything outside this class is reported as *unproven* with the offending operator.
"""
import itertools
from math import gcd


class Unproven(Exception):
    pass


def V(n):
    return ("var", n)


def C(n):
    return ("const", n)


def show(e):
    k = e[0]
    if k == "var":
        return e[1]
    if k == "const":
        return str(e[1])
    if k in ("add", "sub", "mul", "div", "rem"):
        return "(%s %s %s)" % (show(e[1]), {"add": "+", "sub": "-", "mul": "*", "div": "/", "rem": "%"}[k], show(e[2]))
    if k in ("max", "min"):
        return "%s(%s, %s)" % (k, show(e[1]), show(e[2]))
    if k == "cmpcast":
        return "(%s %s %s) as usize" % (show(e[2]), e[1], show(e[3]))
    if k == "unknown":
        return "?%s" % e[1]
    return str(e)


def vars_of(e, out=None):
    out = set() if out is None else out
    if e[0] == "var":
        out.add(e[1])
    elif e[0] in ("const", "unknown"):
        pass
    elif e[0] == "cmpcast":
        vars_of(e[2], out); vars_of(e[3], out)
    else:
        for x in e[1:]:
            if isinstance(x, tuple):
                vars_of(x, out)
    return out


def find_unknown(e):
    if e[0] == "unknown":
        return e[1]
    for x in e[1:]:
        if isinstance(x, tuple):
            u = find_unknown(x)
            if u:
                return u
    return None


def divided_vars(e, out=None):
    """{var: modulus} for variables occurring under div/rem by a constant"""
    out = {} if out is None else out
    if e[0] in ("div", "rem"):
        if e[2][0] == "const" and e[2][1] > 0:
            for v in vars_of(e[1]):
                c = e[2][1]
                out[v] = c * out[v] // gcd(c, out[v]) if v in out else c
        divided_vars(e[1], out)
    elif e[0] == "cmpcast":
        divided_vars(e[2], out); divided_vars(e[3], out)
    elif e[0] in ("add", "sub", "mul", "max", "min"):
        divided_vars(e[1], out); divided_vars(e[2], out)
    return out


# affine form: (dict var->coef, const)
def aff_add(a, b, sign=1):
    d = dict(a[0])
    for k, v in b[0].items():
        d[k] = d.get(k, 0) + sign * v
        if d[k] == 0:
            del d[k]
    return (d, a[1] + sign * b[1])


def aff_scale(a, c):
    return ({k: v * c for k, v in a[0].items() if v * c != 0}, a[1] * c)


def norm(e, subst):
    """normalise to a list of affine forms meaning their max.  subst: var -> (modulus c, residue r, quotient var name)"""
    k = e[0]
    if k == "const":
        return [({}, e[1])]
    if k == "var":
        if e[1] in subst:
            c, r, q = subst[e[1]]
            return [({q: c}, r)]
        return [({e[1]: 1}, 0)]
    if k == "add":
        A, B = norm(e[1], subst), norm(e[2], subst)
        return [aff_add(a, b) for a in A for b in B]
    if k == "sub":
        A, B = norm(e[1], subst), norm(e[2], subst)
        if len(B) != 1:
            raise Unproven("subtraction of a max(..) expression")
        return [aff_add(a, B[0], -1) for a in A]
    if k == "mul":
        A, B = norm(e[1], subst), norm(e[2], subst)
        if len(B) == 1 and not B[0][0]:
            if B[0][1] < 0:
                raise Unproven("multiplication by a negative constant")
            return [aff_scale(a, B[0][1]) for a in A]
        if len(A) == 1 and not A[0][0]:
            if A[0][1] < 0:
                raise Unproven("multiplication by a negative constant")
            return [aff_scale(b, A[0][1]) for b in B]
        raise Unproven("non-linear multiplication")
    if k in ("div", "rem"):
        A, B = norm(e[1], subst), norm(e[2], subst)
        if not (len(B) == 1 and not B[0][0] and B[0][1] > 0):
            raise Unproven("division by a non-constant")
        c = B[0][1]
        out = []
        for a in A:
            if any(v % c for v in a[0].values()):
                raise Unproven("division of a form whose coefficients are not multiples of the divisor")
            # (c*X + k) / c = X + floor(k / c) for every integer k as long as the dividend itself is non-negative, which holds for
            # usize arithmetic that did not overflow (overflow is O-wrap's business)
            if k == "div":
                out.append(({kk: v // c for kk, v in a[0].items()}, a[1] // c))
            else:
                out.append(({}, a[1] % c))
        if k == "rem" and len(out) > 1:
            raise Unproven("remainder of a max(..) expression")
        return out
    if k == "max":
        return norm(e[1], subst) + norm(e[2], subst)
    if k == "min":
        raise Unproven("min(..)")
    if k == "cmpcast":
        A, B = norm(e[2], subst), norm(e[3], subst)
        if len(A) == 1 and len(B) == 1 and not A[0][0] and not B[0][0]:
            a, b = A[0][1], B[0][1]
            t = {"Ne": a != b, "Eq": a == b, "Gt": a > b, "Lt": a < b, "Ge": a >= b, "Le": a <= b}[e[1]]
            return [({}, 1 if t else 0)]
        raise Unproven("cast of a comparison that is not constant after residue splitting")
    if k == "unknown":
        raise Unproven("operand outside the size-expression class: %s" % e[1])
    raise Unproven("operator %s" % k)


def nonneg(aff, lower):
    """affine form >= 0 for all variables >= their lower bounds"""
    total = aff[1]
    for v, c in aff[0].items():
        if c < 0:
            return False
        total += c * lower.get(v, 0)
    return total >= 0


def prove_ge(A, B, k=0, lower=None, constraints=(), split_extra=None):
    """Prove A >= B + k for all non-negative integer values of the variables (>= lower[var]) satisfying the constraints.
    constraints: list of (L, R, strict) meaning L > R (strict) or L >= R.   Returns (True, detail) or (False, detail)"""
    lower = lower or {}
    try:
        dv = {}
        for e in [A, B] + [x for c in constraints for x in c[:2]]:
            divided_vars(e, dv)
        if split_extra:
            for v, c in split_extra.items():
                dv[v] = c * dv[v] // gcd(c, dv[v]) if v in dv else c
        names = sorted(dv)
        ranges = [range(dv[v]) for v in names]
        cases = 0
        for combo in itertools.product(*ranges):
            subst = {}
            lo2 = dict(lower)
            for v, r in zip(names, combo):
                q = v + "/" + str(dv[v])
                subst[v] = (dv[v], r, q)
                lb = lower.get(v, 0)
                # v = c*q + r >= lb  =>  q >= ceil((lb - r)/c)
                need = lb - r
                lo2[q] = 0 if need <= 0 else -(-need // dv[v])
            cases += 1
            NA, NB = norm(A, subst), norm(B, subst)
            NC = []
            for L, Rr, strict in constraints:
                try:
                    nl, nr = norm(L, subst), norm(Rr, subst)
                except Unproven:
                    continue
                if len(nr) == 1:
                    for a in nl:
                        pass
                    # L > R with L = max(l_i): cannot pick a branch soundly unless single
                    if len(nl) == 1:
                        NC.append(aff_add(aff_add(nl[0], nr[0], -1), ({}, 1 if strict else 0), -1))   # L - R - [strict] >= 0
            for b in NB:
                ok = False
                for a in NA:
                    d = aff_add(aff_add(a, b, -1), ({}, k), -1)
                    if nonneg(d, lo2):
                        ok = True
                        break
                    for cst in NC:
                        if nonneg(aff_add(d, cst, -1), lo2):
                            ok = True
                            break
                    if ok:
                        break
                if not ok:
                    return False, "case %s: no branch of %s dominates %s + %d" % (
                        ", ".join("%s≡%d (mod %d)" % (v, r, dv[v]) for v, r in zip(names, combo)) or "-", show(A), show(B), k)
        return True, "%d residue case(s)" % cases
    except Unproven as e:
        return False, "unproven: %s" % e
