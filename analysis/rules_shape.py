"""E9 — SHAPE: lazy set expressions and boolean skeletons, extracted symbolically and evaluated exhaustively over a small universe."""
import itertools

from core import Loc
from engine import RuleResult
from symexec import SymExec, Eval, Unknown, has_unknown, show, subsets, api_of
from rules_cost import entry_points

U = (0, 1, 2, 3)


def stream_semantics(ctx):
    """adt path -> ('filter', 'in'|'notin', iter_field, other_field) | ('wrap', iter_field), derived from each lazy iterator's `next` body"""
    def build():
        T = ctx.facts.types
        out = {}
        why = {}
        for b in ctx.facts.bodies.values():
            if b.kind == "Closure" or b.name != "next" or "self_ty" not in b.raw or b.raw.get("trait") != "core::iter::Iterator":
                continue
            st = T[b.raw["self_ty"]]
            if st.get("k") != "adt" or not st["adt"].startswith("griddle::set::"):
                continue
            adt = st["adt"]
            calls = [c for c in ctx.calls(b) if not b.is_cleanup(c.loc.bb)]
            nexts = [c for c in calls if c.method == "next" and c.arg_path(0) is not None and c.arg_path(0).root == 1 and len(c.arg_path(0).fields()) == 1]
            conts = [c for c in calls if c.local_callee() is not None and api_of(c.local_callee().path) == "HashSet::contains"]
            finds = [c for c in calls if c.method == "find" and c.arg_path(0) is not None and c.arg_path(0).root == 1 and len(c.arg_path(0).fields()) == 1
                     and c.closure_args()]
            if len(finds) == 1 and not nexts and not conts:
                # self.iter.find(|x| self.other.contains(x)) / find(|x| !self.other.contains(x))
                F = finds[0]
                cb = F.closure_args()[0]
                cc = [c for c in ctx.calls(cb) if c.local_callee() is not None and api_of(c.local_callee().path) == "HashSet::contains" and not cb.is_cleanup(c.loc.bb)]
                if len(cc) == 1 and not cb.loops() and F.dest is not None and not F.dest["proj"] and F.dest["local"] in b.ret_locals():
                    C_ = cc[0]
                    _, op2 = ctx.resolve(cb, C_.arg_path(0))
                    _, sl_args = cb.slice_back(C_.loc, [C_.args[1]])
                    pol = None
                    if C_.dest is not None and not C_.dest["proj"] and C_.dest["local"] in cb.ret_locals():
                        pol = "in"
                    else:
                        for loc_, st_ in cb.all_assigns():
                            if st_["place"]["local"] in cb.ret_locals() and st_["rv"]["k"] == "unop" and st_["rv"]["op"] == "Not":
                                dd = cb.source_def(st_["rv"]["a"])
                                if dd is not None and dd[1] == "call" and dd[0] == C_.loc:
                                    pol = "notin"
                    if pol and op2 is not None and op2.root == 1 and len(op2.fields()) == 1 and 2 in sl_args \
                            and all(C_.loc.bb == rb or C_.loc.bb in cb.dom().get(rb, set()) for rb in cb.return_blocks()):
                        out[adt] = ("filter", pol, F.arg_path(0).fields()[0][2], op2.fields()[0][2])
                        continue
                why[adt] = "find() with a predicate that is not a membership test of a field of self"
                continue
            if len(nexts) == 1 and not conts:
                n = nexts[0]
                if n.dest is not None and n.dest["local"] == 0 and not n.dest["proj"] and len(calls) == 1:
                    out[adt] = ("wrap", n.arg_path(0).fields()[0][2])
                    continue
                why[adt] = "single next() call whose result is not returned directly"
                continue
            if len(nexts) == 1 and len(conts) == 1:
                n, c = nexts[0], conts[0]
                # locals whose value is handed on unchanged to the return place (an inlined helper's own return slot)
                ret_locals = {0}
                grew = True
                while grew:
                    grew = False
                    for loc_, st_ in b.all_assigns():
                        rv_ = st_["rv"]
                        if st_["place"]["local"] in ret_locals and not st_["place"]["proj"] and rv_["k"] == "use" and rv_["op"]["k"] in ("copy", "move") \
                                and not rv_["op"]["place"]["proj"] and rv_["op"]["place"]["local"] not in ret_locals:
                            ret_locals.add(rv_["op"]["place"]["local"])
                            grew = True
                op = c.arg_path(0)
                if op is None or op.root != 1 or len(op.fields()) != 1:
                    why[adt] = "contains() receiver is not a field of self"
                    continue
                s, _ = b.slice_back(c.loc, [c.args[1]])
                if n.loc not in s:
                    why[adt] = "contains() is not asked about the element just yielded"
                    continue
                # switch on result
                pol = None
                for bb in b.reachable():
                    t = b.term(bb)
                    if t["k"] != "switch":
                        continue
                    d = b.source_def(t["discr"])
                    neg = False
                    if d is not None and d[1] == "assign" and d[2]["rv"]["k"] == "unop" and d[2]["rv"]["op"] == "Not":
                        d = b.source_def(d[2]["rv"]["a"])
                        neg = True
                    if d is not None and d[1] == "assign" and d[2]["rv"]["k"] == "binop" and d[2]["rv"]["op"] in ("Eq", "Ne"):
                        # `contains(x) == wanted` with `wanted` a constant (a shared helper's flag bound at the call site)
                        rvb = d[2]["rv"]
                        for x_, y_ in ((rvb["a"], rvb["b"]), (rvb["b"], rvb["a"])):
                            cv = b.op_const(y_)
                            if cv in (0, 1):
                                if (rvb["op"] == "Eq") != bool(cv):
                                    neg = not neg
                                d = b.source_def(x_)
                                break
                    if d is None or d[1] != "call" or d[0] != c.loc:
                        continue
                    zero = [tb for v, tb in t["targets"] if v == 0]
                    if len(zero) != 1:
                        continue
                    edges = {"zero": zero[0], "nonzero": t["otherwise"]}
                    rets = {}
                    for nm, start in edges.items():
                        # does this edge reach a return without polling next again, assigning _0 = Some(elt)?
                        reach = b.reach_from([start], stop={n.loc.bb})
                        returns = any(b.term(x)["k"] == "return" for x in reach)
                        loops = n.loc.bb in reach
                        some = False
                        for x in reach:
                            for st_ in b.stmts(x):
                                if st_["k"] == "assign" and st_["place"]["local"] in ret_locals and st_["rv"]["k"] == "aggregate" and st_["rv"].get("variant") == "Some":
                                    ss, _ = b.slice_back(Loc(x, 0), st_["rv"]["ops"])
                                    if n.loc in ss or True:
                                        some = True
                        rets[nm] = (returns and some and not loops, loops and not returns)
                    if rets["nonzero"][0] and rets["zero"][1]:
                        pol = "in"
                    elif rets["zero"][0] and rets["nonzero"][1]:
                        pol = "notin"
                    if pol and neg:
                        pol = "notin" if pol == "in" else "in"
                if pol is None:
                    why[adt] = "cannot determine on which outcome of contains() the element is yielded"
                    continue
                out[adt] = ("filter", pol, n.arg_path(0).fields()[0][2], op.fields()[0][2])
                continue
            why[adt] = "next() has %d inner next() calls and %d contains() calls" % (len(nexts), len(conts))
        return out, why
    return ctx.memo("stream_sem", build)


SET_DEFS = {
    "union": lambda a, b: a | b,
    "intersection": lambda a, b: a & b,
    "difference": lambda a, b: a - b,
    "symmetric_difference": lambda a, b: a ^ b,
    "bitor": lambda a, b: a | b, "bitand": lambda a, b: a & b, "bitxor": lambda a, b: a ^ b, "sub": lambda a, b: a - b,
    "par_union": lambda a, b: a | b, "par_intersection": lambda a, b: a & b, "par_difference": lambda a, b: a - b,
    "par_symmetric_difference": lambda a, b: a ^ b,
}
BOOL_DEFS = {
    "is_subset": lambda a, b: a <= b, "is_superset": lambda a, b: a >= b, "is_disjoint": lambda a, b: not (a & b), "eq": lambda a, b: a == b,
    "par_is_subset": lambda a, b: a <= b, "par_is_superset": lambda a, b: a >= b, "par_is_disjoint": lambda a, b: not (a & b), "par_eq": lambda a, b: a == b,
}


def find_set_fn(ctx, name):
    """HashSet inherent method or operator impl by name"""
    out = []
    for b in ctx.facts.bodies.values():
        if b.kind == "Closure":
            continue
        if api_of(b.path) == "HashSet::%s" % name:
            out.append(b)
        elif b.name == name and "self_ty" in b.raw and "HashSet" in ctx.facts.types[b.raw["self_ty"]]["s"] and b.raw.get("trait", "").startswith(("core::ops::", "core::cmp::PartialEq")):
            out.append(b)
    return out


def rule_e9_setexpr(ctx):
    R = RuleResult("E9-set", "each lazy set operation (and its operator form) yields, for every pair of sets, exactly the elements of the mathematical "
                   "definition, each once: the expression built by the constructor is extracted symbolically (with the len-based role swap) and evaluated "
                   "for all 256 pairs of subsets of a 4-element universe, using the filter polarity extracted from each iterator's next()")
    sem, why = stream_semantics(ctx)
    ev = Eval(sem)
    subs = subsets(U if ctx.tier != "thorough" else U + (4,))
    for name in ("union", "intersection", "difference", "symmetric_difference", "bitor", "bitand", "bitxor", "sub"):
        bodies = find_set_fn(ctx, name)
        if not bodies:
            R.anchor("fn:%s" % name, "set operation %s not found" % name)
            continue
        for b in bodies:
            sx = SymExec(ctx)
            v = sx.run(b, [("set", "A"), ("set", "B")])
            key = "HashSet::%s" % name
            u = has_unknown(v)
            if u:
                R.inst(fn=b.path, expr=show(v)[:300], verdict="VIOLATION")
                R.viol(key + ":unproven", b.where(Loc(0, 0)), "cannot extract the set expression of %s (%s)" % (b.path, u))
                continue
            bad = None
            n = 0
            try:
                for a in subs:
                    for bb in subs:
                        got = ev.stream(v, {"A": a, "B": bb})
                        want = SET_DEFS[name](a, bb)
                        n += 1
                        if sorted(got) != sorted(want):
                            bad = (sorted(a), sorted(bb), sorted(got), sorted(want))
                            break
                    if bad:
                        break
            except Unknown as e:
                R.inst(fn=b.path, expr=show(v)[:300], verdict="VIOLATION")
                R.viol(key + ":unproven", b.where(Loc(0, 0)), "cannot evaluate the extracted expression of %s: %s %s" % (b.path, e, why))
                continue
            R.inst(fn=b.path, expr=show(v)[:300], pairs_evaluated=n, verdict="ok" if not bad else "VIOLATION")
            if bad:
                R.viol(key, b.where(Loc(0, 0)), "%s computes %s: for A=%s B=%s it yields %s, the definition gives %s"
                       % (b.path, show(v)[:200], bad[0], bad[1], bad[2], bad[3]))
    R.floor(8, "set operations")
    return R


def rule_e9_bool(ctx):
    R = RuleResult("E9-bool", "is_subset / is_superset / is_disjoint / == of sets and == of maps compute the mathematical predicate: the boolean skeleton "
                   "is extracted symbolically and evaluated for all pairs of subsets of a 4-element universe (maps: all pairs of maps over 3 keys x 2 values)")
    sem, _ = stream_semantics(ctx)
    ev = Eval(sem)
    subs = subsets(U if ctx.tier != "thorough" else U + (4,))
    for name in ("is_subset", "is_superset", "is_disjoint", "eq"):
        bodies = find_set_fn(ctx, name)
        if not bodies:
            R.anchor("fn:%s" % name, "set predicate %s not found" % name)
            continue
        for b in bodies:
            v = SymExec(ctx).run(b, [("set", "A"), ("set", "B")])
            key = "HashSet::%s" % name
            u = has_unknown(v)
            if u:
                R.inst(fn=b.path, expr=show(v)[:300], verdict="VIOLATION")
                R.viol(key + ":unproven", b.where(Loc(0, 0)), "cannot extract the boolean skeleton of %s (%s)" % (b.path, u))
                continue
            bad = None
            n = 0
            try:
                for a in subs:
                    for bb in subs:
                        got = bool(ev.val(v, {"A": a, "B": bb}))
                        n += 1
                        if got != BOOL_DEFS[name](a, bb):
                            bad = (sorted(a), sorted(bb), got)
                            break
                    if bad:
                        break
            except Unknown as e:
                R.inst(fn=b.path, expr=show(v)[:300], verdict="VIOLATION")
                R.viol(key + ":unproven", b.where(Loc(0, 0)), "cannot evaluate the extracted skeleton of %s: %s" % (b.path, e))
                continue
            R.inst(fn=b.path, expr=show(v)[:300], pairs_evaluated=n, verdict="ok" if not bad else "VIOLATION")
            if bad:
                R.viol(key, b.where(Loc(0, 0)), "%s computes %s: for A=%s B=%s it returns %s" % (b.path, show(v)[:200], bad[0], bad[1], bad[2]))
    # map equality
    meq = [b for b in ctx.facts.bodies.values() if b.kind != "Closure" and b.name == "eq" and b.raw.get("trait") == "core::cmp::PartialEq"
           and "self_ty" in b.raw and ctx.facts.types[b.raw["self_ty"]].get("adt", "").endswith("map::HashMap")]
    if not meq:
        R.anchor("fn:HashMap::eq", "PartialEq for HashMap not found")
    keys = (0, 1, 2) if ctx.tier != "thorough" else (0, 1, 2, 3)
    maps = []
    for present in itertools.product([None, 0, 1], repeat=len(keys)):
        maps.append({k: v for k, v in zip(keys, present) if v is not None})
    for b in meq:
        v = SymExec(ctx).run(b, [("set", "A"), ("set", "B")])
        u = has_unknown(v)
        if u:
            R.inst(fn=b.path, expr=show(v)[:300], verdict="VIOLATION")
            R.viol("HashMap::eq:unproven", b.where(Loc(0, 0)), "cannot extract the boolean skeleton of %s (%s)" % (b.path, u))
            continue
        bad = None
        n = 0
        try:
            for a in maps:
                for bb in maps:
                    got = bool(ev.val(v, {"A": a, "B": bb}))
                    n += 1
                    if got != (a == bb):
                        bad = (a, bb, got)
                        break
                if bad:
                    break
        except Unknown as e:
            R.inst(fn=b.path, expr=show(v)[:300], verdict="VIOLATION")
            R.viol("HashMap::eq:unproven", b.where(Loc(0, 0)), "cannot evaluate the extracted skeleton of %s: %s" % (b.path, e))
            continue
        R.inst(fn=b.path, expr=show(v)[:300], pairs_evaluated=n, verdict="ok" if not bad else "VIOLATION")
        if bad:
            R.viol("HashMap::eq", b.where(Loc(0, 0)), "%s computes %s: for A=%s B=%s it returns %s" % (b.path, show(v)[:200], bad[0], bad[1], bad[2]))
    R.floor(5, "predicates")
    return R
