"""E2 — the cursor protocol between OLD (old table) and CURSOR (cached RawIter) — DESIGN §5/E2."""
from core import Loc, AnalysisError
from engine import RuleResult, MAIN, LEFT, OLD, CURSOR

HBT = "hashbrown::raw::RawTable::"
HBI = "hashbrown::raw::RawIter::"

REM_METHODS = {HBT + "erase", HBT + "remove", HBT + "replace_bucket_with"}
OLD_MUT_OK = {HBT + "erase", HBT + "remove", HBT + "replace_bucket_with"}
OLD_CONSUME_OK = {HBT + "into_iter_from"}
CURSOR_MUT_OK = {HBI + "next", HBI + "reflect_remove", HBI + "reflect_insert",
                 "hashbrown::raw::RawIter::size_hint", "hashbrown::raw::RawIter::clone"}


def hb_calls(ctx):
    """all calls to hashbrown raw API with the role of their receiver (arg 0)"""
    def build():
        out = []
        for b in ctx.facts.bodies.values():
            for c in ctx.calls(b):
                if c.tname and c.tname.startswith("hashbrown::raw::"):
                    p = c.arg_path(0)
                    out.append((b, c, ctx.role(b, p), p))
        return out
    return ctx.memo("hb_calls", build)


def between_blocks(body, a_bb, b_bb):
    """blocks strictly between a and b on normal-edge paths a -> … -> b"""
    fwd = set()
    st = [s for s in body.succs(a_bb)]
    while st:
        x = st.pop()
        if x in fwd:
            continue
        fwd.add(x)
        if x == b_bb:
            continue
        st.extend(body.succs(x))
    bwd = set()
    st = [p for p in body.preds(b_bb)]
    while st:
        x = st.pop()
        if x in bwd:
            continue
        bwd.add(x)
        if x == a_bb:
            continue
        st.extend(body.preds(x))
    return (fwd & bwd) - {a_bb, b_bb}


def is_user_drop(ctx, body, t):
    """a Drop terminator that can run user code: the dropped type mentions a type parameter"""
    if t["k"] != "drop":
        return False
    ty = ctx.facts.types[t["place"]["ty"]]
    return bool(ty.get("has_param"))


def disturbing(ctx, body, bb):
    """Does block bb contain something that may run user code or touch OLD/CURSOR?  Returns reason or None."""
    t = body.term(bb)
    if t["k"] == "drop" and is_user_drop(ctx, body, t):
        # dropping a hashbrown bucket/iterator/raw table handle that owns no element is harmless
        ty = ctx.facts.types[t["place"]["ty"]]
        s = ty["s"]
        if ty.get("adt") in ("hashbrown::raw::Bucket", "hashbrown::raw::RawIter"):
            return None
        return "drop of %s (may run a user Drop)" % s
    if t["k"] == "call":
        c = ctx.call_at(body, bb)
        if c.unresolved:
            return "user-code call %s" % (c.tname or "<indirect>")
        p = c.arg_path(0)
        r = ctx.role(body, p) if p is not None else None
        if r in (OLD, CURSOR) and c.tname not in (HBT + "len", HBT + "iter", HBT + "find", HBT + "capacity", HBT + "buckets",
                                                   "hashbrown::raw::Bucket::clone"):
            return "%s on %s" % (c.tname, r)
        if c.local_callee() is not None:
            return "call of griddle function %s" % c.tname
    if t["k"] == "return":
        return "return"
    return None


def same_bucket(ctx, body, rem_op, refl_path):
    """Is the bucket operand of a REM the same bucket value as the one handed to reflect_* (by reference)?"""
    p = body.op_path(rem_op)
    if p is None:
        return False
    if p.strip_refs().key() == refl_path.strip_refs().key():
        return True
    # clone of it
    d = body.source_def(rem_op)
    if d is not None and d[1] == "call":
        c = ctx.call_at(body, d[0].bb)
        if c.method == "clone" and c.trait == "core::clone::Clone":
            q = c.arg_path(0)
            if q is not None and q.strip_refs().key() == refl_path.strip_refs().key():
                return True
    # field-of-same-B
    return False


def rule_p_rem(ctx):
    R = RuleResult("P-rem", "every removal from the old table is preceded by reflect_remove of the same bucket on the cached cursor "
                   "(no user code, cursor step or other old-table mutation in between), or removes the bucket the cursor just yielded")
    for body, c, role, recv in hb_calls(ctx):
        if c.tname not in REM_METHODS or role != OLD:
            continue
        key = "%s:%s:old" % (body.path, c.tname)
        bucket_op = c.args[1]
        # (ii) yielded by the cursor
        bp = body.op_path(bucket_op)
        ok = None
        if bp is not None:
            from rules_typestate import cursor_yield_of
            y = cursor_yield_of(ctx, body, bucket_op)
            if y is not None:
                if body.dominates(y.loc, c.loc) \
                        and [e[0] for e in bp.elems if e[0] != "ref"][:2] == ["downcast", "field"]:
                    bad = [(x, disturbing(ctx, body, x)) for x in between_blocks(body, y.loc.bb, c.loc.bb)]
                    bad = [(x, r) for x, r in bad if r]
                    if not bad and ctx.roles.s_prefix(ctx.resolve(body, y.arg_path(0))[1]) == ctx.roles.s_prefix(ctx.resolve(body, recv)[1]):
                        ok = {"mode": "yielded-by-cursor", "yield": y.where()}
        # (i) dominated by reflect_remove
        if ok is None:
            why_not = []
            for c2 in ctx.calls(body):
                if c2.tname != HBI + "reflect_remove":
                    continue
                if ctx.role(body, c2.arg_path(0)) != CURSOR:
                    why_not.append("reflect_remove @ %s is not on the cached cursor" % c2.where())
                    continue
                if ctx.roles.s_prefix(ctx.resolve(body, c2.arg_path(0))[1]) != ctx.roles.s_prefix(ctx.resolve(body, recv)[1]):
                    why_not.append("reflect_remove @ %s is on another table's cursor" % c2.where())
                    continue
                if not body.dominates(c2.loc, c.loc) or c2.loc.bb == c.loc.bb:
                    why_not.append("reflect_remove @ %s does not dominate the removal" % c2.where())
                    continue
                if not same_bucket(ctx, body, bucket_op, c2.arg_path(1)):
                    why_not.append("reflect_remove @ %s is given a different bucket" % c2.where())
                    continue
                bad = [(x, disturbing(ctx, body, x)) for x in between_blocks(body, c2.loc.bb, c.loc.bb)]
                bad = [(x, r) for x, r in bad if r]
                if bad:
                    why_not.append("between reflect_remove @ %s and the removal: %s" % (c2.where(), "; ".join("bb%d: %s" % b for b in bad)))
                    continue
                ok = {"mode": "reflect-then-remove", "reflect": c2.where()}
                break
            if ok is None:
                # where is the reflect, if anywhere (diagnostic)
                inside = []
                for cb in c.closure_args():
                    for c3 in ctx.calls(cb):
                        if c3.tname == HBI + "reflect_remove":
                            inside.append("reflect_remove is called inside the closure passed to the removal (%s), i.e. after the element "
                                          "was already removed and after user code ran" % c3.where())
                R.inst(fn=body.path, site=c.where(), rem=c.tname, verdict="VIOLATION")
                R.viol(key, c.where(),
                       "%s on the old table in %s is not preceded by reflect_remove of the same bucket on the cached cursor. %s %s"
                       % (c.tname, body.path, " ".join(why_not), " ".join(inside)))
                continue
        R.inst(fn=body.path, site=c.where(), rem=c.tname, **ok)
    R.floor(3, "old-table removal sites")
    modes = {i.get("mode") for i in R.instances}
    if "yielded-by-cursor" not in modes and not R.violations:
        R.anchor("mover-removal", "no removal of a cursor-yielded bucket found (where do elements leave the old table?)")
    return R


def find_rebuilds(ctx, body):
    """assignments CURSOR := OLD.iter() (same O) in body: list of Loc"""
    out = []
    for loc, st in body.all_assigns():
        p = body.expand(st["place"])
        if not ctx.roles.is_cursor_place(ctx.resolve(body, p)[1]) and not ctx.roles.is_cursor_place(p):
            continue
        rv = st["rv"]
        if rv["k"] != "use":
            continue
        d = body.source_def(rv["op"])
        if d is None or d[1] != "call":
            continue
        c = ctx.call_at(body, d[0].bb)
        if c.tname == HBT + "iter" and ctx.role(body, c.arg_path(0)) == OLD:
            o1 = _o_prefix(ctx, ctx.resolve(body, p)[1])
            o2 = _o_prefix(ctx, ctx.resolve(body, c.arg_path(0))[1])
            if o1 is not None and o1 == o2:
                out.append(loc)
    return out


def _o_prefix(ctx, path):
    """path up to the O record it goes through"""
    from core import Path
    for n, e in enumerate(path.elems):
        if e[0] == "field" and e[1] == ctx.roles.O:
            return Path(path.root, path.elems[:n]).strip_refs().key()
    return None


def rule_p_fill(ctx):
    R = RuleResult("P-fill", "when replace_bucket_with on the old table may have re-filled the slot after its removal was reflected, "
                   "the cursor is rebuilt (CURSOR := OLD.iter()) before returning; reflect_insert is not accepted as the undo")
    for body, c, role, recv in hb_calls(ctx):
        if c.tname != HBT + "replace_bucket_with" or role != OLD:
            continue
        key = "%s:%s:old" % (body.path, c.tname)
        # only meaningful if a reflect_remove dominates (otherwise P-rem reports)
        refl = [c2 for c2 in ctx.calls(body) if c2.tname == HBI + "reflect_remove" and body.dominates(c2.loc, c.loc) and c2.loc.bb != c.loc.bb]
        if not refl:
            R.inst(fn=body.path, site=c.where(), verdict="n/a (no preceding reflect_remove: see P-rem)")
            continue
        rebuilds = {l.bb for l in find_rebuilds(ctx, body)}
        dest = c.dest
        # search for a normally-returning path from the call that neither rebuilds nor takes the "not refilled" edge
        start = c.target
        seen = set()
        st = [(start, [start])]
        witness = None
        while st and witness is None:
            b, path = st.pop()
            if b in seen:
                continue
            seen.add(b)
            if b in rebuilds:
                continue
            t = body.term(b)
            if t["k"] == "return":
                witness = path
                break
            if t["k"] == "switch":
                d = body.source_def(t["discr"])
                is_result = d is not None and d[1] == "call" and d[0].bb == c.loc.bb
                for s_ in body.succs(b):
                    if is_result and any(v == 0 and tb == s_ for v, tb in t["targets"]) and s_ != t["otherwise"]:
                        continue  # result == false: slot not refilled
                    st.append((s_, path + [s_]))
                continue
            for s_ in body.succs(b):
                st.append((s_, path + [s_]))
        if witness is not None:
            R.inst(fn=body.path, site=c.where(), verdict="VIOLATION")
            R.viol(key, c.where(), "after %s the slot may be re-filled but the path %s reaches a return without rebuilding the cursor "
                   "(CURSOR := OLD.iter()); the preceding reflect_remove removed the bucket from the cursor, so the element would never be moved"
                   % (c.tname, " -> ".join("bb%d" % x for x in witness)))
        else:
            R.inst(fn=body.path, site=c.where(), verdict="rebuilt on every refilled path", rebuilds=sorted(rebuilds))
    return R


def rule_p_only(ctx):
    R = RuleResult("P-only", "nothing can insert into, clear, resize or re-hash the old table, or reposition its cursor other than "
                   "next/reflect/rebuild: the only mutating operations on OLD are erase/remove/replace_bucket_with/into_iter_from")
    T = ctx.facts.types
    for body, c, role, recv in hb_calls(ctx):
        if role not in (OLD, CURSOR):
            continue
        a0 = c.args[0]
        aty = T[a0["place"]["ty"]] if a0["k"] in ("copy", "move") else None
        mutable = aty is not None and aty.get("k") == "ref" and aty.get("mut")
        byval = aty is not None and aty.get("k") != "ref" and aty.get("k") != "ptr"
        key = "%s:%s:%s" % (body.path, c.tname, role)
        if role == OLD:
            if mutable and c.tname not in OLD_MUT_OK:
                R.viol(key, c.where(), "%s takes the old table by &mut: it may insert/clear/resize/re-hash it and invalidate the cached cursor" % c.tname)
            elif byval and c.tname not in OLD_CONSUME_OK:
                R.viol(key, c.where(), "%s consumes the old table" % c.tname)
            R.inst(fn=body.path, site=c.where(), op=c.tname, role=role, access="mut" if mutable else "move" if byval else "shared")
        else:
            if mutable and c.tname not in CURSOR_MUT_OK:
                R.viol(key, c.where(), "%s mutates the cached cursor" % c.tname)
            R.inst(fn=body.path, site=c.where(), op=c.tname, role=role, access="mut" if mutable else "move" if byval else "shared")
    # OLD / CURSOR handed by &mut to anything that is not hashbrown, or assigned
    for b in ctx.facts.bodies.values():
        for c in ctx.calls(b):
            if c.tname and c.tname.startswith("hashbrown::raw::"):
                continue
            for i, a in enumerate(c.args):
                if a["k"] not in ("copy", "move"):
                    continue
                aty = T[a["place"]["ty"]]
                if not (aty.get("k") == "ref" and aty.get("mut")):
                    continue
                p = b.op_path(a)
                _, p2 = ctx.resolve(b, p)
                if ctx.roles.is_old_place(p2):
                    R.viol("%s:%s:OLD-escapes" % (b.path, c.tname), c.where(), "&mut to the old table is passed to %s" % c.tname)
                elif ctx.roles.is_cursor_place(p2) and c.local_callee() is None and c.closure_args() == []:
                    if c.tname not in ("core::iter::Iterator::next",):
                        R.viol("%s:%s:CURSOR-escapes" % (b.path, c.tname), c.where(), "&mut to the cached cursor is passed to %s" % c.tname)
        rebuilds = set((l.bb, l.i) for l in find_rebuilds(ctx, b))
        for loc, st in b.all_assigns():
            p = b.expand(st["place"])
            _, p2 = ctx.resolve(b, p)
            if ctx.roles.is_old_place(p2) and st["place"]["proj"]:
                R.viol("%s:assign:OLD" % b.path, b.where(loc), "the old table is overwritten in place")
            if ctx.roles.is_cursor_place(p2) and st["place"]["proj"] and (loc.bb, loc.i) not in rebuilds:
                R.viol("%s:assign:CURSOR" % b.path, b.where(loc), "the cached cursor is overwritten with something other than OLD.iter() of the same old table")
    # a mutable reference to the old table never leaves the body that takes it: whoever receives it could change the table behind the cursor's back
    for b in ctx.facts.bodies.values():
        for loc, st in b.all_assigns():
            rv = st["rv"]
            if b.is_cleanup(loc.bb) or rv["k"] not in ("ref", "rawptr") or not rv.get("mut") or st["place"]["proj"]:
                continue
            _, p2 = ctx.resolve(b, b.expand(rv["place"]))
            if p2 is None or not ctx.roles.is_old_place(p2.strip_refs()):
                continue
            flow = {st["place"]["local"]}
            grew = True
            esc = None
            while grew and esc is None:
                grew = False
                for loc2, st2 in b.all_assigns():
                    if b.is_cleanup(loc2.bb):
                        continue
                    rv2 = st2["rv"]
                    srcs = []
                    if rv2["k"] in ("use", "cast") and rv2["op"]["k"] in ("copy", "move"):
                        srcs = [rv2["op"]["place"]]
                    elif rv2["k"] in ("ref", "rawptr", "copy_for_deref"):
                        srcs = [rv2["place"]]
                    elif rv2["k"] == "aggregate":
                        srcs = [o["place"] for o in rv2["ops"] if o["k"] in ("copy", "move")]
                    if any(pl["local"] in flow for pl in srcs) and st2["place"]["local"] not in flow:
                        if st2["place"]["proj"] and st2["place"]["proj"][0]["k"] == "deref":
                            esc = ("stored through a pointer", loc2)
                            break
                        flow.add(st2["place"]["local"])
                        grew = True
            if esc is None and 0 in flow:
                esc = ("returned", loc)
            if esc is not None:
                R.inst(fn=b.path, site=b.where(loc), op="&mut OLD", verdict="VIOLATION")
                R.viol("%s:OLD-escapes:%s" % (b.path, esc[0].split()[0]), b.where(esc[1]), "a mutable reference to the old table is %s by %s: code outside the cursor "
                       "protocol can then insert into, clear or drain the table while the cached cursor still describes its former contents" % (esc[0], b.path))
    R.floor(4, "operations on OLD/CURSOR")
    return R


def rule_p_new(ctx):
    R = RuleResult("P-new", "an old-table record is only built as {table: t, cursor: t.iter()} with no mutation of t in between")
    ro = ctx.roles
    for b in ctx.facts.bodies.values():
        for loc, st in b.all_assigns():
            rv = st["rv"]
            if rv["k"] != "aggregate" or rv.get("agg") != "adt" or rv.get("adt") != ro.O:
                continue
            top, iop = rv["ops"][ro.O_table], rv["ops"][ro.O_iter]
            key = "%s:construct" % b.path
            tp = b.op_path(top)
            d = b.source_def(iop)
            if d is None or d[1] != "call":
                R.viol(key, b.where(loc), "cursor field is not the direct result of a call")
                continue
            c = ctx.call_at(b, d[0].bb)
            ip = c.arg_path(0)
            if c.tname != HBT + "iter" or ip is None or tp is None or ip.strip_refs().key() != tp.strip_refs().key():
                R.viol(key, b.where(loc), "cursor is %s(%s), not iter() of the table value %s stored next to it" % (c.tname, ip, tp))
                continue
            bad = []
            for x in between_blocks(b, c.loc.bb, loc.bb) | {loc.bb}:
                t = b.term(x)
                if x == loc.bb:
                    continue
                if t["k"] == "call":
                    for a in t["args"]:
                        q = b.op_path(a)
                        if q is not None and q.strip_refs().key()[0] == tp.key()[0] and q.strip_refs().key() == tp.strip_refs().key():
                            aty = ctx.facts.types[a["place"]["ty"]]
                            if aty.get("k") != "ref" or aty.get("mut"):
                                bad.append(b.where(Loc(x, len(b.stmts(x)))))
            if bad:
                R.viol(key, b.where(loc), "table is mutated between iter() and the construction: %s" % bad)
            R.inst(fn=b.path, site=b.where(loc), cursor_from=c.where())
    R.floor(1, "old-table record constructions")
    return R


# ---------------------------------------------------------------------------
# P-zst
# ---------------------------------------------------------------------------
def _sizeof_guard_edges(ctx, body):
    """edges (bb -> succ) on which size_of::<T>() is known non-zero / zero.
    returns dict {(bb, succ): 'nonzero'|'zero'}"""
    out = {}
    for bb in body.reachable():
        t = body.term(bb)
        if t["k"] != "switch":
            continue
        d = body.source_def(t["discr"])
        if d is None or d[1] != "assign":
            continue
        rv = d[2]["rv"]
        pol = None
        src = None
        if rv["k"] == "binop" and rv["op"] in ("Eq", "Ne", "Gt", "Lt"):
            a, b_ = rv["a"], rv["b"]
            ca, cb = body.op_const(a), body.op_const(b_)
            if cb == 0 and ca is None:
                src = a
                pol = {"Eq": "zero_if_true", "Ne": "nonzero_if_true", "Gt": "nonzero_if_true"}.get(rv["op"])
            elif ca == 0 and cb is None:
                src = b_
                pol = {"Eq": "zero_if_true", "Ne": "nonzero_if_true", "Lt": "nonzero_if_true"}.get(rv["op"])
        if src is None or pol is None:
            continue
        sd = body.source_def(src)
        is_sizeof = False
        if sd is not None and sd[1] == "call":
            c = ctx.call_at(body, sd[0].bb)
            if c.name in ("core::mem::size_of", "core::intrinsics::size_of"):
                is_sizeof = True
        elif src["k"] == "const" and "SIZE" in src.get("text", ""):
            is_sizeof = True
        if not is_sizeof:
            continue
        for v, tb in t["targets"]:
            if v == 0 and tb != t["otherwise"]:
                out[(bb, tb)] = "zero" if pol == "nonzero_if_true" else "nonzero"
        ob = t["otherwise"]
        out[(bb, ob)] = "nonzero" if pol == "nonzero_if_true" else "zero"
    return out


def rule_p_zst(ctx):
    """reflect_* panics for zero-sized T (ptr::offset_from asserts size_of::<T>() > 0).  Accepts two shapes."""
    R = RuleResult("P-zst", "hashbrown's reflect_remove/reflect_insert panic for zero-sized elements: every such call site is guarded by "
                   "size_of::<T>() != 0, or a zero-sized-element table is never left split (every body installing an old table finishes "
                   "the move at once when size_of::<T>() == 0)")
    from rules_typestate import installs_left, unbounded_movers
    sites = [(b, c) for b, c, role, _ in hb_calls(ctx) if c.tname in (HBI + "reflect_remove", HBI + "reflect_insert")]
    # shape 2
    shape2 = True
    shape2_why = []
    inst_sites = installs_left(ctx)
    movers = unbounded_movers(ctx)
    if not inst_sites:
        shape2 = False
        shape2_why.append("no body installs an old table?")
    from rules_typestate import left_test_edges, N as N_
    for b, loc in inst_sites:
        edges = _sizeof_guard_edges(ctx, b)
        ledges = left_test_edges(ctx, b, ignore_debug=False)
        zero_edges = [e for e, k in edges.items() if k == "zero"]
        nonzero_targets = {e[1] for e, k in edges.items() if k == "nonzero"}
        # every normal path from the install to a return must take a zero-edge... on the ZST path: treat 'nonzero' edges as dead
        # and require: from the install block, every path to return (avoiding nonzero edges) passes through a call of an unbounded
        # mover with no user code before it.
        mover_bbs = set()
        for c in ctx.calls(b):
            lc = c.local_callee()
            if lc is not None and lc.path in movers:
                mover_bbs.add(c.loc.bb)
        seen = set()
        st = [(loc.bb, [loc.bb])]
        witness = None
        while st and witness is None:
            x, path = st.pop()
            if x in seen:
                continue
            seen.add(x)
            if x in mover_bbs:
                continue
            t = b.term(x)
            if t["k"] == "return":
                witness = path
                break
            if x != loc.bb or True:
                if t["k"] == "call":
                    c = ctx.call_at(b, x)
                    if c.unresolved and x != loc.bb:
                        witness = path + ["user code %s" % c.tname]
                        break
            for s_ in b.succs(x):
                if edges.get((x, s_)) == "nonzero":
                    continue
                if ledges.get((x, s_)) == N_:
                    continue          # found to hold no old table after all (`LEFT = if .. { Some(..) } else { None }; if LEFT.is_some() && ..`)
                st.append((s_, path + [s_]))
        if witness is not None:
            shape2 = False
            shape2_why.append("%s installs an old table at %s and, for zero-sized T, can return (path %s) without finishing the move"
                              % (b.path, b.where(loc), witness))
    for b, c in sites:
        key = "%s:%s" % (b.path, c.tname)
        # shape 1: dominated by a nonzero edge
        edges = _sizeof_guard_edges(ctx, b)
        ok1 = False
        for (x, s_), k in edges.items():
            if k == "nonzero" and s_ in b.dom().get(c.loc.bb, set()) and len(b.preds(s_, True)) == 1:
                ok1 = True
        if ok1:
            R.inst(fn=b.path, site=c.where(), verdict="guarded by size_of::<T>() != 0")
        elif shape2:
            R.inst(fn=b.path, site=c.where(), verdict="unreachable for zero-sized T: a zero-sized-element table is never left split")
        else:
            R.inst(fn=b.path, site=c.where(), verdict="VIOLATION")
            R.viol(key, c.where(), "%s panics for zero-sized T (ptr::offset_from asserts size_of::<T>() > 0) and this site is reachable "
                   "with a zero-sized element type: it is not guarded by size_of::<T>() != 0, and %s" % (c.tname, "; ".join(shape2_why)))
    R.floor(1, "reflect_* call sites")
    return R
