//! Compile-fail witnesses for the type-level part of the properties (DESIGN §5/E12).
//!
//! Every witness is a doc-test marked `compile_fail,E0xxx` (the violating program must be rejected with
//! exactly that error) and is paired with a twin marked `no_run` that differs only in the offending
//! line and must compile — a witness that merely names something wrong would otherwise "pass".
//! Nothing here is executed.  Run with `cargo +nightly test --doc` (error codes are ignored on stable).

/// w1 — an iterator borrows the map: inserting while it is alive is rejected (C05, C08).
/// ```compile_fail,E0502
/// let mut m: griddle::HashMap<u32, u32> = griddle::HashMap::new();
/// m.insert(1, 1);
/// let it = m.iter();
/// m.insert(2, 2);
/// drop(it);
/// ```
/// ```no_run
/// let mut m: griddle::HashMap<u32, u32> = griddle::HashMap::new();
/// m.insert(1, 1);
/// let it = m.iter();
/// drop(it);
/// m.insert(2, 2);
/// ```
pub struct W1IterBorrowsMap;

/// w2 — two `iter_mut()` cannot coexist (C05).
/// ```compile_fail,E0499
/// let mut m: griddle::HashMap<u32, u32> = griddle::HashMap::new();
/// let a = m.iter_mut();
/// let b = m.iter_mut();
/// drop(a); drop(b);
/// ```
/// ```no_run
/// let mut m: griddle::HashMap<u32, u32> = griddle::HashMap::new();
/// let a = m.iter_mut();
/// drop(a);
/// let b = m.iter_mut();
/// drop(b);
/// ```
pub struct W2IterMutExclusive;

/// w3 — `drain()` keeps the map mutably borrowed (C05, C08).
/// ```compile_fail,E0499
/// let mut m: griddle::HashMap<u32, u32> = griddle::HashMap::new();
/// let d = m.drain();
/// m.clear();
/// drop(d);
/// ```
/// ```no_run
/// let mut m: griddle::HashMap<u32, u32> = griddle::HashMap::new();
/// let d = m.drain();
/// drop(d);
/// m.clear();
/// ```
pub struct W3DrainBorrowsMap;

/// w4 — an entry handle excludes every other use of the map (C05, C12).
/// ```compile_fail,E0499
/// let mut m: griddle::HashMap<u32, u32> = griddle::HashMap::new();
/// let e = m.entry(1);
/// m.insert(2, 2);
/// drop(e);
/// ```
/// ```no_run
/// let mut m: griddle::HashMap<u32, u32> = griddle::HashMap::new();
/// let e = m.entry(1);
/// drop(e);
/// m.insert(2, 2);
/// ```
pub struct W4EntryExclusive;

/// w4b — so does a raw entry handle (C05, C12).
/// ```compile_fail,E0499
/// let mut m: griddle::HashMap<u32, u32> = griddle::HashMap::new();
/// let e = m.raw_entry_mut().from_key(&1);
/// m.insert(2, 2);
/// drop(e);
/// ```
/// ```no_run
/// let mut m: griddle::HashMap<u32, u32> = griddle::HashMap::new();
/// let e = m.raw_entry_mut().from_key(&1);
/// drop(e);
/// m.insert(2, 2);
/// ```
pub struct W4bRawEntryExclusive;

/// w5 — a reference returned by `get` cannot outlive a removal (C05).
/// ```compile_fail,E0502
/// let mut m: griddle::HashMap<u32, String> = griddle::HashMap::new();
/// m.insert(1, String::new());
/// let r = m.get(&1);
/// m.remove(&1);
/// drop(r);
/// ```
/// ```no_run
/// let mut m: griddle::HashMap<u32, String> = griddle::HashMap::new();
/// m.insert(1, String::new());
/// let r = m.get(&1);
/// drop(r);
/// m.remove(&1);
/// ```
pub struct W5GetBorrowsMap;

/// w6 — the reference returned by an inserting entry call borrows the map mutably (C05, C12).
/// ```compile_fail,E0499
/// let mut m: griddle::HashMap<u32, u32> = griddle::HashMap::new();
/// let r = m.entry(1).or_insert(5);
/// m.clear();
/// *r = 6;
/// ```
/// ```no_run
/// let mut m: griddle::HashMap<u32, u32> = griddle::HashMap::new();
/// let r = m.entry(1).or_insert(5);
/// *r = 6;
/// m.clear();
/// ```
pub struct W6OrInsertBorrowsMap;

/// w7 — `drain_filter` keeps the map mutably borrowed (C05, C09).
/// ```compile_fail,E0499
/// let mut m: griddle::HashMap<u32, u32> = griddle::HashMap::new();
/// let d = m.drain_filter(|_, _| true);
/// m.insert(1, 1);
/// drop(d);
/// ```
/// ```no_run
/// let mut m: griddle::HashMap<u32, u32> = griddle::HashMap::new();
/// let d = m.drain_filter(|_, _| true);
/// drop(d);
/// m.insert(1, 1);
/// ```
pub struct W7DrainFilterBorrowsMap;

/// w8 — iterators handing out `&mut` or owned elements are not `Clone` (C05, C08); the shared ones are.
/// ```compile_fail,E0599
/// let mut m: griddle::HashMap<u32, u32> = griddle::HashMap::new();
/// let a = m.iter_mut();
/// let b = a.clone();
/// ```
/// ```compile_fail,E0599
/// let mut m: griddle::HashMap<u32, u32> = griddle::HashMap::new();
/// let a = m.values_mut();
/// let b = a.clone();
/// ```
/// ```compile_fail,E0599
/// let mut m: griddle::HashMap<u32, u32> = griddle::HashMap::new();
/// let a = m.drain();
/// let b = a.clone();
/// ```
/// ```compile_fail,E0599
/// let m: griddle::HashMap<u32, u32> = griddle::HashMap::new();
/// let a = m.into_iter();
/// let b = a.clone();
/// ```
/// ```no_run
/// let m: griddle::HashMap<u32, u32> = griddle::HashMap::new();
/// let a = m.iter();
/// let b = a.clone();
/// let c = m.keys().clone();
/// let d = m.values().clone();
/// let _ = (a, b, c, d);
/// ```
pub struct W8MutIteratorsNotClone;

/// w9 — the `unsafe impl Send`s do not make non-Send contents sendable (C05, C15).
/// ```compile_fail,E0277
/// fn is_send<T: Send>(_: T) {}
/// let mut m: griddle::HashMap<std::rc::Rc<u32>, u32> = griddle::HashMap::new();
/// is_send(m.iter_mut());
/// ```
/// ```compile_fail,E0277
/// fn is_send<T: Send>(_: T) {}
/// let mut m: griddle::HashMap<u32, std::rc::Rc<u32>> = griddle::HashMap::new();
/// if let griddle::hash_map::Entry::Occupied(o) = m.entry(1) { is_send(o); }
/// ```
/// ```compile_fail,E0277
/// fn is_send<T: Send>(_: T) {}
/// let mut m: griddle::HashMap<u32, std::rc::Rc<u32>> = griddle::HashMap::new();
/// if let griddle::hash_map::RawEntryMut::Occupied(o) = m.raw_entry_mut().from_key(&1) { is_send(o); }
/// ```
/// ```no_run
/// fn is_send<T: Send>(_: T) {}
/// let mut m: griddle::HashMap<u32, u32> = griddle::HashMap::new();
/// is_send(m.iter_mut());
/// if let griddle::hash_map::Entry::Occupied(o) = m.entry(1) { is_send(o); }
/// if let griddle::hash_map::RawEntryMut::Occupied(o) = m.raw_entry_mut().from_key(&1) { is_send(o); }
/// ```
pub struct W9SendBounds;

/// w9b — a raw occupied entry of a map whose hash builder is not thread-safe is neither Send nor Sync (defect D6, repaired).
/// ```compile_fail,E0277
/// use std::hash::{BuildHasher, Hasher};
/// #[derive(Default, Clone)]
/// struct RcState(std::rc::Rc<u32>);
/// impl BuildHasher for RcState { type Hasher = std::collections::hash_map::DefaultHasher; fn build_hasher(&self) -> Self::Hasher { Default::default() } }
/// fn is_send<T: Send>(_: T) {}
/// let mut m: griddle::HashMap<u32, u32, RcState> = griddle::HashMap::default();
/// if let griddle::hash_map::RawEntryMut::Occupied(o) = m.raw_entry_mut().from_key(&1) { is_send(o); }
/// ```
/// ```compile_fail,E0277
/// use std::hash::{BuildHasher, Hasher};
/// #[derive(Default, Clone)]
/// struct CellState(std::cell::Cell<u32>);
/// impl BuildHasher for CellState { type Hasher = std::collections::hash_map::DefaultHasher; fn build_hasher(&self) -> Self::Hasher { Default::default() } }
/// fn is_sync<T: Sync>(_: &T) {}
/// let mut m: griddle::HashMap<u32, u32, CellState> = griddle::HashMap::default();
/// if let griddle::hash_map::RawEntryMut::Occupied(o) = m.raw_entry_mut().from_key(&1) { is_sync(&o); }
/// ```
/// ```no_run
/// use std::hash::{BuildHasher, Hasher};
/// #[derive(Default, Clone)]
/// struct PlainState(u32);
/// impl BuildHasher for PlainState { type Hasher = std::collections::hash_map::DefaultHasher; fn build_hasher(&self) -> Self::Hasher { Default::default() } }
/// fn is_send<T: Send>(_: T) {}
/// fn is_sync<T: Sync>(_: &T) {}
/// let mut m: griddle::HashMap<u32, u32, PlainState> = griddle::HashMap::default();
/// if let griddle::hash_map::RawEntryMut::Occupied(o) = m.raw_entry_mut().from_key(&1) { is_sync(&o); is_send(o); }
/// ```
pub struct W9bRawOccupiedEntryHasherBound;

/// w10 — parallel mutable iteration needs `&mut` (C15).
/// ```compile_fail,E0596
/// use rayon::prelude::*;
/// let m: griddle::HashMap<u32, u32> = griddle::HashMap::new();
/// m.par_iter_mut().for_each(|(_, v)| *v += 1);
/// ```
/// ```no_run
/// use rayon::prelude::*;
/// let mut m: griddle::HashMap<u32, u32> = griddle::HashMap::new();
/// m.par_iter_mut().for_each(|(_, v)| *v += 1);
/// ```
pub struct W10ParIterMutNeedsMut;

/// w11 — parallel iteration is only offered for thread-safe contents (C15).
/// ```compile_fail,E0599
/// use rayon::prelude::*;
/// let m: griddle::HashMap<u32, std::cell::Cell<u32>> = griddle::HashMap::new();
/// m.par_iter().for_each(|_| ());
/// ```
/// ```compile_fail,E0599
/// use rayon::prelude::*;
/// let mut m: griddle::HashMap<u32, std::rc::Rc<u32>> = griddle::HashMap::new();
/// m.par_values_mut().for_each(|_| ());
/// ```
/// ```no_run
/// use rayon::prelude::*;
/// let mut m: griddle::HashMap<u32, u32> = griddle::HashMap::new();
/// m.par_iter().for_each(|_| ());
/// m.par_values_mut().for_each(|_| ());
/// ```
pub struct W11ParNeedsThreadSafeContents;

/// w12 — the `&mut`-yielding parallel iterators cannot be cloned (C15).
/// ```compile_fail,E0599
/// use rayon::prelude::*;
/// let mut m: griddle::HashMap<u32, u32> = griddle::HashMap::new();
/// let a = m.par_iter_mut();
/// let b = a.clone();
/// ```
/// ```no_run
/// use rayon::prelude::*;
/// let m: griddle::HashMap<u32, u32> = griddle::HashMap::new();
/// let a = m.par_iter();
/// let b = a.clone();
/// let _ = (a, b);
/// ```
pub struct W12ParIterMutNotClone;

/// w13 — set iterators borrow the set; `HashSet::drain` excludes other uses (C08, C13).
/// ```compile_fail,E0502
/// let mut s: griddle::HashSet<u32> = griddle::HashSet::new();
/// let it = s.iter();
/// s.insert(1);
/// drop(it);
/// ```
/// ```no_run
/// let mut s: griddle::HashSet<u32> = griddle::HashSet::new();
/// let it = s.iter();
/// drop(it);
/// s.insert(1);
/// ```
pub struct W13SetIterBorrowsSet;
