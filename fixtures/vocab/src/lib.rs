//! Positive controls for the zero-count vocabulary rules (V-own, V-unsafe):
//! one use of each forbidden primitive.  The rules must report every function below on every run.
#![allow(clippy::all, unused)]
use std::mem::{self, ManuallyDrop, MaybeUninit};
use std::ptr;

pub fn uses_forget<T>(x: T) { mem::forget(x) }
pub fn uses_manually_drop<T>(x: T) -> ManuallyDrop<T> { ManuallyDrop::new(x) }
pub fn uses_ptr_read<T>(x: &T) -> T { unsafe { ptr::read(x) } }
pub fn uses_ptr_write<T>(p: &mut T, x: T) { unsafe { ptr::write(p, x) } }
pub fn uses_ptr_copy<T>(a: &T, b: &mut T) { unsafe { ptr::copy_nonoverlapping(a, b, 1) } }
pub fn uses_drop_in_place<T>(p: &mut T) { unsafe { ptr::drop_in_place(p) } }
pub fn uses_assume_init<T>(m: MaybeUninit<T>) -> T { unsafe { m.assume_init() } }
pub fn uses_transmute(x: u64) -> i64 { unsafe { mem::transmute(x) } }
pub fn uses_zeroed<T>() -> T { unsafe { mem::zeroed() } }
pub fn uses_box_leak<T>(b: Box<T>) -> &'static mut T { Box::leak(b) }
pub fn uses_raw_deref(p: *const u32) -> u32 { unsafe { *p } }
pub struct NotSend(*const u8);
unsafe impl Send for NotSend {}
pub struct Holder<'a, S, K>(&'a S, Option<K>);
unsafe impl<S, K: Send> Send for Holder<'_, S, K> {}
pub fn uses_unreachable_unchecked(x: u32) -> u32 { if x == 7 { unsafe { std::hint::unreachable_unchecked() } } x }
