#!/usr/bin/env python3
"""dev helper: list the hunks of a unified diff, or write a diff with a subset of them.
usage: split_patch.py <patch>                 -> lists  <n>: <file> <@@ header>
       split_patch.py <patch> <out> 0 2 5     -> writes the hunks with these numbers"""
import re, sys
lines = open(sys.argv[1]).read().split("\n")
files, cur, hunk = [], None, None
for ln in lines:
    if ln.startswith("diff --git"):
        cur = {"head": [ln], "hunks": []}
        files.append(cur)
        hunk = None
    elif ln.startswith("@@") and cur is not None:
        hunk = [ln]
        cur["hunks"].append(hunk)
    elif hunk is not None:
        hunk.append(ln)
    elif cur is not None:
        cur["head"].append(ln)
n = 0
index = []
for f in files:
    for h in f["hunks"]:
        index.append((n, f, h))
        n += 1
if len(sys.argv) == 2:
    for i, f, h in index:
        print("%d: %s %s" % (i, f["head"][0].split(" b/")[-1], h[0][:110]))
else:
    want = set(int(x) for x in sys.argv[3:])
    out = []
    for f in files:
        hs = [h for i, ff, h in index if ff is f and i in want]
        if hs:
            out += f["head"]
            for h in hs:
                out += h
    open(sys.argv[2], "w").write("\n".join(out).rstrip("\n") + "\n")
