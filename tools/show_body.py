#!/usr/bin/env python3
"""dev helper: print the MIR of bodies whose path contains the given substring.  usage: tools/show_body.py <facts.json> <substr> [VIEW]"""
import os, sys
VERIF = os.path.dirname(os.path.dirname(os.path.abspath(__file__)))
sys.path.insert(0, os.path.join(VERIF, "analysis"))
from core import Facts
from engine import Ctx
from mirfmt import fmt_body
ctx = Ctx(Facts(sys.argv[1])); ctx.verif = VERIF
if len(sys.argv) > 3:
    from engine import view_ctx
    ctx = view_ctx(ctx, sys.argv[3])
for p, b in ctx.facts.bodies.items():
    if sys.argv[2] in p:
        print(fmt_body(b.raw))
