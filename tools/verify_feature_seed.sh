#!/bin/bash
# usage: tools/verify_feature_seed.sh <worktree dir> <out dir>
# A seeded *new feature with a mistake*: SEED/patch.diff (buggy) and SEED/fixed.diff (the same feature, correct).
# Confirms: (1) the repository's suite (+ the feature's own tests) passes with the buggy feature, (2) the demonstration fails with it,
# (3) the demonstration passes with the corrected feature; then runs every check against both versions applied to /repo (restored afterwards).
set -u
W=$1; OUT=$2; mkdir -p $OUT
cd $W || exit 2
export CARGO_NET_OFFLINE=true
cp SEED/patch.diff $OUT/patch.diff; cp SEED/fixed.diff $OUT/fixed.diff; cp SEED/README.md $OUT/agent_README.md
cp tests/seed_demo.rs $OUT/seed_demo.rs 2>/dev/null
sw() { git checkout -q -- src 2>/dev/null; git clean -fdq -- src; git apply $1 || echo "CANNOT APPLY $1"; }
sw $OUT/patch.diff
echo "== suite with change (demo moved aside)" | tee $OUT/verify.log
mv tests/seed_demo.rs /tmp/seed_demo_aside.rs
(cargo nextest run --workspace --no-fail-fast --test-threads 8 --offline 2>&1 || true) | tail -3 | tee -a $OUT/verify.log
mv /tmp/seed_demo_aside.rs tests/seed_demo.rs
echo "== demo with change" | tee -a $OUT/verify.log
(cargo test --offline --features rayon,serde --test seed_demo 2>&1 || true) | grep -E "^test result|panicked|error\[" | sort -r | head -6 | tee -a $OUT/verify.log
echo "== demo without change" | tee -a $OUT/verify.log
sw $OUT/fixed.diff
(cargo test --offline --features rayon,serde --test seed_demo 2>&1 || true) | grep -E "^test result|panicked|error\[" | sort -r | head -6 | tee -a $OUT/verify.log
sw $OUT/patch.diff
echo "== checks against the buggy feature applied to /repo" | tee -a $OUT/verify.log
cd /repo && git apply $OUT/patch.diff && (cd /verif && ./check all --quiet --evidence-dir /tmp/seed-evidence --keys-out $OUT/keys.json 2>&1 | grep -E "VIOLATION|INFRA" | tee -a $OUT/verify.log); git -C /repo checkout -- . && git -C /repo clean -fdq -- src
echo "== checks against the corrected feature applied to /repo" | tee -a $OUT/verify.log
cd /repo && git apply $OUT/fixed.diff && (cd /verif && ./check all --quiet --evidence-dir /tmp/seed-evidence --keys-out $OUT/keys_fixed.json 2>&1 | grep -E "VIOLATION|INFRA" | tee -a $OUT/verify.log); git -C /repo checkout -- . && git -C /repo clean -fdq -- src; git -C /repo status --short | head -3
python3 - <<PY
import json
for nm in ("keys.json", "keys_fixed.json"):
    k=json.load(open("$OUT/"+nm))
    print(nm, "fresh:", sorted({x for v in k.values() for x in v["fresh"]}))
    print(nm, "properties alarmed:", sorted(p for p,v in k.items() if v["fresh"]))
PY
rm -rf /tmp/seed-evidence
