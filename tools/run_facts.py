#!/usr/bin/env python3
"""dev helper: run every registered rule (or the named ones) on an existing fact file and print violations.
usage: tools/run_facts.py <facts.json> [rule ids...]"""
import importlib, os, sys, traceback
VERIF = os.path.dirname(os.path.dirname(os.path.abspath(__file__)))
sys.path.insert(0, os.path.join(VERIF, "analysis"))
import registry
from core import Facts
from engine import Ctx
ctx = Ctx(Facts(sys.argv[1])); ctx.verif = VERIF
skip = {"W-witness", "X-contract", "F-diff"}
if os.environ.get("VIEW"):
    from engine import view_ctx
    ctx = view_ctx(ctx, os.environ["VIEW"])
    print("view %s: inlined %s" % (os.environ["VIEW"], sorted(set("%s <- %s" % (a.split("::")[-1], b.split("::")[-1]) for a, b in ctx.inlined))))
for rid in (sys.argv[2:] or [r for r in registry.RULES if r not in skip]):
    from engine import run_rule
    R = run_rule(ctx, rid, None, views=not os.environ.get("NOVIEWS"))
    if R.violations or len(sys.argv) > 2 or getattr(R, "view", None):
        print("== %s: %d instances, %d violations%s" % (rid, len(R.instances), len(R.violations), " [view %s]" % R.view if getattr(R, "view", None) else ""))
        for v in R.violations:
            print("   %s @ %s\n        %s" % (v.key, v.where, v.why[:400]))
