#!/usr/bin/env python3
"""dev helper: run every registered rule (or the named ones) on an existing fact file and print violations.
usage: tools/run_facts.py <facts.json> [rule ids...]"""
import importlib, os, sys, traceback
VERIF = os.path.dirname(os.path.dirname(os.path.abspath(__file__)))
sys.path.insert(0, os.path.join(VERIF, "analysis"))
import registry
from core import Facts
from engine import Ctx
ctx = Ctx(Facts(sys.argv[1])); ctx.verif = VERIF
skip = {"W-witness", "X-contract", "F-diff"}
for rid in (sys.argv[2:] or [r for r in registry.RULES if r not in skip]):
    mod, fn = registry.RULES[rid].split(".")
    try:
        R = getattr(importlib.import_module(mod), fn)(ctx)
    except Exception:
        print("== %s CRASH\n%s" % (rid, traceback.format_exc()[-600:])); continue
    if R.violations or len(sys.argv) > 2:
        print("== %s: %d instances, %d violations" % (rid, len(R.instances), len(R.violations)))
        for v in R.violations:
            print("   %s @ %s\n        %s" % (v.key, v.where, v.why[:400]))
