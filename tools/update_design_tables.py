#!/usr/bin/env python3
"""Replace the generated tables of DESIGN.md (§13.3 rules, §8 mutants) with the output of tools/design_tables.py.
usage: tools/update_design_tables.py <facts F1 json> <selftest log>"""
import os, re, subprocess, sys
VERIF = os.path.dirname(os.path.dirname(os.path.abspath(__file__)))
out = subprocess.run([sys.executable, os.path.join(VERIF, "tools", "design_tables.py"), sys.argv[1], sys.argv[2]], capture_output=True, text=True, check=True).stdout
rules_tbl, mut_tbl = out.strip().split("\n\n")
p = os.path.join(VERIF, "DESIGN.md")
s = open(p).read()


def replace_table(s, header, new):
    i = s.index(header)
    j = s.index("\n\n", i)
    return s[:i] + new.strip() + s[j:]


s = replace_table(s, "| rule | serves | instances on this tree | decides |", rules_tbl)
s = replace_table(s, "| mutant | kind | outcome |", mut_tbl)
n = mut_tbl.count("\n") - 1
s = re.sub(r"`selftest/mutants.json` holds \d+ seeded edits", "`selftest/mutants.json` holds %d seeded edits" % n, s)
s = re.sub(r"Last full run \(all \d+ as required\)", "Last full run (all %d as required)" % n, s)
open(p, "w").write(s)
print("tables updated: %d rules, %d mutants" % (rules_tbl.count("\n") - 1, n))
