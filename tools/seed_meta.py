#!/usr/bin/env python3
"""write seeded/<id>/meta.json from the verify log + keys.json; usage: seed_meta.py <dir> <property> <needs...>"""
import json, os, sys
d, prop, needs = sys.argv[1], sys.argv[2], sys.argv[3]
keys = json.load(open(os.path.join(d, "keys.json")))
fresh = sorted({x for v in keys.values() for x in v["fresh"]})
log = open(os.path.join(d, "verify.log")).read()
meta = {
    "breaks_property": prop,
    "written_by": "independent sub-agent given only the property text and a scratch worktree of /repo",
    "needs_to_manifest": needs,
    "confirmed": {
        "suite_passes_with_change": bool(__import__("re").search(r"\d+ tests run: (\d+) passed, 0 skipped", log.split("== demo with change")[0])) and " failed" not in log.split("== demo with change")[0],
        "demo_fails_with_change": any(w in log.split("== demo with change")[1].split("== demo without change")[0] for w in ("FAILED", "panicked")),
        "demo_passes_without_change": "test result: ok" in log.split("== demo without change")[1],
        "commands": ["cargo nextest run --workspace --no-fail-fast --offline   (in the scratch worktree, demonstration moved aside)",
                     "cargo test --offline --features rayon,serde --test seed_demo   (with the change, then with `git stash -- src`)",
                     "git -C /repo apply patch.diff && ./check all && git -C /repo checkout -- ."],
    },
    "checks_alarmed": sorted(p for p, v in keys.items() if v["fresh"]),
    "violation_keys": fresh,
    "caught_for_this_property": bool(keys.get(prop, {}).get("fresh")),
}
json.dump(meta, open(os.path.join(d, "meta.json"), "w"), indent=1)
print(d, "caught" if meta["caught_for_this_property"] else "MISSED", meta["checks_alarmed"])
