#!/bin/bash
# usage: tools/try_patches.sh <dir with r*.diff> <prefix>  — for every single-refactoring patch: facts of the patched scratch copy, every rule;
# prints the violation keys (a behaviour-preserving patch must print none).  Patches are copied to seeded/refactors/singles/<prefix>-rK.diff.
set -u
D=$1; P=$2
mkdir -p /verif/seeded/refactors/singles /tmp/gv
cp $D/README.md /verif/seeded/refactors/singles/$P.README.md 2>/dev/null
one() {
  f=$1; P=$2
  k=$(basename $f .diff)
  cp $f /verif/seeded/refactors/singles/$P-$k.diff
  out=$(/verif/tools/facts_of_patch.sh $f $P-$k 2>&1 | tail -1)
  if [ ! -s /tmp/gv/$P-$k.json ]; then echo "## $P-$k: NO FACTS ($out)"; return; fi
  res=$(cd /verif && python3 tools/run_facts.py /tmp/gv/$P-$k.json 2>&1 | grep "^   [A-Z]\|Error" | cut -c1-260)
  echo "## $P-$k: $(echo -n "$res" | grep -c . ) alarm(s)"
  [ -n "$res" ] && echo "$res"
}
export -f one
ls $D/r*.diff | xargs -P 4 -I{} bash -c "one {} $P"
