#!/usr/bin/env python3
"""Regenerate MANIFEST.json from analysis/registry.py (so that claims and rules cannot drift apart)."""
import json, os, sys
VERIF = os.path.dirname(os.path.dirname(os.path.abspath(__file__)))
sys.path.insert(0, os.path.join(VERIF, "analysis"))
import registry

TEXT = getattr(registry, "PROPERTY_TEXT", {})
NA = getattr(registry, "NOT_APPLICABLE", {})

checks = []
na = []
for pid in sorted(registry.PROPERTY_RULES):
    rules = registry.PROPERTY_RULES[pid]
    if not rules or pid in NA:
        na.append({"property_id": pid, "reason": NA.get(pid, "no static rule implemented yet for this property (work in progress); not claimed")})
        continue
    t = TEXT.get(pid, {})
    checks.append({
        "property_id": pid,
        "quick_cmd": "./check %s --tier quick" % pid,
        "thorough_cmd": "./check %s --tier thorough" % pid,
        "evidence_file": "evidence/%s.json" % pid,
        "replay_cmd_template": "cat {path}",
        "engine": "mir-rules",
        "technique": t.get("technique", "static analysis over rustc MIR: " + ", ".join(rules)),
        "level_claimed": {
            "category": "other",
            "text": t.get("level", "Sound static analysis (path/dataflow rules over the type-checked MIR of every generic body) of structural necessary "
                                   "conditions of the property; the behavioural statement itself is not decided. Rules: " + ", ".join(rules)),
            "design_ref": "DESIGN.md §6/" + pid,
        },
        "level_note": t.get("note", "Trusted: rustc nightly MIR and type/borrow checking; hashbrown 0.14.5 behaves as in the contract table (DESIGN §4); "
                                    "rayon/serde as documented. Not decided: see DESIGN §6/%s 'Not decided'." % pid),
    })

m = {
    "version": 1,
    "setup_cmd": "cd driver && CARGO_NET_OFFLINE=true cargo build --offline",
    "hooks": {
        "guard": "griddle_verif",
        "enable": "none needed: the analysis reads the compiler's own IR of the unmodified sources (no instrumentation in /repo)",
        "baseline_off_cmd": "cd /repo && cargo nextest run --workspace --no-fail-fast --test-threads 8 --offline || cargo test --workspace --no-fail-fast --offline",
        "source_commits": [],
        "add_only": True,
    },
    "engines": [
        {"name": "griddle-facts", "path": "driver/", "serves_properties": sorted(registry.PROPERTY_RULES), "kind_free_text": "rustc_private MIR/type fact extractor (RUSTC_WORKSPACE_WRAPPER under cargo +nightly check)"},
        {"name": "mir-rules", "path": "analysis/", "serves_properties": [c["property_id"] for c in checks], "kind_free_text": "Python rule engine: CFG/dominators, typestate dataflow, provenance (colour) dataflow, taint, symbolic size obligations, call-graph reachability"},
    ],
    "checks": checks,
    "not_applicable": na,
    "notes": "All checks are static (no griddle code is executed). known_findings.json lists genuine defects (open / fixed). ./check selftest exercises the checker on seeded mutants.",
}
with open(os.path.join(VERIF, "MANIFEST.json"), "w") as f:
    json.dump(m, f, indent=1)
print("MANIFEST.json: %d checks, %d not_applicable" % (len(checks), len(na)))
