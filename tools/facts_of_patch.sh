#!/bin/bash
# usage: tools/facts_of_patch.sh <patch> <name>  — applies the patch to a scratch copy of /repo (never to /repo itself), extracts F1 facts to /tmp/gv/<name>.json
set -u
P=$(readlink -f $1); N=$2
mkdir -p /tmp/gv
S=/tmp/gv/scratch-$N
rm -rf $S; mkdir -p $S
git -C /repo archive HEAD | tar -x -C $S
cd $S && git init -q . 2>/dev/null; git apply $P || { echo "patch does not apply"; rm -rf $S; exit 2; }
T=/tmp/gv/t-$N
LD_LIBRARY_PATH=$(rustc +nightly --print sysroot)/lib RUSTFLAGS="-Zmir-opt-level=0 -Awarnings -C debug-assertions=on -C overflow-checks=on" RUSTC_WORKSPACE_WRAPPER=/verif/driver/target/debug/griddle-facts VERIF_CRATE=griddle VERIF_FACTS_OUT=/tmp/gv/$N.json CARGO_TARGET_DIR=$T CARGO_NET_OFFLINE=true cargo +nightly check --offline --lib --features rayon,serde 2>&1 | tail -1
rm -rf $T $S
