#!/usr/bin/env python3
"""generate simple source mutants of griddle (operator flips, negated conditions, deleted statements) as (file, line, old, new) records"""
import re, json, sys, subprocess
files = ["src/raw/mod.rs", "src/map.rs", "src/set.rs", "src/external_trait_impls/rayon/raw.rs", "src/external_trait_impls/rayon/map.rs",
         "src/external_trait_impls/rayon/set.rs", "src/external_trait_impls/rayon/helpers.rs", "src/external_trait_impls/serde.rs"]
out = []
for f in files:
    src = subprocess.run(["git", "-C", "/repo", "show", "HEAD:" + f], capture_output=True, text=True).stdout.split("\n")
    in_test = False
    depth_test = None
    for i, ln in enumerate(src):
        s = ln.strip()
        if re.match(r"^mod test", s) or s.startswith("mod tests"):
            in_test = True
        if in_test:
            continue          # test modules are at the end of the files
        if not s or s.startswith("//") or s.startswith("#[") or s.startswith("///") or s.startswith("use ") or s.startswith("pub use"):
            continue
        code = ln.split("//")[0]
        def add(new, kind):
            if new != ln:
                out.append({"file": f, "line": i + 1, "old": ln, "new": new, "kind": kind})
        # operator flips (first occurrence each)
        for a, b in ((" == ", " != "), (" != ", " == "), (" <= ", " < "), (" < ", " <= "), (" >= ", " > "), (" > ", " >= "), (" && ", " || "), (" || ", " && "),
                     (" + ", " - "), (" - ", " + "), ("true", "false"), ("false", "true")):
            if a in code and "->" not in code and "<'" not in code and "fn " not in code and "impl" not in code and "where" not in code and "type " not in code:
                if a.strip() in ("<", ">", "<=", ">=") and ("<" in code and ">" in code and "::<" in code):
                    continue
                add(ln.replace(a, b, 1), "flip " + a.strip())
        m = re.match(r"^(\s*)(\} else )?if (?!let )(.*) \{\s*$", code)
        if m:
            add("%s%sif !(%s) {" % (m.group(1), m.group(2) or "", m.group(3)), "negate if")
        # statement deletion: a call statement on one line
        if re.match(r"^\s*(self\.|lo\.|let _ = |[a-z_]+\.)[A-Za-z_0-9\.]*\(.*\);\s*$", code) and "let " not in code.replace("let _ =", ""):
            add(re.match(r"^(\s*)", ln).group(1) + "// (statement deleted)", "delete stmt")
        # `?` dropped / Some -> None is too noisy; R arithmetic
        if re.search(r"\bR\b", code) and "const R" not in code:
            add(re.sub(r"\bR\b", "(R + 1)", ln, count=1), "R+1")
json.dump(out, open("/tmp/mut/mutants.json", "w"), indent=0)
print(len(out), "mutants")
from collections import Counter
print(Counter(m["file"] for m in out))
