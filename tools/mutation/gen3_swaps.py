#!/usr/bin/env python3
"""third campaign: identifier swaps, constants, halves of && / || conditions, sibling methods"""
import re, json, subprocess
files = ["src/raw/mod.rs", "src/map.rs", "src/set.rs", "src/external_trait_impls/rayon/raw.rs", "src/external_trait_impls/rayon/map.rs",
         "src/external_trait_impls/rayon/set.rs", "src/external_trait_impls/rayon/helpers.rs", "src/external_trait_impls/serde.rs"]
out = []
swaps = [("self.table", "lo.table"), ("lo.table", "self.table"), ("self.len()", "other.len()"), ("other.len()", "self.len()"), ("self.", "other."), ("other.", "self."),
         ("self.table", "self.leftovers"), ("smaller", "larger"), ("larger", "smaller"), ("carry(", "carry_all("), ("carry_all(", "carry("), (".insert(", ".insert_no_grow("),
         (".a.", ".b."), (".b.", ".a."), ("self.a", "self.b"), ("self.b", "self.a"), (".iter()", ".into_iter()"), ("key", "k"), ("in_main: true", "in_main: false"),
         (".next()", ".next_back()"), ("additional", "need"), ("need", "additional"), ("extra", "add"), ("min_size", "need"), (".len()", ".capacity()"), (".capacity()", ".len()"),
         (".find(", ".get("), ("contains(", "insert("), (".difference(", ".intersection("), (".intersection(", ".difference("), (".chain(", ".zip("), ("Some(k)", "None"),
         ("Ok(())", "Err(TryReserveError::CapacityOverflow)"), ("hash, ", "0, "), ("(hash", "(0"), (" / 2", " / 1"), (" / R", " / 2"), ("R - 1", "R"), ("0..R", "0..1"), ("0..R", "1..R"),
         ("take()", "as_ref()"), ("mem::replace", "mem::swap"), ("&mut ", "& "), (".reflect_remove(", ".reflect_insert("), ("!= 0", "!= 1"), ("== 0", "== 1"), ("(1)", "(0)"), ("grow(1", "grow(0")]
for f in files:
    src = subprocess.run(["git", "-C", "/repo", "show", "HEAD:" + f], capture_output=True, text=True).stdout.split("\n")
    cut = next((i for i, l in enumerate(src) if re.match(r"^mod test", l.strip())), len(src))
    for i, ln in enumerate(src[:cut]):
        s = ln.strip()
        if not s or s.startswith("//") or s.startswith("#[") or s.startswith("use ") or s.startswith("///"):
            continue
        code = ln.split("//")[0]
        if re.search(r"\bfn \w+|^\s*(pub )?(struct|enum|impl|trait|type|where)\b", code):
            continue
        seen = set()
        for a, b in swaps:
            if a in code:
                new = ln.replace(a, b, 1)
                if new != ln and new not in seen:
                    seen.add(new)
                    out.append({"file": f, "start": i + 1, "end": i + 1, "new_lines": [new], "kind": "swap %s -> %s" % (a, b)})
        m = re.match(r"^(\s*(?:\} else )?if )(.*?) (&&|\|\|) (.*) \{\s*$", code)
        if m:
            out.append({"file": f, "start": i + 1, "end": i + 1, "new_lines": ["%s%s {" % (m.group(1), m.group(2))], "kind": "drop right of " + m.group(3)})
            out.append({"file": f, "start": i + 1, "end": i + 1, "new_lines": ["%s%s {" % (m.group(1), m.group(4))], "kind": "drop left of " + m.group(3)})
        m = re.match(r"^(\s*)(.*?) (&&|\|\|) (.*)$", code)
        if m and not code.strip().startswith(("if ", "} else if", "let ", "while ")) and not code.rstrip().endswith("{") and "=>" not in code:
            out.append({"file": f, "start": i + 1, "end": i + 1, "new_lines": ["%s%s" % (m.group(1), m.group(4))], "kind": "drop left of " + m.group(3) + " (expr)"})
json.dump(out, open("/tmp/mut/mutants3.json", "w"), indent=0)
print(len(out))
