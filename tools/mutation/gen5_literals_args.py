#!/usr/bin/env python3
"""fifth campaign: integer literals, argument swaps, removed links of method chains, Some(x) -> None in arms, swapped match arms"""
import re, json, subprocess
files = ["src/raw/mod.rs", "src/map.rs", "src/set.rs", "src/external_trait_impls/rayon/raw.rs", "src/external_trait_impls/rayon/map.rs",
         "src/external_trait_impls/rayon/set.rs", "src/external_trait_impls/rayon/helpers.rs", "src/external_trait_impls/serde.rs"]
out = []
for f in files:
    src = subprocess.run(["git", "-C", "/repo", "show", "HEAD:" + f], capture_output=True, text=True).stdout.split("\n")
    cut = next((i for i, l in enumerate(src) if re.match(r"^mod test", l.strip())), len(src))
    for i in range(cut):
        ln = src[i]
        s = ln.strip()
        if not s or s.startswith(("//", "#[", "///", "use ")):
            continue
        code = ln.split("//")[0]
        if re.search(r"\bfn \w+|^\s*(pub )?(struct|enum|impl|trait|type|where)\b", code):
            continue
        ind = re.match(r"^(\s*)", ln).group(1)
        def add(new, kind, end=None, new_lines=None):
            if new_lines is None:
                if new == ln:
                    return
                new_lines = [new]
            out.append({"file": f, "start": i + 1, "end": end or i + 1, "new_lines": new_lines, "kind": kind})
        for m in re.finditer(r"(?<![\w\.])(\d+)(?![\w\.])", code):
            v = int(m.group(1))
            if v > 64 or "0.." in code[max(0, m.start() - 3):m.end() + 3]:
                continue
            for nv in ({0: [1], 1: [0, 2], 2: [1, 3]}.get(v, [v - 1, v + 1])):
                add(ln[:m.start()] + str(nv) + ln[m.end():], "literal %d -> %d" % (v, nv))
        # swap two simple arguments
        for m in re.finditer(r"\(([a-z_&\.\*]+(?:\(\))?), ([a-z_&\.\*]+(?:\(\))?)\)", code):
            if m.group(1) != m.group(2):
                add(ln[:m.start()] + "(" + m.group(2) + ", " + m.group(1) + ")" + ln[m.end():], "swap args")
        # remove a link of a method chain
        for m in re.finditer(r"\.(saturating_add|checked_add|map|filter|cloned|chain|take|rev|min|max|or_else|and_then|as_ref|as_mut)\((?:[^()]|\([^()]*\))*\)", code):
            add(ln[:m.start()] + ln[m.end():], "drop ." + m.group(1))
        m = re.match(r"^(\s*)(Some\(.*\)|[A-Za-z_:]+::Occupied\(.*\)) => (Some\(.*\)|true|false),\s*$", code)
        if m:
            add("%s%s => %s," % (m.group(1), m.group(2), "None" if m.group(3).startswith("Some") else ("false" if m.group(3) == "true" else "true")), "arm result")
        m = re.match(r"^(\s*)None => (.*),\s*$", code)
        if m and m.group(2) in ("None", "true", "false", "0"):
            add("%sNone => %s," % (m.group(1), {"None": "unreachable!()", "true": "false", "false": "true", "0": "1"}[m.group(2)]), "none arm")
json.dump(out, open("/tmp/mut/mutants5.json", "w"), indent=0)
print(len(out))
