#!/usr/bin/env python3
"""apply each generated mutant in a worker copy of /repo; keep those that build and pass the 86-test suite; run ./check all on them"""
import json, os, subprocess, sys, shutil, time
from concurrent.futures import ThreadPoolExecutor
import threading, queue
NW = int(sys.argv[1]) if len(sys.argv) > 1 else 12
muts = json.load(open(sys.argv[2] if len(sys.argv) > 2 else "/tmp/mut/mutants.json"))
OUT = sys.argv[3] if len(sys.argv) > 3 else "/tmp/mut/results.json"
env = dict(os.environ, CARGO_NET_OFFLINE="true")
workers = queue.Queue()
def setup(i):
    d = "/tmp/mut/w%d" % i
    if not os.path.exists(d + "/Cargo.toml"):
        os.makedirs(d, exist_ok=True)
        subprocess.run("git -C /repo archive HEAD | tar -x -C %s" % d, shell=True, check=True)
        subprocess.run(["cargo", "test", "--workspace", "--no-run", "--offline"], cwd=d, env=env, capture_output=True)
        subprocess.run(["cargo", "build", "--offline", "--features", "rayon,serde"], cwd=d, env=env, capture_output=True)
    return d
with ThreadPoolExecutor(NW) as ex:
    for d in ex.map(setup, range(NW)):
        workers.put(d)
print("workers ready", flush=True)
results = []
lock = threading.Lock()
def run(m):
    d = workers.get()
    try:
        p = os.path.join(d, m["file"])
        orig = open(p).read()
        lines = orig.split("\n")
        if "start" in m:
            if m.get("swap"):
                lines[m["start"] - 1:m["start"] + 1] = m["new_lines"]
            elif m["end"] > m["start"]:
                lines[m["start"] - 1:m["end"] + 1] = m["new_lines"]
            else:
                lines[m["start"] - 1:m["start"]] = m["new_lines"]
        else:
            assert lines[m["line"] - 1] == m["old"], (m["file"], m["line"])
            lines[m["line"] - 1] = m["new"]
        open(p, "w").write("\n".join(lines))
        r = {"m": m}
        b = subprocess.run(["cargo", "build", "--offline", "--features", "rayon,serde"], cwd=d, env=env, capture_output=True, text=True)
        if b.returncode != 0 or "warning: unused" in b.stderr or "warning: unreachable" in b.stderr:
            r["status"] = "no-compile" if b.returncode != 0 else "warns"
        else:
            t = subprocess.run(["cargo", "nextest", "run", "--workspace", "--no-fail-fast", "--test-threads", "4", "--offline"], cwd=d, env=env, capture_output=True, text=True)
            if t.returncode != 0:
                r["status"] = "killed-by-tests"
            else:
                ko = os.path.join(d, "keys.json")
                c = subprocess.run(["/verif/check", "all", "--repo", d, "--evidence-dir", os.path.join(d, "ev"), "--keys-out", ko, "--quiet"], capture_output=True, text=True)
                if c.returncode == 2:
                    r["status"] = "check-infra"
                    r["detail"] = c.stderr[-300:]
                else:
                    k = json.load(open(ko))
                    fresh = sorted({x for v in k.values() for x in v["fresh"]})
                    r["status"] = "caught" if fresh else "SILENT"
                    r["keys"] = fresh[:6]
                    r["props"] = sorted(p_ for p_, v in k.items() if v["fresh"])
        open(p, "w").write(orig)
        with lock:
            results.append(r)
            print("%-16s %s:%d %s | %s" % (r["status"], m["file"], m.get("line", m.get("start")), m["kind"], (m.get("new") or " ".join(x.strip() for x in m["new_lines"]))[:90]), flush=True)
            json.dump(results, open(OUT, "w"), indent=0)
    finally:
        workers.put(d)
with ThreadPoolExecutor(NW) as ex:
    list(ex.map(run, muts))
from collections import Counter
print(Counter(r["status"] for r in results))
