#!/usr/bin/env python3
"""fourth campaign: conditions forced true/false, (multi-line) statement deletion, swaps of adjacent statements, early returns"""
import re, json, subprocess
files = ["src/raw/mod.rs", "src/map.rs", "src/set.rs", "src/external_trait_impls/rayon/raw.rs", "src/external_trait_impls/rayon/map.rs",
         "src/external_trait_impls/rayon/set.rs", "src/external_trait_impls/rayon/helpers.rs", "src/external_trait_impls/serde.rs"]
out = []
for f in files:
    src = subprocess.run(["git", "-C", "/repo", "show", "HEAD:" + f], capture_output=True, text=True).stdout.split("\n")
    cut = next((i for i, l in enumerate(src) if re.match(r"^mod test", l.strip())), len(src))
    def is_code(i):
        s = src[i].strip()
        return bool(s) and not s.startswith(("//", "#[", "///"))
    for i in range(cut):
        ln = src[i]
        if not is_code(i):
            continue
        code = ln.split("//")[0]
        ind = re.match(r"^(\s*)", ln).group(1)
        m = re.match(r"^(\s*(?:\} else )?if )(?!let )(.*) \{\s*$", code)
        if m:
            for v in ("true", "false"):
                out.append({"file": f, "start": i + 1, "end": i + 1, "new_lines": ["%s%s {" % (m.group(1), v)], "kind": "if " + v})
        m = re.match(r"^(\s*(?:\} else )?if let .*? = )(.*) \{\s*$", code)
        if m and "Some(" in code:
            out.append({"file": f, "start": i + 1, "end": i + 1, "new_lines": ["%sNone::<core::convert::Infallible>.map(|x| match x {}) {" % m.group(1)], "kind": "if let never"})
        m = re.match(r"^(\s*)while (?!let )(.*) \{\s*$", code)
        if m:
            out.append({"file": f, "start": i + 1, "end": i + 1, "new_lines": ["%swhile false {" % m.group(1)], "kind": "while false"})
        # single-line statement deletion (anything ending in ;) inside a fn body (indent >= 8), not a let with a later use (compile filter does the rest)
        if len(ind) >= 8 and code.rstrip().endswith(";") and not code.strip().startswith(("let ", "return", "use ", "type ", "const ")) and "=>" not in code:
            out.append({"file": f, "start": i + 1, "end": i + 1, "new_lines": [ind + "// (deleted)"], "kind": "delete line"})
        # multi-line statement: starts here, ends at a line `<ind>);` or `<ind>};` 
        if len(ind) >= 8 and not code.rstrip().endswith((";", "{", "}", ",")) and not code.strip().startswith(("let ", "return", ".", "//", "|", "&&", "||")) and "=>" not in code:
            j = i + 1
            while j < cut and j < i + 12 and not (src[j].startswith(ind) and src[j].strip() in (");", "};", "})?;", ")?;", "});")):
                if src[j].strip() == "" or len(re.match(r"^(\s*)", src[j]).group(1)) < len(ind):
                    j = None
                    break
                j += 1
            if j is not None and j < cut and j < i + 12 and src[j].startswith(ind) and src[j].strip() in (");", "};", "})?;", ")?;", "});"):
                out.append({"file": f, "start": i + 1, "end": j, "new_lines": [ind + "// (statement deleted)"], "kind": "delete stmt %d lines" % (j - i + 1), "multi": True})
        # swap with the next line when both are single-line statements at the same indentation
        if i + 1 < cut and is_code(i + 1) and len(ind) >= 8 and code.rstrip().endswith(";") and src[i + 1].split("//")[0].rstrip().endswith(";") \
                and re.match(r"^(\s*)", src[i + 1]).group(1) == ind and not code.strip().startswith("let ") and not src[i + 1].strip().startswith("let "):
            out.append({"file": f, "start": i + 1, "end": i + 1, "swap": True, "new_lines": [src[i + 1], ln], "kind": "swap lines", "multi": True})
        # early return of unit functions: insert `return;` before a statement at body level
        if len(ind) == 8 and code.rstrip().endswith(";") and not code.strip().startswith(("let ", "return")):
            out.append({"file": f, "start": i + 1, "end": i + 1, "new_lines": [ind + "if true { return Default::default(); }", ln], "kind": "early return"})
json.dump(out, open("/tmp/mut/mutants4.json", "w"), indent=0)
print(len(out))
from collections import Counter
print(Counter(m["kind"].split(" ")[0] + " " + m["kind"].split(" ")[1] if " " in m["kind"] else m["kind"] for m in out))
