#!/usr/bin/env python3
"""second campaign: whole-body replacements (cargo-mutants style) and more token-level operators"""
import re, json, subprocess
files = ["src/raw/mod.rs", "src/map.rs", "src/set.rs", "src/external_trait_impls/rayon/raw.rs", "src/external_trait_impls/rayon/map.rs",
         "src/external_trait_impls/rayon/set.rs", "src/external_trait_impls/rayon/helpers.rs", "src/external_trait_impls/serde.rs"]
out = []
for f in files:
    src = subprocess.run(["git", "-C", "/repo", "show", "HEAD:" + f], capture_output=True, text=True).stdout.split("\n")
    n = len(src)
    cut = next((i for i, l in enumerate(src) if re.match(r"^mod test", l.strip())), n)
    i = 0
    while i < cut:
        ln = src[i]
        m = re.match(r"^(\s*)(?:pub(?:\([a-z]+\))? )?(?:const )?(?:unsafe )?fn (\w+)", ln)
        if m and not ln.strip().startswith("//"):
            ind = m.group(1)
            # find the line with the opening brace of the body
            j = i
            sig = ""
            while j < cut and not (src[j].rstrip().endswith("{") and (src[j].startswith(ind) and (j == i or src[j].strip() == "{" or src[j].rstrip().endswith(") {") or "->" in src[j] or src[j].strip().endswith("{")))):
                sig += src[j] + "\n"
                j += 1
            if j >= cut:
                i += 1
                continue
            sig += src[j]
            # closing brace
            k = j + 1
            while k < cut and src[k] != ind + "}":
                k += 1
            if k >= cut or k == j + 1:
                i += 1
                continue
            ret = None
            mr = re.search(r"->\s*([^{]+?)\s*(where|\{)", sig.replace("\n", " "))
            if mr:
                ret = mr.group(1).strip()
            bodies = []
            if ret is None:
                bodies = [""]
            elif ret == "bool":
                bodies = ["true", "false"]
            elif ret == "usize":
                bodies = ["0", "1"]
            elif ret.startswith("Option<"):
                bodies = ["None"]
            elif ret == "(usize, Option<usize>)":
                bodies = ["(0, None)", "(0, Some(0))"]
            for bd in bodies:
                new = [src[j], ind + "    " + bd] if bd else [src[j]]
                out.append({"file": f, "start": j + 1, "end": k, "new_lines": new + [src[k]], "kind": "body:%s -> %s" % (m.group(2), bd or "{}"), "fn": m.group(2)})
            i = j + 1
            continue
        i += 1
    # token-level
    for i, ln in enumerate(src[:cut]):
        s = ln.strip()
        if not s or s.startswith("//") or s.startswith("#[") or s.startswith("use "):
            continue
        code = ln.split("//")[0]
        def add(new, kind):
            if new != ln:
                out.append({"file": f, "start": i + 1, "end": i + 1, "new_lines": [new], "kind": kind})
        for a, b in ((" += ", " -= "), (".saturating_add(", ".wrapping_add("), ("usize::max(", "usize::min("), (".max(", ".min("), (".min(", ".max("), (".is_some()", ".is_none()"), (".is_none()", ".is_some()"),
                     (".is_empty()", ".is_empty() == false"), (".0", ".1"), (".1", ".0"), ("Some(", "None.or(Some("), (".as_mut()", ".as_ref()")):
            if a in code and "fn " not in code and "impl" not in code:
                if a == "Some(":
                    continue
                add(ln.replace(a, b, 1), "tok " + a.strip())
        mneg = re.search(r"(?<![\w\)])!(?=[a-z_\(])", code)
        if mneg and "!=" not in code[mneg.start():mneg.start() + 2] and "macro" not in code and "!(" not in code[:0]:
            if not re.search(r"\w!\(", code):      # not a macro call
                add(ln[:mneg.start()] + ln[mneg.start() + 1:], "drop !")
        if re.match(r"^\s*[a-z_\.\*\(\)]+(\.[a-z_0-9]+)* (=|\+=|-=) .*;\s*$", code) and "let " not in code and "==" not in code:
            add(re.match(r"^(\s*)", ln).group(1) + "// (assignment deleted)", "delete assign")
        if re.match(r"^\s*return .*;\s*$", code) is None and re.match(r"^\s*[A-Za-z_][A-Za-z_0-9:\.<>]*\(.*\)\?;\s*$", code):
            add(re.match(r"^(\s*)", ln).group(1) + "// (fallible call deleted)", "delete call?")
json.dump(out, open("/tmp/mut/mutants2.json", "w"), indent=0)
print(len(out))
from collections import Counter
print(Counter(m["kind"].split(":")[0].split(" ")[0] for m in out))
