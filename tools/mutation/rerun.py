#!/usr/bin/env python3
"""regression pass over earlier campaigns: re-run ./check all on every mutant that had survived build + tests (status caught / SILENT)
and report the ones whose verdict changed.  usage: rerun.py <workers> <results.json>... ; writes /tmp/mut/rerun.json"""
import json, os, subprocess, sys, threading, queue
from concurrent.futures import ThreadPoolExecutor
NW = int(sys.argv[1])
prev = []
for f in sys.argv[2:]:
    prev += [r for r in json.load(open(f)) if r["status"] in ("caught", "SILENT")]
workers = queue.Queue()
for i in range(NW):
    d = "/tmp/mut/w%d" % i
    if not os.path.exists(d + "/Cargo.toml"):
        os.makedirs(d, exist_ok=True)
        subprocess.run("git -C /repo archive HEAD | tar -x -C %s" % d, shell=True, check=True)
    workers.put(d)
out, lock = [], threading.Lock()
def run(r0):
    m = r0["m"]
    d = workers.get()
    try:
        p = os.path.join(d, m["file"])
        orig = open(p).read()
        lines = orig.split("\n")
        if "start" in m:
            if m.get("swap"):
                lines[m["start"] - 1:m["start"] + 1] = m["new_lines"]
            elif m["end"] > m["start"]:
                lines[m["start"] - 1:m["end"] + 1] = m["new_lines"]
            else:
                lines[m["start"] - 1:m["start"]] = m["new_lines"]
        else:
            assert lines[m["line"] - 1] == m["old"], (m["file"], m["line"])
            lines[m["line"] - 1] = m["new"]
        open(p, "w").write("\n".join(lines))
        ko = os.path.join(d, "keys.json")
        c = subprocess.run(["/verif/check", "all", "--repo", d, "--evidence-dir", os.path.join(d, "ev"), "--keys-out", ko, "--quiet"], capture_output=True, text=True)
        r = {"m": m, "before": r0["status"], "before_props": r0.get("props", [])}
        if c.returncode == 2:
            r["status"] = "check-infra"; r["detail"] = (c.stderr or c.stdout)[-300:]
        else:
            k = json.load(open(ko))
            fresh = sorted({x for v in k.values() for x in v["fresh"]})
            r["status"] = "caught" if fresh else "SILENT"
            r["keys"] = fresh[:6]
            r["props"] = sorted(p_ for p_, v in k.items() if v["fresh"])
        open(p, "w").write(orig)
        with lock:
            out.append(r)
            tag = "same" if r["status"] == r["before"] and set(r.get("props", [])) >= set(r["before_props"]) else "CHANGED"
            print("%-8s %-8s->%-11s %s:%d %s | %s" % (tag, r["before"], r["status"], m["file"], m.get("line", m.get("start")), m["kind"],
                  (m.get("new") or " ".join(x.strip() for x in m["new_lines"]))[:80]), flush=True)
            json.dump(out, open("/tmp/mut/rerun.json", "w"), indent=0)
    finally:
        workers.put(d)
with ThreadPoolExecutor(NW) as ex:
    list(ex.map(run, prev))
