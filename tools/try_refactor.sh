#!/bin/bash
# usage: tools/try_refactor.sh <worktree> <name>   — saves the refactoring patch, extracts facts of the refactored tree to /tmp/gv/<name>.json, runs all rules
set -u
W=$1; N=$2
mkdir -p /verif/seeded/refactors /tmp/gv
(cd $W && git add -N src 2>/dev/null; git diff HEAD -- src > /verif/seeded/refactors/$N.patch.diff; cp SEED/README.md /verif/seeded/refactors/$N.README.md 2>/dev/null)
cd /repo && git apply /verif/seeded/refactors/$N.patch.diff || exit 2
T=/tmp/gv/t-$N
LD_LIBRARY_PATH=$(rustc +nightly --print sysroot)/lib RUSTFLAGS="-Zmir-opt-level=0 -Awarnings -C debug-assertions=on -C overflow-checks=on" RUSTC_WORKSPACE_WRAPPER=/verif/driver/target/debug/griddle-facts VERIF_CRATE=griddle VERIF_FACTS_OUT=/tmp/gv/$N.json CARGO_TARGET_DIR=$T CARGO_NET_OFFLINE=true cargo +nightly check --offline --lib --features rayon,serde 2>&1 | tail -1
rm -rf $T
git -C /repo checkout -- . && git -C /repo clean -fdq -- src
cd /verif && python3 tools/run_facts.py /tmp/gv/$N.json 2>&1 | grep "^   [A-Z]\|CRASH\|Error" -A1 | cut -c1-300
