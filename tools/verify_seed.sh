#!/bin/bash
# usage: tools/verify_seed.sh <worktree dir> <out dir>
# Confirms a seeded change independently: (1) the repository's suite passes with the change, (2) the demonstration fails with it,
# (3) the demonstration passes without it; then applies it to /repo, runs every check, and restores /repo.
set -u
W=$1; OUT=$2; mkdir -p $OUT
cd $W || exit 2
export CARGO_NET_OFFLINE=true
git add -N src 2>/dev/null; git diff HEAD -- src > $OUT/patch.diff
cp tests/seed_demo.rs $OUT/seed_demo.rs 2>/dev/null
echo "== suite with change (demo moved aside)" | tee $OUT/verify.log
mv tests/seed_demo.rs /tmp/seed_demo_aside.rs
(cargo nextest run --workspace --no-fail-fast --test-threads 8 --offline 2>&1 || true) | tail -3 | tee -a $OUT/verify.log
mv /tmp/seed_demo_aside.rs tests/seed_demo.rs
echo "== demo with change" | tee -a $OUT/verify.log
(cargo test --offline --features rayon,serde --test seed_demo 2>&1 || true) | grep -E "^test result|panicked|error\[" | sort -r | head -6 | tee -a $OUT/verify.log
echo "== demo without change" | tee -a $OUT/verify.log
# (no git stash: the stash is shared between worktrees)
git checkout -q -- src; git clean -fdq -- src
(cargo test --offline --features rayon,serde --test seed_demo 2>&1 || true) | grep -E "^test result|panicked|error\[" | sort -r | head -6 | tee -a $OUT/verify.log
git apply $OUT/patch.diff
echo "== checks against the change applied to /repo" | tee -a $OUT/verify.log
cd /repo && git apply $OUT/patch.diff && (cd /verif && ./check all --quiet --evidence-dir /tmp/seed-evidence --keys-out $OUT/keys.json 2>&1 | grep -E "VIOLATION|INFRA" | tee -a $OUT/verify.log); git -C /repo checkout -- . && git -C /repo clean -fdq -- src ; git -C /repo status --short | head -3
python3 - <<PY
import json
k=json.load(open("$OUT/keys.json"))
fresh=sorted({x for v in k.values() for x in v["fresh"]})
print("fresh violation keys:", fresh)
print("properties alarmed:", sorted(p for p,v in k.items() if v["fresh"]))
PY
rm -rf /tmp/seed-evidence
