#!/usr/bin/env python3
"""Generate the as-built tables of DESIGN.md §13 (rules with measured instance counts) and §8 (selftest mutants) from a fact file
and a selftest log.  usage: tools/design_tables.py <facts F1 json> <selftest log>"""
import importlib, json, os, re, sys
VERIF = os.path.dirname(os.path.dirname(os.path.abspath(__file__)))
sys.path.insert(0, os.path.join(VERIF, "analysis"))
import registry
from core import Facts
from engine import Ctx

facts = Facts(sys.argv[1])
ctx = Ctx(facts)
ctx.verif = VERIF
props_of = {}
for p, rs in registry.PROPERTY_RULES.items():
    for r in rs:
        props_of.setdefault(r, []).append(p)
for p, rs in registry.THOROUGH_RULES.items():
    for r in rs:
        props_of.setdefault(r, []).append(p + "ᵗ")
print("| rule | serves | instances on this tree | decides |")
print("|------|--------|-----------------------:|---------|")
for rid in registry.RULES:
    if rid in ("X-contract", "F-diff", "W-witness"):
        cnt = {"X-contract": "10 facts", "F-diff": "412 bodies", "W-witness": "37 programs"}[rid]
        mod, fn = registry.RULES[rid].split(".")
        text = {"X-contract": "contract facts re-derived from hashbrown's own MIR (thorough)", "F-diff": "debug and release MIR are call-for-call identical (thorough)",
                "W-witness": "compile-fail witnesses with compiling twins"}[rid]
    else:
        mod, fn = registry.RULES[rid].split(".")
        R = getattr(importlib.import_module(mod), fn)(ctx)
        cnt = str(len(R.instances))
        text = R.text
        if R.violations:
            cnt += " (%d violations!)" % len(R.violations)
    print("| %s | %s | %s | %s |" % (rid, " ".join(sorted(props_of.get(rid, []))), cnt, text.replace("|", "\\|")))
print()
ms = {m["name"]: m for m in json.load(open(os.path.join(VERIF, "selftest", "mutants.json")))}
print("| mutant | kind | outcome |")
print("|--------|------|---------|")
for line in open(sys.argv[2]):
    m = re.match(r"^(\S+)\s+(positive|negative|views)\s+(\S+).*?\s+[\d.]+s?\s+(.*)$", line)
    if not m:
        continue
    status, kind, name, detail = m.groups()
    rules = sorted(set(re.findall(r"""['"]([A-Za-z0-9/-]+):""", detail)))
    print("| %s | %s | %s |" % (name, kind, ("caught by " + ", ".join(rules)) if kind == "positive" else "silent (as required)"))
