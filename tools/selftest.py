#!/usr/bin/env python3
"""Test the checker both ways (DESIGN §8): apply each seeded mutant to a scratch copy of /repo and require that

* positive mutants: the mutant still compiles and the named rule keys are reported (as fresh violations);
* negative mutants (behaviour preserving): no fresh violation is reported.

This is not a property check; it never touches /repo or /verif/evidence.
usage: tools/selftest.py [name-substring ...] [-j N] [--keep]
"""
import json, os, shutil, subprocess, sys, tempfile, time
from concurrent.futures import ThreadPoolExecutor

VERIF = os.path.dirname(os.path.dirname(os.path.abspath(__file__)))
REPO = os.environ.get("VERIF_REPO", "/repo")


def scratch_root():
    d = os.path.join(os.environ.get("TMPDIR") or "/tmp", "griddle-verif-selftest")
    os.makedirs(d, exist_ok=True)
    return d


def make_copy(name):
    d = tempfile.mkdtemp(prefix="mut-%s-" % name[:24], dir=scratch_root())
    for item in ("src", "Cargo.toml", "Cargo.lock", "benches", "tests"):
        s = os.path.join(REPO, item)
        if os.path.isdir(s):
            shutil.copytree(s, os.path.join(d, item))
        elif os.path.exists(s):
            shutil.copy(s, os.path.join(d, item))
    return d


def apply(m, d):
    if "patch" in m:
        p = subprocess.run(["git", "apply", "--unsafe-paths", "--directory", d, os.path.join(VERIF, m["patch"])], cwd="/", capture_output=True, text=True)
        if p.returncode != 0:
            p = subprocess.run(["patch", "-p1", "-d", d, "-i", os.path.join(VERIF, m["patch"])], capture_output=True, text=True)
            if p.returncode != 0:
                return "patch failed: " + p.stdout + p.stderr
        return None
    for e in m["edits"]:
        f = os.path.join(d, e["file"])
        t = open(f).read()
        cnt = t.count(e["old"])
        if cnt != e.get("count", 1):
            return "edit anchor found %d times (expected %d) in %s: %r" % (cnt, e.get("count", 1), e["file"], e["old"][:60])
        t = t.replace(e["old"], e["new"])
        open(f, "w").write(t)
    return None


def run_one(m, keep=False):
    t0 = time.time()
    d = make_copy(m["name"])
    try:
        err = apply(m, d)
        if err:
            return m, "BROKEN-MUTANT", err, time.time() - t0
        keys_out = os.path.join(d, "keys.json")
        ev = os.path.join(d, "evidence")
        props = m.get("props", "all")
        p = subprocess.run([os.path.join(VERIF, "check"), props, "--repo", d, "--evidence-dir", ev, "--keys-out", keys_out, "--quiet"],
                           capture_output=True, text=True)
        if p.returncode == 2:
            return m, "DOES-NOT-COMPILE", p.stderr[-1500:], time.time() - t0
        keys = json.load(open(keys_out))
        fresh = sorted({k for v in keys.values() for k in v["fresh"]})
        if m["kind"] == "positive":
            for pr in m.get("expect_props", []):
                if not keys.get(pr, {}).get("fresh"):
                    return m, "MISSED", "no fresh violation under property %s; fresh violations: %s" % (pr, fresh), time.time() - t0
            missing = [e for e in m["expect"] if not any(e in k for k in fresh)]
            if missing:
                return m, "MISSED", "expected keys containing %s; fresh violations: %s" % (missing, fresh), time.time() - t0
            shown = [k for k in fresh if any(e in k for e in m["expect"])] or fresh[:4]
            return m, "ok", "caught: %s" % shown, time.time() - t0
        else:
            tol = [k for k in fresh if k in m.get("tolerated", [])]
            fresh = [k for k in fresh if k not in tol]
            if fresh:
                return m, "FALSE-ALARM", "fresh violations on a behaviour-preserving edit: %s" % fresh, time.time() - t0
            if tol:
                return m, "ok", "silent but for the documented limit(s) %s" % tol, time.time() - t0
            return m, "ok", "silent", time.time() - t0
    finally:
        if not keep:
            shutil.rmtree(d, ignore_errors=True)


def view_consistency():
    """every rule must also hold on the inlined views (analysis/inline.py) of the unchanged tree: a view is the same program, so a rule
    that fails there would raise a false alarm on a tree where a helper has been merged into its callers"""
    sys.path.insert(0, os.path.join(VERIF, "analysis"))
    import extract, registry, inline
    from core import Facts
    from engine import Ctx, view_ctx, _apply
    path, work, secs = extract.extract(REPO, "F1")
    bad = 0
    try:
        ctx = Ctx(Facts(path), repo=REPO)
        ctx.verif = VERIF
        for policy in inline.VIEWS:
            v = view_ctx(ctx, policy)
            if v is None:
                print("%-14s %-9s %-40s" % ("BROKEN", "views", "view-" + policy))
                bad += 1
                continue
            viol = []
            for rid in registry.RULES:
                if rid in ("W-witness", "X-contract", "F-diff"):
                    continue
                R = _apply(v, rid)
                viol += [x.key for x in R.violations]
            print("%-14s %-9s %-40s        %s" % ("ok" if not viol else "FALSE-ALARM", "views", "view-%s (%d calls inlined)" % (policy, len(v.inlined)),
                                               "every rule holds on the view" if not viol else viol[:6]))
            bad += 1 if viol else 0
    finally:
        shutil.rmtree(work, ignore_errors=True)
    return bad


def main():
    args = sys.argv[1:]
    jobs = 6
    keep = False
    pats = []
    i = 0
    while i < len(args):
        if args[i] == "-j":
            jobs = int(args[i + 1]); i += 2; continue
        if args[i] == "--keep":
            keep = True; i += 1; continue
        pats.append(args[i]); i += 1
    ms = json.load(open(os.path.join(VERIF, "selftest", "mutants.json")))
    if pats:
        ms = [m for m in ms if any(p in m["name"] for p in pats)]
    bad = 0
    with ThreadPoolExecutor(max_workers=jobs) as ex:
        for m, status, detail, secs in ex.map(lambda m: run_one(m, keep), ms):
            print("%-14s %-9s %-40s %5.1fs  %s" % (status, m["kind"], m["name"], secs, detail[:400]))
            if status != "ok":
                bad += 1
    if not pats or "views" in pats:
        bad += view_consistency()
    print("selftest: %d mutants, %d problems" % (len(ms), bad))
    return 1 if bad else 0


if __name__ == "__main__":
    sys.exit(main())
