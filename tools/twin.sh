#!/bin/bash
# usage: tools/twin.sh <seed dir with patch.diff and fixed.diff> <name>
# A bug hidden inside a refactoring, and the same refactoring with the bug put right: facts of both (scratch copies, never /repo), every rule on
# both, and the difference — what is said about the bug itself as opposed to the refactoring around it.
set -u
D=$1; N=$2
cd /verif
for v in patch fixed; do
  tools/facts_of_patch.sh $D/$v.diff $N-$v 2>&1 | tail -1
  python3 tools/run_facts.py /tmp/gv/$N-$v.json 2>&1 | grep "^   [A-Z]\|Error\|Traceback" | sed 's/ @ .*//' | sort > /tmp/gv/$N-$v.keys
done
echo "== twin (refactoring alone): $(grep -c . /tmp/gv/$N-fixed.keys) report(s)"
cat /tmp/gv/$N-fixed.keys | cut -c1-200
echo "== only with the bug:"
comm -13 /tmp/gv/$N-fixed.keys /tmp/gv/$N-patch.keys | cut -c1-220
echo "== only in the twin:"
comm -23 /tmp/gv/$N-fixed.keys /tmp/gv/$N-patch.keys | cut -c1-220
