#!/bin/bash
# re-run every check against every kept seeded change (applied to /repo, restored straight afterwards) and rewrite keys.json + meta.json
set -u
cd /verif
for d in seeded/*/; do
  [ -f $d/patch.diff ] || continue
  git -C /repo apply $PWD/$d/patch.diff || { echo "cannot apply $d"; continue; }
  ./check all --quiet --evidence-dir /tmp/seed-evidence --keys-out $PWD/$d/keys.json > /dev/null 2>&1
  git -C /repo checkout -- . && git -C /repo clean -fdq -- src
  python3 - "$d" <<'PY'
import json, subprocess, sys, os
d = sys.argv[1].rstrip("/")
m = json.load(open(os.path.join(d, "meta.json")))
subprocess.run(["python3", "/verif/tools/seed_meta.py", d, m["breaks_property"], m["needs_to_manifest"]], check=True)
PY
done
rm -rf /tmp/seed-evidence
git -C /repo status --short | head -3
